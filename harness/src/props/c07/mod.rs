//! C07 — snapshot export/import, save/open and in-memory copy preserve the whole graph; the source is
//! left unchanged; export is deterministic; bytes that are not a snapshot are rejected with an error.
//!
//! Sub-checks
//! * `copies_memory`   history → `export_snapshot`×2 → `import_snapshot`, `to_memory` (no file system)
//! * `copies_files`    history → `save` → `open_in_memory`, `open` (+ the two above)
//! * `hostile_exhaustive`  every truncation and every single-bit flip of small valid snapshots
//! * `hostile_corpus`  every file of the committed libFuzzer seed corpus and of the corpus / artifact directories a
//!   campaign left behind (`VERIF_FUZZ_CORPUS_C07`), judged by the same oracle as the other hostile sub-checks
//! * `hostile_gen`     generated mutilations: multi-bit flips, field surgery (lengths, ids, discriminants),
//!   splices, random bytes, trailing bytes, deep nesting
//!
//! Oracles: an abstract model interpreted next to the database; an independent reader of the snapshot
//! format (`snapfmt`); a fixed + generated battery of read queries answered by source and copy.

pub mod hist;
pub mod snapfmt;
pub mod val;

use std::collections::{BTreeMap, BTreeSet};
use std::time::Duration;

use proptest::prelude::*;
use proptest::strategy::ValueTree;
use proptest::test_runner::{Config, RngSeed, TestRunner};
use serde::{Deserialize, Serialize};

use grafeo_common::types::{EdgeId, NodeId};
use grafeo_core::graph::Direction;
use grafeo_engine::GrafeoDB;

use crate::driver::{CaseResult, Failure, Run, catch, fail, guard, hash_dbg, hash_of, ok, pick, scratch_dir};
use crate::worker::{Reply, WorkerPool, esc, unesc};

use hist::{Dump, Hist, Model, diff, dump_db};
use snapfmt::{FieldKind, PErr};
use val::V;

// ------------------------------------------------------------------------------------------------
// Query battery
// ------------------------------------------------------------------------------------------------

/// One generated filter query: label (3 = none), key, comparison, literal.
#[derive(Clone, Debug, Serialize, Deserialize)]
pub struct GenQuery {
    pub label: u8,
    pub key: u8,
    pub cmp: u8,
    pub lit: i8,
}

fn battery(extra: &[GenQuery]) -> Vec<String> {
    let mut q: Vec<String> = vec![
        "MATCH (n) RETURN id(n)".into(),
        "MATCH (n) RETURN count(n)".into(),
        "MATCH (a)-[r]->(b) RETURN id(a), id(r), id(b)".into(),
        "MATCH (a)<-[r]-(b) RETURN id(a), id(r), id(b)".into(),
        "MATCH (a)-[r]->(b) RETURN count(r)".into(),
        "MATCH (a)-[r]->(b) RETURN id(r), type(r), r.w, r.x".into(),
        "MATCH (a:A)-[r]->(b:B) RETURN id(a), id(b)".into(),
        "MATCH (a)-[r]->(a) RETURN id(a), id(r)".into(),
        "MATCH (n) WHERE n.x > 3 RETURN id(n), n.x".into(),
        "MATCH (n) WHERE n.s = 'abc' RETURN id(n)".into(),
        "MATCH (a)-[r]->(b) WHERE r.w >= 1 RETURN id(r)".into(),
    ];
    for l in ["A", "B", "C"] {
        q.push(format!("MATCH (n:{l}) RETURN id(n)"));
        q.push(format!("MATCH (n:{l}) RETURN count(n)"));
    }
    for k in ["x", "y", "s", "w"] {
        q.push(format!("MATCH (n) RETURN id(n), n.{k}"));
    }
    for t in ["R", "S"] {
        q.push(format!("MATCH (a)-[r:{t}]->(b) RETURN id(a), id(r), id(b)"));
    }
    for g in extra {
        let label = if g.label % 4 == 3 { String::new() } else { format!(":{}", hist::LABELS[(g.label % 4) as usize]) };
        let key = hist::KEYS[(g.key % 4) as usize];
        let cmp = ["=", "<", ">", "<=", ">=", "<>"][(g.cmp % 6) as usize];
        q.push(format!("MATCH (n{label}) WHERE n.{key} {cmp} {} RETURN id(n), n.{key}", g.lit));
    }
    q
}

#[derive(Clone, Debug, PartialEq, Eq)]
enum Answer {
    Rows(Vec<Vec<V>>),
    Err(String),
    Panic(String),
}

fn ask(db: &GrafeoDB, q: &str) -> Answer {
    match catch(|| db.execute(q)) {
        Ok(Ok(res)) => {
            let mut rows: Vec<Vec<V>> = res.rows.iter().map(|r| r.iter().map(V::from_value).collect()).collect();
            rows.sort();
            Answer::Rows(rows)
        }
        Ok(Err(e)) => Answer::Err(e.to_string()),
        Err(p) => Answer::Panic(p.signature()),
    }
}

// ------------------------------------------------------------------------------------------------
// Copies
// ------------------------------------------------------------------------------------------------

#[derive(Clone, Debug, Serialize, Deserialize)]
pub struct CopyCase {
    pub hist: Hist,
    pub queries: Vec<GenQuery>,
}

fn copy_case_strategy(max_ops: usize, allow_persistent: bool) -> impl Strategy<Value = CopyCase> {
    (
        hist::hist_strategy(max_ops, allow_persistent),
        proptest::collection::vec((0u8..4, 0u8..4, 0u8..6, -6i8..21).prop_map(|(label, key, cmp, lit)| GenQuery { label, key, cmp, lit }), 2..4),
    )
        .prop_map(|(hist, queries)| CopyCase { hist, queries })
}

const SIG_LATE: &str = "c07/copy-lacks-entities-created-after-first-commit";
const SIG_ID_REUSE: &str = "c07/copy-hands-out-deleted-source-id";
const SIG_FILTER_PRUNED: &str = "c07/filter-query-pruned-wholesale-on-one-side";

/// What a copy looked like against the model.
enum CopyVerdict {
    Exact,
    /// equal to the model minus the entities created under a transaction-manager epoch > 0
    LacksLate,
}

fn judge_copy(op: &str, model_full: &Dump, model_early: &Dump, late: usize, copy: &Dump) -> Result<CopyVerdict, Failure> {
    match diff(model_full, copy) {
        None => Ok(CopyVerdict::Exact),
        Some((kind, text)) => {
            if late > 0 && copy == model_early {
                Ok(CopyVerdict::LacksLate)
            } else {
                fail(format!("c07/{op}/{kind}"), format!("{op}: {text}"))
            }
        }
    }
}

/// Hands out one node id and one edge id from `db` (a copy) and checks them.
/// Returns `Ok(Some(text))` when an id is not live anywhere in the copy but was used by the source before.
fn fresh_ids(op: &str, db: &GrafeoDB, copy: &Dump, model: &Model) -> Result<Option<String>, Failure> {
    let n = guard("create_node on copy", || db.create_node(&[]))?.as_u64();
    let e = guard("create_edge on copy", || db.create_edge(NodeId::new(n), NodeId::new(n), "R"))?.as_u64();
    if copy.nodes.iter().any(|x| x.id == n) {
        return fail(format!("c07/{op}/next-node-id-collides"), format!("{op}: the copy handed out node id {n}, which is a live node of the copy"));
    }
    if copy.edges.iter().any(|x| x.id == e) {
        return fail(format!("c07/{op}/next-edge-id-collides"), format!("{op}: the copy handed out edge id {e}, which is a live edge of the copy"));
    }
    let dangling_ref = copy.edges.iter().any(|x| x.src == n || x.dst == n);
    if dangling_ref && n >= model.next_node {
        return fail(format!("c07/{op}/next-node-id-collides"), format!("{op}: the copy handed out node id {n}, which one of its edges references"));
    }
    let mut reused = Vec::new();
    if n < model.next_node {
        reused.push(format!(
            "{op}: node id {n} (source has handed out every id below {}){}",
            model.next_node,
            if dangling_ref { "; an edge left dangling by a non-detaching delete now attaches to the new node" } else { "" }
        ));
    }
    if e < model.next_edge {
        reused.push(format!("{op}: edge id {e} (source has handed out every id below {})", model.next_edge));
    }
    Ok(if reused.is_empty() { None } else { Some(reused.join("; ")) })
}

fn check_copies(case: &CopyCase, files: bool) -> CaseResult {
    let h = &case.hist;
    let scratch = if files || h.persistent { Some(scratch_dir()) } else { None };
    let (db, model) = guard("build", || hist::build(h, scratch.as_ref().map(|s| s.path())))??;
    let full = model.dump(false);
    let early = model.dump(true);
    let late = model.late_entities();
    let mut lacks_late: Vec<String> = Vec::new();
    let mut reused: Vec<String> = Vec::new();
    let mut edge_filter: Option<String> = None;

    // --- the source itself, through the iteration API
    let src = guard("iter_nodes/iter_edges", || dump_db(&db))?;
    if let CopyVerdict::LacksLate = judge_copy("source-iteration", &full, &early, late, &src)? {
        lacks_late.push("iter_nodes/iter_edges of the source".into());
    }

    // --- export: twice, byte-identical, and readable by the independent format reader
    let bytes = match guard("export_snapshot", || db.export_snapshot())? {
        Ok(b) => b,
        Err(e) => return fail("c07/export/error", format!("export_snapshot failed: {e}")),
    };
    let bytes2 = match guard("export_snapshot", || db.export_snapshot())? {
        Ok(b) => b,
        Err(e) => return fail("c07/export/error", format!("second export_snapshot failed: {e}")),
    };
    if bytes != bytes2 {
        return fail("c07/export/nondeterministic", format!("two consecutive exports differ ({} vs {} bytes)", bytes.len(), bytes2.len()));
    }
    match snapfmt::parse(&bytes) {
        Ok(p) => {
            if p.version != 1 || p.consumed != bytes.len() {
                return fail("c07/export/format", format!("version {} consumed {} of {}", p.version, p.consumed, bytes.len()));
            }
            let d = parsed_dump(&p);
            if let Some((kind, text)) = diff(&src, &d) {
                return fail(format!("c07/export/bytes-{kind}"), format!("the exported bytes do not describe the enumerated graph: {text}"));
            }
        }
        Err((e, _)) => return fail("c07/export/format", format!("independent reader rejects the export: {e:?}")),
    }

    let answers: Option<Vec<(String, Answer)>> =
        if late == 0 { Some(battery(&case.queries).into_iter().map(|q| (q.clone(), ask(&db, &q))).collect()) } else { None };

    // --- the copies
    let mut copies: Vec<(&'static str, GrafeoDB)> = Vec::new();
    match guard("import_snapshot", || GrafeoDB::import_snapshot(&bytes))? {
        Ok(c) => copies.push(("export_import", c)),
        Err(e) => return fail("c07/export_import/rejects-own-export", format!("import_snapshot(export_snapshot()) failed: {e}")),
    }
    match guard("to_memory", || db.to_memory())? {
        Ok(c) => copies.push(("to_memory", c)),
        Err(e) => return fail("c07/to_memory/error", format!("to_memory failed: {e}")),
    }
    if files {
        let dir = scratch.as_ref().unwrap().path().join("saved");
        if let Err(e) = guard("save", || db.save(&dir))? {
            return fail("c07/save/error", format!("save failed: {e}"));
        }
        match guard("open_in_memory", || GrafeoDB::open_in_memory(&dir))? {
            Ok(c) => copies.push(("open_in_memory", c)),
            Err(e) => return fail("c07/open_in_memory/error", format!("open_in_memory(saved) failed: {e}")),
        }
        match guard("open", || GrafeoDB::open(&dir))? {
            Ok(c) => copies.push(("save_open", c)),
            Err(e) => return fail("c07/save_open/error", format!("open(saved) failed: {e}")),
        }
    }

    let mut copy_dumps = Vec::new();
    for (op, c) in &copies {
        let d = guard("dump copy", || dump_db(c))?;
        if let CopyVerdict::LacksLate = judge_copy(op, &full, &early, late, &d)? {
            lacks_late.push((*op).to_string());
        }
        if let Some(ans) = &answers {
            for (q, a) in ans {
                let b = ask(c, q);
                if *a != b {
                    // Shape of the planner's zone-map pre-check of a filter (C10's findings: the per-key min/max is not
                    // narrowed when values are overwritten or deleted, skips incomparable types, ignores NULLs for `<>`,
                    // and the *node* map is consulted for *edge* predicates): the whole filter is pruned on one side
                    // only, depending on which values the key ever held — not on the graph.
                    let wholesale = matches!((a, &b), (Answer::Rows(x), Answer::Rows(y)) if x.is_empty() != y.is_empty());
                    if q.contains(" WHERE ") && wholesale {
                        edge_filter.get_or_insert(format!("{op}: `{q}`: source {a:?}, copy {b:?}"));
                        continue;
                    }
                    return fail(format!("c07/{op}/query-differs"), format!("{op}: `{q}`: source {a:?}, copy {b:?}"));
                }
            }
        }
        copy_dumps.push(d);
    }

    // --- source unchanged by all of the above (enumeration and bytes)
    let src_after = guard("iter_nodes/iter_edges", || dump_db(&db))?;
    if let Some((kind, text)) = diff(&src, &src_after) {
        return fail(format!("c07/source-changed/{kind}"), format!("source differs after copying: {text}"));
    }

    if !lacks_late.is_empty() {
        return fail(
            SIG_LATE,
            format!(
                "{} entities created through a session after the first commit (transaction-manager epoch > store epoch 0) are absent, and nothing else differs, in: {}",
                late,
                lacks_late.join(", ")
            ),
        );
    }

    // --- the copies are independent and hand out fresh ids
    for ((op, c), d) in copies.iter().zip(&copy_dumps) {
        if let Some(t) = fresh_ids(op, c, d, &model)? {
            reused.push(t);
        }
    }
    let src_after = guard("iter_nodes/iter_edges", || dump_db(&db))?;
    if let Some((kind, text)) = diff(&src, &src_after) {
        return fail(format!("c07/source-changed/{kind}"), format!("source differs after mutating the copies: {text}"));
    }
    match guard("export_snapshot", || db.export_snapshot())? {
        Ok(b) if b == bytes => {}
        Ok(b) => {
            return fail("c07/export/nondeterministic", format!("export after reads and copies differs from the first export ({} vs {} bytes)", b.len(), bytes.len()));
        }
        Err(e) => return fail("c07/export/error", format!("third export_snapshot failed: {e}")),
    }
    for (_, c) in copies {
        let _ = guard("close copy", || c.close())?;
    }
    let _ = guard("close source", || db.close())?;

    if let Some(t) = edge_filter {
        return fail(SIG_FILTER_PRUNED, t);
    }
    if !reused.is_empty() {
        return fail(SIG_ID_REUSE, reused.join("; "));
    }

    let nontrivial = model.deleted_entities >= 1 && model.value_tags().len() >= 3;
    let mut class = String::from(if model.tx_committed > 0 || h.ops.iter().any(|o| matches!(o, hist::Op::Auto(_))) { "session" } else { "direct" });
    if model.deleted_entities > 0 {
        class.push_str("+deletes");
    }
    if model.dangling > 0 {
        class.push_str("+dangling");
    }
    if h.persistent {
        class.push_str("+wal-source");
    }
    ok(nontrivial, class, hash_dbg(&(format!("{full:?}"), files)))
}

fn parsed_dump(p: &snapfmt::Parsed) -> Dump {
    let mut d = Dump::default();
    for n in &p.nodes {
        let labels: BTreeSet<String> = n.labels.iter().cloned().collect();
        d.nodes.push(hist::DNode { id: n.id, labels: labels.into_iter().collect(), props: n.props.iter().cloned().collect() });
    }
    for e in &p.edges {
        d.edges.push(hist::DEdge { id: e.id, src: e.src, ty: e.ty.clone(), dst: e.dst, props: e.props.iter().cloned().collect() });
    }
    d.sort();
    d
}

// ------------------------------------------------------------------------------------------------
// Hostile bytes
// ------------------------------------------------------------------------------------------------

fn to_hex(b: &[u8]) -> String {
    const H: &[u8; 16] = b"0123456789abcdef";
    let mut s = String::with_capacity(b.len() * 2);
    for x in b {
        s.push(H[(x >> 4) as usize] as char);
        s.push(H[(x & 15) as usize] as char);
    }
    s
}

fn from_hex(s: &str) -> Vec<u8> {
    let b = s.as_bytes();
    let v = |c: u8| if c.is_ascii_digit() { c - b'0' } else { c - b'a' + 10 };
    b.chunks(2).filter(|c| c.len() == 2).map(|c| (v(c[0]) << 4) | v(c[1])).collect()
}

/// Child-process side: `IMPORT <hex>` → `ERR <msg>` | `OK\t<json problems>\t<json dump>` (a panic is reported by the worker loop).
pub fn worker(request: &str) -> String {
    // No backtraces in the child: with RUST_BACKTRACE set in the environment every abort (allocation failure, stack
    // overflow) would first symbolise a backtrace into the discarded stderr. The child is single-threaded here.
    static QUIET: std::sync::Once = std::sync::Once::new();
    QUIET.call_once(|| {
        // SAFETY: the worker process has exactly one thread (the request loop) when this runs.
        unsafe { std::env::set_var("RUST_BACKTRACE", "0") };
    });
    let Some(hex) = request.strip_prefix("IMPORT ") else {
        return "ERR bad request".to_string();
    };
    if !hex.trim().bytes().all(|c| c.is_ascii_digit() || (b'a'..=b'f').contains(&c)) {
        return "ERR bad request".to_string();
    }
    let bytes = from_hex(hex.trim());
    match GrafeoDB::import_snapshot(&bytes) {
        Err(e) => format!("ERR {}", esc(&e.to_string())),
        Ok(db) => {
            let dump = dump_db(&db);
            let problems = consistency_problems(&db, &dump, hash_of(&bytes) % 4 == 0);
            // problems and dump travel separately: a dump nested deeper than the JSON reader's recursion limit is only
            // parsed by the parent when it has an expectation to compare it with
            format!(
                "OK\t{}\t{}",
                serde_json::to_string(&problems).unwrap_or_else(|_| "[\"json: problems do not serialise\"]".into()),
                serde_json::to_string(&dump).unwrap_or_else(|_| "null".into())
            )
        }
    }
}

/// Internal-consistency conditions of a freshly imported database (index and adjacency views agree with
/// the enumerated graph; its own export re-imports to the same graph; the next ids are unused).
fn consistency_problems(db: &GrafeoDB, dump: &Dump, reimport: bool) -> Vec<String> {
    let mut out = Vec::new();
    let store = db.store();
    if db.node_count() != dump.nodes.len() {
        out.push(format!("count: node_count {} but {} nodes enumerated", db.node_count(), dump.nodes.len()));
    }
    if db.edge_count() != dump.edges.len() {
        out.push(format!("count: edge_count {} but {} edges enumerated", db.edge_count(), dump.edges.len()));
    }
    let mut ids = BTreeSet::new();
    for n in &dump.nodes {
        if !ids.insert(n.id) {
            out.push(format!("duplicate: node {} enumerated twice", n.id));
        }
    }
    let mut eids = BTreeSet::new();
    for e in &dump.edges {
        if !eids.insert(e.id) {
            out.push(format!("duplicate: edge {} enumerated twice", e.id));
        }
    }
    // label index
    let mut by_label: BTreeMap<String, Vec<u64>> = BTreeMap::new();
    for l in store.all_labels() {
        by_label.entry(l).or_default();
    }
    for n in &dump.nodes {
        for l in &n.labels {
            by_label.entry(l.clone()).or_default().push(n.id);
        }
    }
    for (l, mut want) in by_label {
        want.sort_unstable();
        want.dedup();
        let got: Vec<u64> = store.nodes_by_label(&l).into_iter().map(|i| i.as_u64()).collect();
        if got != want {
            out.push(format!("label-index: label {l:?} index lists {got:?}, enumeration has {want:?}"));
        }
    }
    // adjacency
    let mut touched: BTreeSet<u64> = dump.nodes.iter().map(|n| n.id).collect();
    for e in &dump.edges {
        touched.insert(e.src);
        touched.insert(e.dst);
    }
    for n in &touched {
        let mut want_out: Vec<(u64, u64)> = dump.edges.iter().filter(|e| e.src == *n).map(|e| (e.dst, e.id)).collect();
        let mut got_out: Vec<(u64, u64)> = store.edges_from(NodeId::new(*n), Direction::Outgoing).map(|(d, e)| (d.as_u64(), e.as_u64())).collect();
        want_out.sort_unstable();
        got_out.sort_unstable();
        if want_out != got_out {
            out.push(format!("adjacency: outgoing of node {n}: index {got_out:?}, enumeration {want_out:?}"));
        }
        let mut want_in: Vec<(u64, u64)> = dump.edges.iter().filter(|e| e.dst == *n).map(|e| (e.src, e.id)).collect();
        let mut got_in: Vec<(u64, u64)> = store.edges_to(NodeId::new(*n)).into_iter().map(|(s, e)| (s.as_u64(), e.as_u64())).collect();
        want_in.sort_unstable();
        got_in.sort_unstable();
        if want_in != got_in {
            out.push(format!("adjacency: incoming of node {n}: index {got_in:?}, enumeration {want_in:?}"));
        }
    }
    for n in &dump.nodes {
        if db.get_node(NodeId::new(n.id)).is_none() {
            out.push(format!("lookup: enumerated node {} not found by get_node", n.id));
        }
    }
    for e in &dump.edges {
        if db.get_edge(EdgeId::new(e.id)).is_none() {
            out.push(format!("lookup: enumerated edge {} not found by get_edge", e.id));
        }
    }
    // its own export describes the same graph (independent reader: always; real re-import: for a fixed quarter of
    // the inputs, chosen by a hash of the bytes — creating a database costs milliseconds)
    match db.export_snapshot() {
        Ok(b) => {
            match snapfmt::parse(&b) {
                Ok(p) if p.version == 1 && p.consumed == b.len() => {
                    if let Some((kind, text)) = diff(dump, &parsed_dump(&p)) {
                        out.push(format!("reexport-bytes-{kind}: {text}"));
                    }
                }
                Ok(p) => out.push(format!("reexport-format: version {} consumed {} of {}", p.version, p.consumed, b.len())),
                Err((PErr::TooDeep, _)) => {} // nested beyond what the reader follows: no verdict
                Err((e, _)) => out.push(format!("reexport-format: {e:?}")),
            }
            if reimport {
                match GrafeoDB::import_snapshot(&b) {
                    Ok(db2) => {
                        let d2 = dump_db(&db2);
                        if let Some((kind, text)) = diff(dump, &d2) {
                            out.push(format!("reexport-{kind}: {text}"));
                        }
                    }
                    Err(e) => out.push(format!("reexport-rejected: {e}")),
                }
            }
        }
        Err(e) => out.push(format!("reexport-error: {e}")),
    }
    // next ids
    // (an id that only a dangling edge endpoint mentions is not "used": dangling edges are reachable states and the
    // counters are derived from the entities — see the id-reuse finding of the copy sub-checks)
    let n = db.create_node(&[]).as_u64();
    if ids.contains(&n) {
        out.push(format!("next-node-id: {n} is already a node of the imported graph"));
    }
    let e = db.create_edge(NodeId::new(n), NodeId::new(n), "R").as_u64();
    if eids.contains(&e) {
        out.push(format!("next-edge-id: {e} is already used by the imported graph"));
    }
    out
}

/// What the independent reader expects `import_snapshot` to do with a byte string.
enum Expect {
    /// not a snapshot: (reason for the signature, detail)
    MustErr(&'static str, String),
    /// a snapshot of exactly this graph; `lenient`: an error is acceptable as well (the bytes are readable
    /// but nothing `export_snapshot` can produce: trailing bytes, repeated labels / keys, the reserved id)
    Graph { dump: Dump, lenient: bool },
    /// nesting deeper than the reader follows: only "no crash, consistent result" is demanded
    Unknown,
}

fn expectation(bytes: &[u8]) -> (Expect, Option<u64>) {
    match snapfmt::parse(bytes) {
        // (u64::MAX in the second slot marks "nested at least 1000 levels deep")
        Err((PErr::TooDeep, _)) => (Expect::Unknown, Some(u64::MAX)),
        Ok(p) if p.max_depth > COMPARABLE_DEPTH && p.version == 1 => (Expect::Unknown, None),
        Err((PErr::HugeByteLen(n), _)) => (Expect::MustErr("string-length-beyond-input", format!("string length {n} exceeds the input")), Some(n)),
        Err((e, _)) => {
            let kind = match e {
                PErr::Eof => "truncated",
                PErr::BadVarint(_) => "bad-integer-marker",
                PErr::BadBool(_) => "bad-bool",
                PErr::BadVariant(_) => "bad-value-discriminant",
                PErr::Utf8 => "bad-utf8",
                _ => "other",
            };
            (Expect::MustErr(kind, format!("{e:?}")), None)
        }
        Ok(p) => {
            if p.version != 1 {
                return (Expect::MustErr("version", format!("version byte {}", p.version)), None);
            }
            let mut seen = BTreeSet::new();
            for n in &p.nodes {
                if !seen.insert(n.id) {
                    return (Expect::MustErr("duplicate-node-id", format!("node id {} occurs twice", n.id)), None);
                }
            }
            let mut seen = BTreeSet::new();
            for e in &p.edges {
                if !seen.insert(e.id) {
                    return (Expect::MustErr("duplicate-edge-id", format!("edge id {} occurs twice", e.id)), None);
                }
            }
            let mut lenient = p.consumed != bytes.len();
            for n in &p.nodes {
                let ls: BTreeSet<&String> = n.labels.iter().collect();
                let ks: BTreeSet<&String> = n.props.iter().map(|(k, _)| k).collect();
                lenient |= ls.len() != n.labels.len() || ks.len() != n.props.len() || n.id == u64::MAX;
            }
            for e in &p.edges {
                let ks: BTreeSet<&String> = e.props.iter().map(|(k, _)| k).collect();
                lenient |= ks.len() != e.props.len() || e.id == u64::MAX || e.src == u64::MAX || e.dst == u64::MAX;
            }
            (Expect::Graph { dump: parsed_dump(&p), lenient }, None)
        }
    }
}

const SIG_ALLOC_ABORT: &str = "c07/hostile/abort-allocating-declared-string-length";
const SIG_ALLOC_PANIC: &str = "c07/hostile/capacity-overflow-on-declared-string-length";
const SIG_DEEP: &str = "c07/hostile/stack-overflow-on-deeply-nested-value";

/// Offers `bytes` to `import_snapshot` in a child process and judges the outcome. Returns a class label.
fn judge_hostile(pool: &WorkerPool, bytes: &[u8]) -> Result<&'static str, Failure> {
    let (expect, huge_len) = expectation(bytes);
    let req = format!("IMPORT {}", to_hex(bytes));
    let mut reply = pool.call(&req, Duration::from_secs(20));
    if reply == Reply::Timeout {
        reply = pool.call(&req, Duration::from_secs(60));
    }
    if reply == Reply::Timeout {
        // a last, very generous attempt, so that a starved machine is not mistaken for a hang
        reply = pool.call(&req, Duration::from_secs(240));
        if reply == Reply::Timeout {
            return fail("c07/hostile/hang", format!("import_snapshot did not return within 20 s, 60 s and 240 s (fresh process each time) on {} bytes: {}", bytes.len(), to_hex(bytes)));
        }
    }
    let line = match reply {
        Reply::Line(l) => l,
        Reply::Timeout => unreachable!(),
        Reply::Died(status) => {
            // Narrow classification: a string length prefix far beyond the input, which the decoder allocates
            // before looking at the input, under the child's 8 GiB address-space limit.
            if matches!(expect, Expect::Unknown) && huge_len == Some(u64::MAX) {
                return fail(
                    SIG_DEEP,
                    format!("process died ({status}) importing {} bytes whose single property value is nested >= 1000 containers deep: {}…", bytes.len(), to_hex(&bytes[..bytes.len().min(40)])),
                );
            }
            if let Some(n) = huge_len
                && n >= (1u64 << 32)
                && n <= isize::MAX as u64
            {
                return fail(SIG_ALLOC_ABORT, format!("process died ({status}) importing {} bytes declaring a string of {n} bytes: {}", bytes.len(), to_hex(bytes)));
            }
            return fail("c07/hostile/process-died", format!("process died ({status}) importing {} bytes: {}", bytes.len(), to_hex(bytes)));
        }
    };
    if let Some(p) = line.strip_prefix("PANIC ") {
        let p = unesc(p);
        let (sig, msg) = p.split_once('\t').unwrap_or((p.as_str(), ""));
        if let Some(n) = huge_len
            && n > isize::MAX as u64
            && msg.contains("capacity overflow")
        {
            return fail(SIG_ALLOC_PANIC, format!("panic `{msg}` importing {} bytes declaring a string of {n} bytes: {}", bytes.len(), to_hex(bytes)));
        }
        return fail(sig.to_string(), format!("import_snapshot panicked: {msg}; input {}", to_hex(bytes)));
    }
    if let Some(msg) = line.strip_prefix("ERR ") {
        return match expect {
            Expect::Graph { lenient: false, dump } => fail(
                "c07/hostile/rejected-valid-snapshot",
                format!("import_snapshot rejected ({}) bytes that are a snapshot of {dump:?}: {}", unesc(msg), to_hex(bytes)),
            ),
            Expect::Graph { .. } => Ok("rejected-odd"),
            Expect::MustErr(kind, _) => Ok(match kind {
                "truncated" => "rejected-truncated",
                "string-length-beyond-input" => "rejected-length",
                _ => "rejected-malformed",
            }),
            Expect::Unknown => Ok("rejected-deep"),
        };
    }
    let mut parts = line.splitn(3, '\t');
    let (Some("OK"), Some(problems_json), Some(dump_json)) = (parts.next(), parts.next(), parts.next()) else {
        return fail("c07/harness/worker-protocol", format!("unexpected worker reply `{}`", crate::driver::truncate(&line, 200)));
    };
    let problems: Vec<String> = match serde_json::from_str(problems_json) {
        Ok(w) => w,
        Err(e) => return fail("c07/harness/worker-protocol", format!("worker reply does not parse: {e}")),
    };
    if let Some(p) = problems.first() {
        let kind = p.split(':').next().unwrap_or("other");
        return fail(
            format!("c07/hostile/inconsistent-database/{kind}"),
            format!("import_snapshot returned Ok with an inconsistent database: {}; input {}", problems.join(" | "), to_hex(bytes)),
        );
    }
    if matches!(expect, Expect::Unknown) {
        return Ok("accepted-deep");
    }
    let got: Dump = match serde_json::from_str(dump_json) {
        Ok(w) => w,
        Err(e) => return fail("c07/harness/worker-protocol", format!("worker dump does not parse: {e}")),
    };
    match expect {
        Expect::MustErr(kind, detail) => fail(
            format!("c07/hostile/accepted-invalid/{kind}"),
            format!("import_snapshot accepted bytes that are not a snapshot ({detail}) and built {got:?}; input {}", to_hex(bytes)),
        ),
        Expect::Graph { dump, lenient } => {
            if let Some((kind, text)) = diff(&dump, &got) {
                return fail(format!("c07/hostile/imported-graph-differs/{kind}"), format!("bytes describe a different graph than the one imported: {text}; input {}", to_hex(bytes)));
            }
            Ok(if lenient { "accepted-odd" } else { "accepted-valid" })
        }
        Expect::Unknown => Ok("accepted-deep"),
    }
}

/// JSON nesting the parent can read back: a value nested deeper than this is judged without comparing dumps.
const COMPARABLE_DEPTH: u32 = 40;

/// Valid snapshot bytes of a small history (built in-process: valid inputs cannot hurt).
fn base_bytes(h: &Hist) -> Result<Vec<u8>, Failure> {
    let (db, _m) = guard("build", || hist::build(h, None))??;
    match guard("export_snapshot", || db.export_snapshot())? {
        Ok(b) => Ok(b),
        Err(e) => fail("c07/export/error", format!("export_snapshot failed: {e}")),
    }
}

#[derive(Clone, Debug, Serialize, Deserialize)]
pub struct ExhCase {
    pub base: Hist,
    /// first byte position: the 8 single-bit flips of the byte, and the truncation to this many bytes
    pub pos: u32,
    /// number of consecutive positions covered by this case (1 in the quick tier)
    #[serde(default = "one")]
    pub span: u32,
}

fn one() -> u32 {
    1
}

/// Memo of `base_bytes` (a pure function of the history) for the enumerated sub-check, which visits every byte
/// position of the same few bases.
type BaseMemo = std::sync::Mutex<BTreeMap<u64, Vec<u8>>>;

fn check_exhaustive(pool: &WorkerPool, memo: &BaseMemo, c: &ExhCase) -> CaseResult {
    let key = hash_dbg(&c.base);
    let cached = memo.lock().unwrap().get(&key).cloned();
    let bytes = match cached {
        Some(b) => b,
        None => {
            let b = base_bytes(&c.base)?;
            memo.lock().unwrap().insert(key, b.clone());
            b
        }
    };
    if c.pos as usize >= bytes.len() {
        return ok(false, "beyond-end", hash_of(&(c.pos, &bytes)));
    }
    let mut failures: Vec<Failure> = Vec::new();
    let mut accepted = 0;
    let mut flips = 0;
    for pos in (c.pos as usize)..((c.pos + c.span.max(1)) as usize).min(bytes.len()) {
        match judge_hostile(pool, &bytes[..pos]) {
            Ok(_) => {}
            Err(f) => failures.push(f),
        }
        for bit in 0..8 {
            let mut b = bytes.clone();
            b[pos] ^= 1 << bit;
            flips += 1;
            match judge_hostile(pool, &b) {
                Ok(cl) => accepted += usize::from(cl.starts_with("accepted")),
                Err(f) => failures.push(f),
            }
        }
    }
    if !failures.is_empty() {
        // a failure of a kind not already singled out goes first
        let narrow = [SIG_ALLOC_ABORT, SIG_ALLOC_PANIC, SIG_DEEP];
        let f = failures.iter().find(|f| !narrow.contains(&f.signature.as_str())).unwrap_or(&failures[0]);
        return Err(f.clone());
    }
    ok(true, if accepted == 0 { "all-rejected" } else if accepted == flips { "flips-all-readable" } else { "mixed" }, hash_of(&(c.pos, c.span, &bytes)))
}

#[derive(Clone, Debug, Serialize, Deserialize)]
pub enum FieldVal {
    Zero,
    Plus(i8),
    /// overwrite only the first byte of the field with a marker byte (251..=255)
    Marker(u8),
    Exact(u64),
    /// a value ≥ 2^32 and ≤ isize::MAX
    Big(u32),
    /// a value > isize::MAX
    Huge(u32),
    Max,
    /// the value of another field of the same kind
    CopyOf(u16),
    /// same value, wider (non-minimal) encoding
    Widen(u8),
}

#[derive(Clone, Debug, Serialize, Deserialize)]
pub enum Mutation {
    Truncate { at: u16 },
    Flips { bits: Vec<u32> },
    SetField { kind: u8, field: u16, val: FieldVal },
    Splice { cut_a: u16, cut_b: u16 },
    Overwrite { at: u16, bytes: Vec<u8> },
    Insert { at: u16, bytes: Vec<u8> },
    Append { bytes: Vec<u8> },
    Random { bytes: Vec<u8>, header: bool },
    DeepNest { depth: u32, map: bool },
    Identity,
}

#[derive(Clone, Debug, Serialize, Deserialize)]
pub struct GenCase {
    pub base: Hist,
    pub other: Hist,
    pub m: Mutation,
}

fn field_val() -> impl Strategy<Value = FieldVal> {
    prop_oneof![
        1 => Just(FieldVal::Zero),
        5 => prop_oneof![Just(1i8), Just(-1), Just(2), Just(7), Just(-3)].prop_map(FieldVal::Plus),
        3 => (251u8..=255).prop_map(FieldVal::Marker),
        2 => prop_oneof![Just(250u64), Just(251), Just(255), Just(256), Just(65535), Just(65536), Just(1u64 << 20), Just(u64::from(u32::MAX)), Just(1u64 << 31)].prop_map(FieldVal::Exact),
        // (rare: on a string length these two reproduce the open allocation finding, and a dead worker costs a respawn)
        1 => any::<u32>().prop_map(FieldVal::Big),
        1 => any::<u32>().prop_map(FieldVal::Huge),
        1 => Just(FieldVal::Max),
        3 => any::<u16>().prop_map(FieldVal::CopyOf),
        1 => prop_oneof![Just(3u8), Just(5), Just(9)].prop_map(FieldVal::Widen),
    ]
}

fn mutation() -> impl Strategy<Value = Mutation> {
    prop_oneof![
        2 => any::<u16>().prop_map(|at| Mutation::Truncate { at }),
        4 => proptest::collection::vec(any::<u32>(), 1..9).prop_map(|bits| Mutation::Flips { bits }),
        8 => (0u8..6, any::<u16>(), field_val()).prop_map(|(kind, field, val)| Mutation::SetField { kind, field, val }),
        3 => (any::<u16>(), any::<u16>()).prop_map(|(cut_a, cut_b)| Mutation::Splice { cut_a, cut_b }),
        2 => (any::<u16>(), proptest::collection::vec(any::<u8>(), 1..12)).prop_map(|(at, bytes)| Mutation::Overwrite { at, bytes }),
        1 => (any::<u16>(), proptest::collection::vec(any::<u8>(), 1..12)).prop_map(|(at, bytes)| Mutation::Insert { at, bytes }),
        1 => proptest::collection::vec(any::<u8>(), 1..12).prop_map(|bytes| Mutation::Append { bytes }),
        2 => (proptest::collection::vec(any::<u8>(), 0..200), any::<bool>()).prop_map(|(bytes, header)| Mutation::Random { bytes, header }),
        // (depths that overflow the decoder's stack — the open deep-nesting finding — are kept rare)
        1 => (prop_oneof![4 => Just(5u32), 4 => Just(39), 4 => Just(100), 4 => Just(500), 4 => Just(3000), 1 => Just(20_000), 1 => Just(150_000)], any::<bool>())
            .prop_map(|(depth, map)| Mutation::DeepNest { depth, map }),
        1 => Just(Mutation::Identity),
    ]
}

fn apply_mutation(c: &GenCase, base: &[u8]) -> Result<(Vec<u8>, &'static str), Failure> {
    let mut b = base.to_vec();
    let class = match &c.m {
        Mutation::Truncate { at } => {
            b.truncate(pick(*at, base.len()));
            "truncate"
        }
        Mutation::Flips { bits } => {
            for x in bits {
                let i = (*x as usize) % (base.len() * 8);
                b[i / 8] ^= 1 << (i % 8);
            }
            "flips"
        }
        Mutation::SetField { kind, field, val } => {
            let p = match snapfmt::parse(base) {
                Ok(p) => p,
                Err((e, _)) => return fail("c07/export/format", format!("independent reader rejects a valid export: {e:?}")),
            };
            let want = [FieldKind::SeqLen, FieldKind::StrLen, FieldKind::NodeId, FieldKind::EdgeId, FieldKind::Endpoint, FieldKind::Variant][*kind as usize % 6];
            let fields: Vec<&snapfmt::Field> = p.fields.iter().filter(|f| f.kind == want).collect();
            if fields.is_empty() {
                return Ok((b, "identity"));
            }
            let f = fields[pick(*field, fields.len())];
            let mut enc = Vec::new();
            match val {
                FieldVal::Zero => snapfmt::enc_varint(0, &mut enc),
                FieldVal::Plus(d) => snapfmt::enc_varint(f.value.wrapping_add(*d as i64 as u64), &mut enc),
                FieldVal::Marker(m) => {
                    enc.extend_from_slice(&base[f.off..f.off + f.width]);
                    enc[0] = *m;
                }
                FieldVal::Exact(v) => snapfmt::enc_varint(*v, &mut enc),
                FieldVal::Big(x) => snapfmt::enc_varint((1u64 << 32) + (u64::from(*x) << 20), &mut enc),
                FieldVal::Huge(x) => snapfmt::enc_varint((1u64 << 63) | u64::from(*x), &mut enc),
                FieldVal::Max => snapfmt::enc_varint(u64::MAX, &mut enc),
                FieldVal::CopyOf(o) => snapfmt::enc_varint(fields[pick(*o, fields.len())].value, &mut enc),
                FieldVal::Widen(w) => snapfmt::enc_varint_width(f.value, *w as usize, &mut enc),
            }
            b.splice(f.off..f.off + f.width, enc);
            match want {
                FieldKind::SeqLen => "field-seq-len",
                FieldKind::StrLen => "field-str-len",
                FieldKind::NodeId => "field-node-id",
                FieldKind::EdgeId => "field-edge-id",
                FieldKind::Endpoint => "field-endpoint",
                FieldKind::Variant => "field-discriminant",
            }
        }
        Mutation::Splice { cut_a, cut_b } => {
            let other = base_bytes(&c.other)?;
            b.truncate(pick(*cut_a, base.len() + 1));
            b.extend_from_slice(&other[pick(*cut_b, other.len() + 1)..]);
            "splice"
        }
        Mutation::Overwrite { at, bytes } => {
            let at = pick(*at, base.len());
            for (i, x) in bytes.iter().enumerate() {
                if at + i < b.len() {
                    b[at + i] = *x;
                }
            }
            "overwrite"
        }
        Mutation::Insert { at, bytes } => {
            let at = pick(*at, base.len() + 1);
            b.splice(at..at, bytes.iter().copied());
            "insert"
        }
        Mutation::Append { bytes } => {
            b.extend_from_slice(bytes);
            "append"
        }
        Mutation::Random { bytes, header } => {
            b.clear();
            if *header {
                b.extend_from_slice(&[1, 1, 0, 0]); // version 1, one node, id 0, no labels; then noise as its property list
            }
            b.extend_from_slice(bytes);
            "random"
        }
        Mutation::DeepNest { depth, map } => {
            // version 1, one node (id 0, no labels, one property "p" = a value nested `depth` levels), no edges
            b.clear();
            b.extend_from_slice(&[1, 1, 0, 0, 1, 1, b'p']);
            for _ in 0..*depth {
                if *map {
                    b.extend_from_slice(&[8, 1, 1, b'k']);
                } else {
                    b.extend_from_slice(&[7, 1]);
                }
            }
            b.push(0); // Null
            b.push(0); // no edges
            "deep-nest"
        }
        Mutation::Identity => "identity",
    };
    Ok((b, class))
}

fn check_gen(pool: &WorkerPool, c: &GenCase) -> CaseResult {
    let base = base_bytes(&c.base)?;
    let (bytes, mclass) = apply_mutation(c, &base)?;
    let outcome = judge_hostile(pool, &bytes)?;
    let close = bytes.len() == base.len() && bytes.iter().zip(&base).map(|(a, b)| (a ^ b).count_ones()).sum::<u32>() <= 8 && bytes != base;
    let prefix = bytes.len() < base.len() && base.starts_with(&bytes);
    ok(close || prefix, format!("{mclass}:{outcome}"), hash_of(&bytes))
}

// ------------------------------------------------------------------------------------------------
// run
// ------------------------------------------------------------------------------------------------

/// One byte string taken from a file (a libFuzzer seed / corpus entry / artifact).
#[derive(Clone, Debug, Serialize, Deserialize)]
pub struct RawCase {
    pub hex: String,
    #[serde(default)]
    pub origin: String,
}

fn check_raw(pool: &WorkerPool, c: &RawCase) -> CaseResult {
    let bytes = from_hex(&c.hex);
    let outcome = judge_hostile(pool, &bytes)?;
    // non-trivial: the bytes got past the header, i.e. the reader met at least one entity or the engine accepted them
    let deep = matches!(snapfmt::parse(&bytes), Ok(ref p) if !p.nodes.is_empty()) || outcome.starts_with("accepted");
    ok(deep, format!("{}:{outcome}", c.origin), hash_of(&bytes))
}

/// Files of the committed libFuzzer seed corpus (`fuzz/seeds/fuzz_snapshot/`) and, when `VERIF_FUZZ_CORPUS_C07` names
/// directories (colon-separated; set by `check_c07_thorough.sh` to the corpus and artifact directories a campaign
/// left behind), every file in them. Sorted by name so the enumeration is deterministic. Files above 64 KiB are
/// skipped (the campaign runs with `-max_len=4096`).
fn corpus_items() -> Vec<RawCase> {
    let mut dirs: Vec<(std::path::PathBuf, &'static str)> = vec![(crate::driver::verif_root().join("fuzz/seeds/fuzz_snapshot"), "seed")];
    if let Ok(v) = std::env::var("VERIF_FUZZ_CORPUS_C07") {
        for d in v.split(':').filter(|d| !d.is_empty()) {
            dirs.push((std::path::PathBuf::from(d), "campaign"));
        }
    }
    let mut out = Vec::new();
    let mut seen = BTreeSet::new();
    for (d, origin) in dirs {
        let Ok(rd) = std::fs::read_dir(&d) else { continue };
        let mut files: Vec<_> = rd.filter_map(|e| e.ok()).map(|e| e.path()).filter(|p| p.is_file()).collect();
        files.sort();
        for f in files {
            if let Ok(b) = std::fs::read(&f)
                && b.len() <= 65536
                && seen.insert(b.clone())
            {
                out.push(RawCase { hex: to_hex(&b), origin: origin.to_string() });
            }
        }
    }
    out
}

fn sample_bases(seed: u64, n: usize) -> Vec<Hist> {
    let mut runner = TestRunner::new(Config { rng_seed: RngSeed::Fixed(seed), failure_persistence: None, ..Config::default() });
    let strat = hist::small_hist_strategy();
    let mut out = Vec::new();
    for _ in 0..n {
        if let Ok(t) = strat.new_tree(&mut runner) {
            out.push(t.current());
        }
    }
    // fixed boundary bases: string lengths one bit away from the 8-byte-length marker (253), ASCII and non-ASCII
    for s in ["x".repeat(125), format!("{}x", "é".repeat(62)), "y".repeat(189)] {
        out.push(Hist {
            ops: vec![
                hist::Op::CreateNode { labels: vec![0], props: vec![(2, V::Str(s))], one_call: true },
                hist::Op::CreateEdge { s: 0, d: 0, ty: 0, props: vec![(3, V::Int(1))], shape: 1, one_call: true },
            ],
            cap: false,
            persistent: false,
        });
    }
    out
}

pub fn run(r: &mut Run) {
    r.level = "exploration";
    r.rule = "copies: graphs reached by generated mutation histories over the direct API (create/delete node and edge, \
              set/remove property with every Value variant incl. NaN payloads, ±0, ±inf, subnormals, empty/non-ASCII/long strings, bytes, \
              timestamps, zero-length vectors, lists/maps nested to depth 4; add/remove label; self-loops, parallel edges, non-detaching \
              deletes), 40 % of them with 1-3 committed session transactions / auto-committed statements (GQL INSERT and the session API) \
              at generated positions; 70 % of histories end with a live largest id (the rest exercise the id-reuse finding), 15 % of the \
              file sub-check's sources are file-backed. Non-trivial = the history deleted >= 1 entity and the final graph holds >= 3 \
              value types; distinct by the final abstract graph. hostile: every truncation and single-bit flip of small valid snapshots \
              (exhaustive per base), plus generated mutilations; non-trivial = differs from a valid snapshot in <= 8 bits at equal length, \
              or is a strict prefix of one; distinct by the offered bytes."
        .into();
    r.assumptions.push("delete_node does not cascade (DESIGN §5.2 convention): dangling edges are reachable states and must round-trip".into());
    r.assumptions.push("direct-API operations address only entities visible at the store epoch (R1 makes later ones unaddressable)".into());
    r.assumptions.push("no rollbacks in the histories (rollback residue is C02's subject)".into());
    r.assumptions.push(
        "a readable byte string that export_snapshot cannot produce (trailing bytes, repeated label / key within an entity, the reserved id u64::MAX) may be rejected or imported with set / last-wins semantics; duplicate node or edge ids must be rejected".into(),
    );
    r.assumptions.push("hostile imports run in child processes limited to 8 GiB of address space (valid inputs of this size need < 100 MiB)".into());

    let max_ops = if r.is_thorough() { 60 } else { 28 };
    r.subcheck("copies_memory", r.cases(6000, 600_000), || copy_case_strategy(max_ops, false), |c: &CopyCase| check_copies(c, false));
    r.subcheck("copies_files", r.cases(400, 30_000), || copy_case_strategy(max_ops, true), |c: &CopyCase| check_copies(c, true));

    let pool = WorkerPool::new("c07", 8 << 30);
    let n_bases = if r.is_thorough() { 150 } else { 20 };
    let n_bases = r.cases(n_bases, n_bases) as usize;
    let mut items = Vec::new();
    for base in sample_bases(hash_of(&(r.seed, "c07-bases")), n_bases.min(if r.is_thorough() { 150 } else { 20 })) {
        let len = match base_bytes(&base) {
            Ok(b) => b.len(),
            Err(_) => 1,
        };
        if len > 4096 {
            continue;
        }
        let span = if r.is_thorough() { 8 } else { 1 };
        for pos in (0..len as u32).step_by(span as usize) {
            items.push(ExhCase { base: base.clone(), pos, span });
        }
    }
    // development aid: VERIF_C07_DUMP_SEEDS=<dir> writes the valid snapshots of the sampled bases as libFuzzer seeds
    if let Ok(dir) = std::env::var("VERIF_C07_DUMP_SEEDS") {
        let _ = std::fs::create_dir_all(&dir);
        for base in sample_bases(hash_of(&(r.seed, "c07-bases")), 40) {
            if let Ok(b) = base_bytes(&base)
                && b.len() <= 2048
            {
                let _ = std::fs::write(format!("{dir}/{:016x}", hash_of(&b)), &b);
            }
        }
    }
    let memo: BaseMemo = std::sync::Mutex::new(BTreeMap::new());
    r.enumerate("hostile_exhaustive", items, true, |c: &ExhCase| check_exhaustive(&pool, &memo, c));

    // byte strings found by coverage-guided search (libFuzzer target fuzz/fuzz_targets/fuzz_snapshot.rs) judged by the same oracle
    r.enumerate("hostile_corpus", corpus_items(), false, |c: &RawCase| check_raw(&pool, c));

    r.subcheck(
        "hostile_gen",
        r.cases(8000, 150_000),
        || (hist::small_hist_strategy(), hist::small_hist_strategy(), mutation()).prop_map(|(base, other, m)| GenCase { base, other, m }),
        |c: &GenCase| check_gen(&pool, c),
    );
}
