//! C01 — transactions read a stable snapshot (no dirty, fuzzy or phantom reads).
//!
//! Two layers (DESIGN.md §4 C01):
//!  * `sessions`: generated multi-session histories on one in-memory `GrafeoDB`, every read compared with a
//!    snapshot-isolation reference model (`World`). The pinned tree has deep, genuine MVCC defects (versions are
//!    stamped with the writer's *start* epoch; properties, labels and adjacency are single-version and written in
//!    place). Therefore every read computes a *conflict set* K — the entities whose write log contains a foreign
//!    write that one of the listed defects makes observable to this reader. A read is **strict** when K does not
//!    touch its footprint: it must equal the model exactly. Otherwise rows that mention an entity of K are removed
//!    from both sides; the remainder must still be equal, and the case is attributed to the known finding named by
//!    the class of the conflicting write.
//!  * `kernel`: `VersionChain` and the `LpgStore` versioned API driven with explicit (epoch, tx) pairs against the
//!    documented visibility predicate. Fully strict.
//!
//! The world/model is reused by C02.

use std::collections::{BTreeMap, BTreeSet};

use grafeo_common::mvcc::VersionChain;
use grafeo_common::types::{EdgeId, EpochId, NodeId, TxId, Value};
use grafeo_core::graph::lpg::LpgStore;
use grafeo_engine::transaction::IsolationLevel;
use grafeo_engine::{GrafeoDB, Session};
use proptest::prelude::*;
use serde::{Deserialize, Serialize};

use crate::driver::{CaseResult, Failure, Run, fail, guard, hash_dbg, ok, pick};

pub const LABELS: [&str; 3] = ["A", "B", "C"];
pub const KEYS: [&str; 2] = ["x", "y"];
pub const ETYPES: [&str; 2] = ["R", "S"];
pub const N_TRIPLES: u8 = 4;

// ------------------------------------------------------------------------------------------------
// Operations (plain data)
// ------------------------------------------------------------------------------------------------

#[derive(Clone, Debug, Serialize, Deserialize, PartialEq)]
pub enum Op {
    Begin { s: u8, ser: bool },
    Commit { s: u8 },
    Rollback { s: u8 },
    /// via: 0 direct API, 1 GQL INSERT, 2 Cypher CREATE
    CreateNode { s: u8, label: u8, x: u8, via: u8 },
    CreateEdge { s: u8, a: u16, b: u16, ty: u8 },
    SetProp { s: u8, n: u16, key: u8, val: u8 },
    RemoveProp { s: u8, n: u16, key: u8 },
    AddLabel { s: u8, n: u16, label: u8 },
    RemoveLabel { s: u8, n: u16, label: u8 },
    DeleteNode { s: u8, n: u16 },
    RdfInsert { s: u8, t: u8 },
    RdfDelete { s: u8, t: u8 },
    /// MERGE (n:L {x: v}) — only executed while no other transaction is open and nothing conflicts
    Merge { s: u8, label: u8, x: u8 },
    Read { s: u8, kind: u8, n: u16, arg: u8 },
    /// repeat the previous read of this session
    Repeat { s: u8 },
}

#[derive(Clone, Debug, Serialize, Deserialize)]
pub struct History {
    /// 0 free; 1 create-only transactions; 2 create-only + an epoch bump before every begin
    pub mode: u8,
    pub sessions: u8,
    pub ops: Vec<Op>,
    /// a property index on "x" exists from the start (equality filters then take the planner's index path)
    #[serde(default)]
    pub index_x: bool,
}

pub const N_READ_KINDS: u8 = 18;

fn op_strategy() -> impl Strategy<Value = Op> {
    let s = 0u8..4;
    prop_oneof![
        12 => (s.clone(), any::<bool>()).prop_map(|(s, ser)| Op::Begin { s, ser }),
        5 => s.clone().prop_map(|s| Op::Commit { s }),
        3 => s.clone().prop_map(|s| Op::Rollback { s }),
        10 => (s.clone(), 0u8..3, 0u8..4, 0u8..3).prop_map(|(s, label, x, via)| Op::CreateNode { s, label, x, via }),
        6 => (s.clone(), any::<u16>(), any::<u16>(), 0u8..2).prop_map(|(s, a, b, ty)| Op::CreateEdge { s, a, b, ty }),
        6 => (s.clone(), any::<u16>(), 0u8..2, 0u8..4).prop_map(|(s, n, key, val)| Op::SetProp { s, n, key, val }),
        2 => (s.clone(), any::<u16>(), 0u8..2).prop_map(|(s, n, key)| Op::RemoveProp { s, n, key }),
        3 => (s.clone(), any::<u16>(), 0u8..3).prop_map(|(s, n, label)| Op::AddLabel { s, n, label }),
        2 => (s.clone(), any::<u16>(), 0u8..3).prop_map(|(s, n, label)| Op::RemoveLabel { s, n, label }),
        3 => (s.clone(), any::<u16>()).prop_map(|(s, n)| Op::DeleteNode { s, n }),
        2 => (s.clone(), 0u8..N_TRIPLES).prop_map(|(s, t)| Op::RdfInsert { s, t }),
        1 => (s.clone(), 0u8..N_TRIPLES).prop_map(|(s, t)| Op::RdfDelete { s, t }),
        2 => (s.clone(), 0u8..3, 0u8..4).prop_map(|(s, label, x)| Op::Merge { s, label, x }),
        30 => (s.clone(), 0u8..N_READ_KINDS, any::<u16>(), 0u8..4).prop_map(|(s, kind, n, arg)| Op::Read { s, kind, n, arg }),
        8 => s.prop_map(|s| Op::Repeat { s }),
    ]
}

pub fn history_strategy(max_ops: usize) -> impl Strategy<Value = History> {
    // a populated starting graph (auto-commit creates by session 0), then the generated ops
    let setup = proptest::collection::vec(
        prop_oneof![
            3 => (0u8..3, 0u8..4, 0u8..3).prop_map(|(label, x, via)| Op::CreateNode { s: 0, label, x, via }),
            1 => (any::<u16>(), any::<u16>(), 0u8..2).prop_map(|(a, b, ty)| Op::CreateEdge { s: 0, a, b, ty }),
        ],
        0..7,
    );
    (prop_oneof![2 => Just(0u8), 2 => Just(1u8), 3 => Just(2u8)], 2u8..=4, setup, proptest::collection::vec(op_strategy(), 1..max_ops), any::<bool>())
        .prop_map(|(mode, sessions, mut setup, ops, index_x)| {
            setup.extend(ops);
            History { mode, sessions, ops: setup, index_x }
        })
}

// ------------------------------------------------------------------------------------------------
// Reference model
// ------------------------------------------------------------------------------------------------

#[derive(Clone, Debug, Default, PartialEq)]
pub struct NodeM {
    pub labels: BTreeSet<&'static str>,
    pub props: BTreeMap<&'static str, i64>,
}

#[derive(Clone, Debug, Default, PartialEq)]
pub struct State {
    pub nodes: BTreeMap<u64, NodeM>,
    pub edges: BTreeMap<u64, (u64, u64, &'static str)>,
    pub triples: BTreeSet<u8>,
}

#[derive(Clone, Debug)]
pub enum WOp {
    CreateNode { id: u64, label: &'static str, x: i64 },
    CreateEdge { id: u64, a: u64, b: u64, ty: &'static str },
    SetProp { n: u64, key: &'static str, val: i64 },
    RemoveProp { n: u64, key: &'static str },
    AddLabel { n: u64, label: &'static str },
    RemoveLabel { n: u64, label: &'static str },
    /// detach-delete: node and every incident edge
    DeleteNode { n: u64 },
    RdfIns(u8),
    RdfDel(u8),
}

impl State {
    pub fn apply(&mut self, w: &WOp) {
        match w {
            WOp::CreateNode { id, label, x } => {
                let mut n = NodeM::default();
                n.labels.insert(label);
                n.props.insert("x", *x);
                self.nodes.insert(*id, n);
            }
            WOp::CreateEdge { id, a, b, ty } => {
                self.edges.insert(*id, (*a, *b, ty));
            }
            WOp::SetProp { n, key, val } => {
                if let Some(nm) = self.nodes.get_mut(n) {
                    nm.props.insert(key, *val);
                }
            }
            WOp::RemoveProp { n, key } => {
                if let Some(nm) = self.nodes.get_mut(n) {
                    nm.props.remove(key);
                }
            }
            WOp::AddLabel { n, label } => {
                if let Some(nm) = self.nodes.get_mut(n) {
                    nm.labels.insert(label);
                }
            }
            WOp::RemoveLabel { n, label } => {
                if let Some(nm) = self.nodes.get_mut(n) {
                    nm.labels.remove(label);
                }
            }
            WOp::DeleteNode { n } => {
                if self.nodes.remove(n).is_some() {
                    self.edges.retain(|_, (a, b, _)| a != n && b != n);
                }
            }
            WOp::RdfIns(t) => {
                self.triples.insert(*t);
            }
            WOp::RdfDel(t) => {
                self.triples.remove(t);
            }
        }
    }
}

#[derive(Clone, Copy, Debug, PartialEq, Eq, PartialOrd, Ord)]
pub enum Ent {
    Node(u64),
    Edge(u64),
    Triple(u8),
}

#[derive(Clone, Copy, Debug, PartialEq, Eq)]
pub enum WKind {
    Create,
    Mutate,
    Delete,
}

#[derive(Clone, Copy, Debug, PartialEq, Eq)]
pub enum Writer {
    Tx(usize),
    /// auto-commit write applied at this manager epoch
    Auto { epoch: u64 },
}

#[derive(Clone, Copy, Debug)]
pub struct WLog {
    pub writer: Writer,
    pub kind: WKind,
    pub time: usize,
}

#[derive(Clone, Copy, Debug, PartialEq, Eq)]
pub enum TxStatus {
    Open,
    Committed(usize),
    RolledBack(usize),
}

pub struct TxM {
    pub view: State,
    pub writes: Vec<WOp>,
    pub start_epoch: u64,
    pub begin_time: usize,
    pub status: TxStatus,
}

/// One observed / expected answer: rows (each with the entities it mentions) or a scalar.
#[derive(Clone, Debug, PartialEq)]
pub struct Answer {
    pub rows: Vec<(Vec<Ent>, String)>,
    pub scalar: Option<i64>,
}

impl Answer {
    fn sorted(mut self) -> Self {
        self.rows.sort();
        self
    }
    fn without(&self, k: &BTreeMap<Ent, &'static str>) -> Vec<&String> {
        self.rows.iter().filter(|(e, _)| !e.iter().any(|x| k.contains_key(x))).map(|(_, s)| s).collect()
    }
}

pub struct World {
    pub db: GrafeoDB,
    pub sessions: Vec<Session>,
    pub cur_tx: Vec<Option<usize>>,
    pub last_read: Vec<Option<(u8, u16, u8)>>,
    pub txs: Vec<TxM>,
    pub committed: State,
    pub epoch: u64,
    pub time: usize,
    pub log: BTreeMap<Ent, Vec<WLog>>,
    pub taint: BTreeSet<Ent>,
    pub all_nodes: Vec<u64>,
    pub all_edges: Vec<(u64, u64, u64)>,
    pub mode: u8,
    // statistics of the case
    pub strict_reads: u32,
    pub strict_nontrivial: u32,
    pub tolerated_reads: u32,
    pub skipped: u32,
    pub concurrent_reads: u32,
}

/// The outcome of comparing one read.
pub enum ReadVerdict {
    Strict { nontrivial: bool },
    ConflictButEqual,
    Tolerated(&'static str),
}

impl World {
    pub fn new(sessions: u8, mode: u8) -> Self {
        let db = GrafeoDB::new_in_memory();
        let n = sessions.clamp(1, 4) as usize;
        let sess: Vec<Session> = (0..n).map(|_| db.session()).collect();
        World {
            db,
            sessions: sess,
            cur_tx: vec![None; n],
            last_read: vec![None; n],
            txs: Vec::new(),
            committed: State::default(),
            epoch: 0,
            time: 0,
            log: BTreeMap::new(),
            taint: BTreeSet::new(),
            all_nodes: Vec::new(),
            all_edges: Vec::new(),
            mode,
            strict_reads: 0,
            strict_nontrivial: 0,
            tolerated_reads: 0,
            skipped: 0,
            concurrent_reads: 0,
        }
    }

    fn sidx(&self, s: u8) -> usize {
        (s as usize) % self.sessions.len()
    }

    pub fn view(&self, si: usize) -> &State {
        match self.cur_tx[si] {
            Some(t) => &self.txs[t].view,
            None => &self.committed,
        }
    }

    fn any_open_tx(&self) -> bool {
        self.cur_tx.iter().any(Option::is_some)
    }

    fn writer(&self, si: usize) -> Writer {
        match self.cur_tx[si] {
            Some(t) => Writer::Tx(t),
            None => Writer::Auto { epoch: self.epoch },
        }
    }

    /// Records a write in the log; taints the entity when the write races with another writer's
    /// write on the same entity (the engine detects no write-write conflicts through sessions).
    fn log_write(&mut self, si: usize, e: Ent, kind: WKind) {
        let w = self.writer(si);
        let my_begin = match self.cur_tx[si] {
            Some(t) => Some(self.txs[t].begin_time),
            None => None,
        };
        if kind != WKind::Create {
            if let Some(entries) = self.log.get(&e) {
                for o in entries {
                    if o.writer == w {
                        continue;
                    }
                    let other_open = matches!(o.writer, Writer::Tx(t) if self.txs[t].status == TxStatus::Open);
                    let since_my_begin = my_begin.is_some_and(|b| o.time > b);
                    // a foreign transaction that finished after my snapshot was taken
                    let finished_after = match (o.writer, my_begin) {
                        (Writer::Tx(t), Some(b)) => match self.txs[t].status {
                            TxStatus::Committed(tc) | TxStatus::RolledBack(tc) => tc > b,
                            TxStatus::Open => true,
                        },
                        _ => false,
                    };
                    if other_open || since_my_begin || finished_after {
                        self.taint.insert(e);
                    }
                }
            }
        }
        self.log.entry(e).or_default().push(WLog { writer: w, kind, time: self.time });
    }

    fn apply_write(&mut self, si: usize, w: WOp) {
        match self.cur_tx[si] {
            Some(t) => {
                self.txs[t].view.apply(&w);
                self.txs[t].writes.push(w);
            }
            None => self.committed.apply(&w),
        }
    }

    /// Conflict set for a read by session `si` (see module docs).
    pub fn conflicts(&self, si: usize, versioned: bool) -> BTreeMap<Ent, &'static str> {
        let reader_tx = self.cur_tx[si];
        let (view_epoch, begin_time) = match reader_tx {
            Some(t) => (self.txs[t].start_epoch, Some(self.txs[t].begin_time)),
            None => (self.epoch, None),
        };
        let mut k: BTreeMap<Ent, &'static str> = BTreeMap::new();
        for e in &self.taint {
            k.insert(*e, "lost-update");
        }
        for (e, entries) in &self.log {
            if k.contains_key(e) {
                continue;
            }
            for w in entries {
                if let (Writer::Tx(t), Some(rt)) = (w.writer, reader_tx) {
                    if t == rt {
                        continue;
                    }
                }
                let is_triple = matches!(e, Ent::Triple(_));
                let class: Option<&'static str> = match w.writer {
                    Writer::Tx(t) => {
                        let tx = &self.txs[t];
                        let hidden_create = w.kind == WKind::Create && versioned && tx.start_epoch > view_epoch;
                        match tx.status {
                            TxStatus::Open => {
                                if is_triple || hidden_create {
                                    None // triples are buffered until commit; hidden creates are invisible
                                } else {
                                    Some("dirty")
                                }
                            }
                            TxStatus::RolledBack(_) => {
                                if is_triple {
                                    None
                                } else if w.kind == WKind::Create {
                                    // rollback removes created entities from every access path, adjacency included
                                    // (repo fix 8b51835); nothing of a rolled-back creation may be observable
                                    None
                                } else {
                                    Some("rollback-residue")
                                }
                            }
                            TxStatus::Committed(tc) => match begin_time {
                                Some(b) if b < tc => {
                                    if is_triple {
                                        Some("rdf-fuzzy")
                                    } else if hidden_create {
                                        None
                                    } else {
                                        Some("phantom")
                                    }
                                }
                                _ => None,
                            },
                        }
                    }
                    Writer::Auto { epoch } => match begin_time {
                        Some(b) if b < w.time => {
                            if is_triple {
                                Some("rdf-fuzzy")
                            } else if w.kind == WKind::Create && versioned && epoch > view_epoch {
                                None
                            } else {
                                Some("phantom")
                            }
                        }
                        _ => None,
                    },
                };
                if let Some(c) = class {
                    k.insert(*e, c);
                    break;
                }
            }
        }
        // own pending triple writes are invisible to the writer's own SPARQL reads (known finding)
        if let Some(rt) = reader_tx {
            for w in &self.txs[rt].writes {
                if let WOp::RdfIns(t) | WOp::RdfDel(t) = w {
                    k.entry(Ent::Triple(*t)).or_insert("rdf-own-writes");
                }
            }
        }
        k
    }
}

fn triple_text(t: u8) -> String {
    format!("<http://v/s{t}> <http://v/p> <http://v/o{t}>")
}

fn val_i(v: &Value) -> Option<i64> {
    match v {
        Value::Int64(i) => Some(*i),
        _ => None,
    }
}

fn cell(v: &Value) -> String {
    match v {
        Value::Null => "null".into(),
        Value::Int64(i) => i.to_string(),
        Value::String(s) => format!("'{s}'"),
        Value::List(l) => {
            let mut xs: Vec<String> = l.iter().map(cell).collect();
            xs.sort();
            format!("[{}]", xs.join(","))
        }
        other => format!("{other:?}"),
    }
}

fn mismatch(kind: &str, what: String) -> Failure {
    Failure { signature: format!("c01/read-mismatch:{kind}"), what }
}

// ------------------------------------------------------------------------------------------------
// Executing one op on the engine and on the model
// ------------------------------------------------------------------------------------------------

impl World {
    fn exec_gql(&self, si: usize, q: &str) -> Result<Vec<Vec<Value>>, Failure> {
        let s = &self.sessions[si];
        match guard(q, || s.execute(q))? {
            Ok(r) => Ok(r.rows),
            Err(e) => fail("c01/statement-error", format!("{q}: {e}")),
        }
    }

    fn exec_cypher(&self, si: usize, q: &str) -> Result<Vec<Vec<Value>>, Failure> {
        let s = &self.sessions[si];
        match guard(q, || s.execute_cypher(q))? {
            Ok(r) => Ok(r.rows),
            Err(e) => fail("c01/statement-error", format!("{q}: {e}")),
        }
    }

    fn exec_sparql(&self, si: usize, q: &str) -> Result<Vec<Vec<Value>>, Failure> {
        let s = &self.sessions[si];
        match guard(q, || s.execute_sparql(q))? {
            Ok(r) => Ok(r.rows),
            Err(e) => fail("c01/statement-error", format!("{q}: {e}")),
        }
    }

    /// An explicit empty transaction on a helper session: advances the manager epoch.
    fn bump_epoch(&mut self) -> Result<(), Failure> {
        let mut h = self.db.session();
        let r = guard("bump", || h.begin_tx().and_then(|()| h.commit()))?;
        if let Err(e) = r {
            return fail("c01/commit-refused", format!("empty transaction refused: {e}"));
        }
        self.epoch += 1;
        Ok(())
    }

    /// Applies one op. Reads return their verdict through the counters; a failure is returned as Err.
    pub fn step(&mut self, op: &Op) -> Result<(), Failure> {
        self.time += 1;
        match *op {
            Op::Begin { s, ser } => {
                let si = self.sidx(s);
                if self.cur_tx[si].is_some() {
                    self.skipped += 1;
                    return Ok(());
                }
                if self.mode == 2 {
                    self.bump_epoch()?;
                }
                let iso = if ser { IsolationLevel::Serializable } else { IsolationLevel::SnapshotIsolation };
                let sess = &mut self.sessions[si];
                match guard("begin", || sess.begin_tx_with_isolation(iso))? {
                    Ok(()) => {}
                    Err(e) => return fail("c01/begin-error", format!("{e}")),
                }
                self.txs.push(TxM {
                    view: self.committed.clone(),
                    writes: Vec::new(),
                    start_epoch: self.epoch,
                    begin_time: self.time,
                    status: TxStatus::Open,
                });
                self.cur_tx[si] = Some(self.txs.len() - 1);
            }
            Op::Commit { s } => {
                let si = self.sidx(s);
                let Some(t) = self.cur_tx[si] else {
                    self.skipped += 1;
                    return Ok(());
                };
                let sess = &mut self.sessions[si];
                match guard("commit", || sess.commit())? {
                    Ok(()) => {}
                    Err(e) => return fail("c01/commit-refused", format!("commit refused although sessions never register writes: {e}")),
                }
                let writes = std::mem::take(&mut self.txs[t].writes);
                for w in &writes {
                    self.committed.apply(w);
                }
                self.txs[t].writes = writes;
                self.txs[t].status = TxStatus::Committed(self.time);
                self.cur_tx[si] = None;
                self.epoch += 1;
            }
            Op::Rollback { s } => {
                let si = self.sidx(s);
                let Some(t) = self.cur_tx[si] else {
                    self.skipped += 1;
                    return Ok(());
                };
                let sess = &mut self.sessions[si];
                match guard("rollback", || sess.rollback())? {
                    Ok(()) => {}
                    Err(e) => return fail("c01/rollback-error", format!("{e}")),
                }
                self.txs[t].status = TxStatus::RolledBack(self.time);
                self.cur_tx[si] = None;
            }
            Op::CreateNode { s, label, x, via } => {
                let si = self.sidx(s);
                let l = LABELS[label as usize % 3];
                let xv = i64::from(x);
                let id = match via % 3 {
                    0 => {
                        let sess = &self.sessions[si];
                        guard("create_node_with_props", || sess.create_node_with_props(&[l], [("x", Value::Int64(xv))]))?.as_u64()
                    }
                    1 => {
                        let rows = self.exec_gql(si, &format!("INSERT (:{l} {{x: {xv}}})"))?;
                        match rows.first().and_then(|r| r.first()).and_then(val_i) {
                            Some(i) => i as u64,
                            None => return fail("c01/insert-no-id", format!("INSERT returned {rows:?}")),
                        }
                    }
                    _ => {
                        let rows = self.exec_cypher(si, &format!("CREATE (:{l} {{x: {xv}}})"))?;
                        match rows.first().and_then(|r| r.first()).and_then(val_i) {
                            Some(i) => i as u64,
                            None => return fail("c01/insert-no-id", format!("CREATE returned {rows:?}")),
                        }
                    }
                };
                if self.all_nodes.contains(&id) {
                    return fail("c01/duplicate-node-id", format!("node id {id} handed out twice"));
                }
                self.all_nodes.push(id);
                self.log_write(si, Ent::Node(id), WKind::Create);
                self.apply_write(si, WOp::CreateNode { id, label: l, x: xv });
            }
            Op::CreateEdge { s, a, b, ty } => {
                let si = self.sidx(s);
                let ids: Vec<u64> = self.view(si).nodes.keys().copied().collect();
                if ids.is_empty() {
                    self.skipped += 1;
                    return Ok(());
                }
                let (na, nb) = (ids[pick(a, ids.len())], ids[pick(b, ids.len())]);
                // endpoints must not be in a defective region for the writer (otherwise the edge hangs on a node
                // the engine may not show): skip when either endpoint conflicts for this session
                let k = self.conflicts(si, true);
                if k.contains_key(&Ent::Node(na)) || k.contains_key(&Ent::Node(nb)) {
                    self.skipped += 1;
                    return Ok(());
                }
                let t = ETYPES[ty as usize % 2];
                let sess = &self.sessions[si];
                let id = guard("create_edge", || sess.create_edge(NodeId::new(na), NodeId::new(nb), t))?.as_u64();
                if self.all_edges.iter().any(|(e, _, _)| *e == id) {
                    return fail("c01/duplicate-edge-id", format!("edge id {id} handed out twice"));
                }
                self.all_edges.push((id, na, nb));
                self.log_write(si, Ent::Edge(id), WKind::Create);
                self.apply_write(si, WOp::CreateEdge { id, a: na, b: nb, ty: t });
            }
            Op::SetProp { .. } | Op::RemoveProp { .. } | Op::AddLabel { .. } | Op::RemoveLabel { .. } | Op::DeleteNode { .. } => {
                self.mutate(op)?;
            }
            Op::RdfInsert { s, t } | Op::RdfDelete { s, t } => {
                let si = self.sidx(s);
                let ins = matches!(op, Op::RdfInsert { .. });
                let q = if ins { format!("INSERT DATA {{ {} }}", triple_text(t)) } else { format!("DELETE DATA {{ {} }}", triple_text(t)) };
                self.exec_sparql(si, &q)?;
                self.log_write(si, Ent::Triple(t), if ins { WKind::Create } else { WKind::Delete });
                self.apply_write(si, if ins { WOp::RdfIns(t) } else { WOp::RdfDel(t) });
            }
            Op::Merge { s, label, x } => {
                let si = self.sidx(s);
                let others_open = self.cur_tx.iter().enumerate().any(|(i, t)| i != si && t.is_some());
                if others_open || !self.conflicts(si, true).is_empty() {
                    self.skipped += 1;
                    return Ok(());
                }
                let l = LABELS[label as usize % 3];
                let xv = i64::from(x);
                let exists = self.view(si).nodes.values().any(|n| n.labels.contains(l) && n.props.get("x") == Some(&xv));
                self.exec_gql(si, &format!("MERGE (n:{l} {{x: {xv}}})"))?;
                if !exists {
                    // ids come from a counter and are never reused: the created node has the next id
                    let id = self.all_nodes.iter().copied().max().map_or(0, |m| m + 1);
                    self.all_nodes.push(id);
                    self.log_write(si, Ent::Node(id), WKind::Create);
                    self.apply_write(si, WOp::CreateNode { id, label: l, x: xv });
                }
            }
            Op::Read { s, kind, n, arg } => {
                let si = self.sidx(s);
                self.last_read[si] = Some((kind, n, arg));
                self.read(si, kind, n, arg)?;
            }
            Op::Repeat { s } => {
                let si = self.sidx(s);
                match self.last_read[si] {
                    Some((kind, n, arg)) => self.read(si, kind, n, arg)?,
                    None => self.skipped += 1,
                }
            }
        }
        Ok(())
    }

    fn mutate(&mut self, op: &Op) -> Result<(), Failure> {
        let (s, n) = match *op {
            Op::SetProp { s, n, .. } | Op::RemoveProp { s, n, .. } | Op::AddLabel { s, n, .. } | Op::RemoveLabel { s, n, .. } | Op::DeleteNode { s, n } => (s, n),
            _ => unreachable!(),
        };
        let si = self.sidx(s);
        // modes 1 and 2: transactions only create; auto-commit mutations only while no transaction is open
        if self.mode >= 1 && self.any_open_tx() {
            self.skipped += 1;
            return Ok(());
        }
        let ids: Vec<u64> = self.view(si).nodes.keys().copied().collect();
        if ids.is_empty() {
            self.skipped += 1;
            return Ok(());
        }
        let id = ids[pick(n, ids.len())];
        // the target must be one the engine shows to this writer exactly as the model does
        let k = self.conflicts(si, true);
        if k.contains_key(&Ent::Node(id)) {
            self.skipped += 1;
            return Ok(());
        }
        match *op {
            Op::SetProp { key, val, .. } => {
                let kname = KEYS[key as usize % 2];
                self.exec_gql(si, &format!("MATCH (n) WHERE id(n) = {id} SET n.{kname} = {val}"))?;
                self.log_write(si, Ent::Node(id), WKind::Mutate);
                self.apply_write(si, WOp::SetProp { n: id, key: kname, val: i64::from(val) });
            }
            Op::RemoveProp { key, .. } => {
                let kname = KEYS[key as usize % 2];
                self.exec_gql(si, &format!("MATCH (n) WHERE id(n) = {id} REMOVE n.{kname}"))?;
                self.log_write(si, Ent::Node(id), WKind::Mutate);
                self.apply_write(si, WOp::RemoveProp { n: id, key: kname });
            }
            Op::AddLabel { label, .. } => {
                let l = LABELS[label as usize % 3];
                self.exec_gql(si, &format!("MATCH (n) WHERE id(n) = {id} SET n:{l}"))?;
                self.log_write(si, Ent::Node(id), WKind::Mutate);
                self.apply_write(si, WOp::AddLabel { n: id, label: l });
            }
            Op::RemoveLabel { label, .. } => {
                let l = LABELS[label as usize % 3];
                self.exec_gql(si, &format!("MATCH (n) WHERE id(n) = {id} REMOVE n:{l}"))?;
                self.log_write(si, Ent::Node(id), WKind::Mutate);
                self.apply_write(si, WOp::RemoveLabel { n: id, label: l });
            }
            Op::DeleteNode { .. } => {
                self.exec_gql(si, &format!("MATCH (n) WHERE id(n) = {id} DETACH DELETE n"))?;
                self.log_write(si, Ent::Node(id), WKind::Delete);
                // every edge ever created on this node is touched by the engine's detach
                let touched: Vec<u64> = self.all_edges.iter().filter(|(_, a, b)| *a == id || *b == id).map(|(e, _, _)| *e).collect();
                for e in touched {
                    self.log_write(si, Ent::Edge(e), WKind::Delete);
                    if !self.view(si).edges.contains_key(&e) {
                        // an edge this writer cannot see was deleted along: permanently outside the model
                        self.taint.insert(Ent::Edge(e));
                    }
                }
                self.apply_write(si, WOp::DeleteNode { n: id });
            }
            _ => unreachable!(),
        }
        Ok(())
    }

    /// Expected answer of a read kind on a state.
    pub fn expected(&self, st: &State, kind: u8, n: u16, arg: u8) -> Option<Answer> {
        let mut rows: Vec<(Vec<Ent>, String)> = Vec::new();
        let mut scalar = None;
        let all: &Vec<u64> = &self.all_nodes;
        match kind {
            0 | 13 => {
                let l = LABELS[arg as usize % 3];
                for (id, nm) in &st.nodes {
                    if nm.labels.contains(l) {
                        rows.push((vec![Ent::Node(*id)], id.to_string()));
                    }
                }
            }
            1 => {
                for id in st.nodes.keys() {
                    rows.push((vec![Ent::Node(*id)], id.to_string()));
                }
            }
            2 | 14 => {
                let key = if kind == 2 { "x" } else { "y" };
                for (id, nm) in &st.nodes {
                    let v = nm.props.get(key).map_or("null".to_string(), |v| v.to_string());
                    rows.push((vec![Ent::Node(*id)], format!("{id},{v}")));
                }
            }
            3 => {
                for (e, (a, b, _)) in &st.edges {
                    if st.nodes.contains_key(a) && st.nodes.contains_key(b) {
                        rows.push((vec![Ent::Node(*a), Ent::Edge(*e), Ent::Node(*b)], format!("{a},{e},{b}")));
                    }
                }
            }
            17 => {
                // typed variable-length expand `-[:T*1..2]->`: one row per walk of 1 or 2 edges of type T between live nodes.
                // Histories holding a self-loop of that type are not judged (whether a walk may use one edge twice is C08's subject).
                let t = ETYPES[arg as usize % 2];
                let live: Vec<(u64, u64)> =
                    st.edges.values().filter(|(a, b, ty)| *ty == t && st.nodes.contains_key(a) && st.nodes.contains_key(b)).map(|(a, b, _)| (*a, *b)).collect();
                if live.iter().any(|(a, b)| a == b) {
                    return None;
                }
                for (a, m) in &live {
                    rows.push((vec![Ent::Node(*a), Ent::Node(*m)], format!("{a},{m}")));
                    for (m2, b) in &live {
                        if m2 == m {
                            rows.push((vec![Ent::Node(*a), Ent::Node(*b)], format!("{a},{b}")));
                        }
                    }
                }
            }
            4 => scalar = Some(st.nodes.len() as i64),
            5 => {
                let v = i64::from(arg % 4);
                for (id, nm) in &st.nodes {
                    if nm.props.get("x") == Some(&v) {
                        rows.push((vec![Ent::Node(*id)], id.to_string()));
                    }
                }
            }
            6 | 7 => {
                if all.is_empty() {
                    return None;
                }
                let id = all[pick(n, all.len())];
                match st.nodes.get(&id) {
                    Some(nm) if kind == 6 => {
                        let labels: Vec<&str> = nm.labels.iter().copied().collect();
                        let props: Vec<String> = nm.props.iter().map(|(k, v)| format!("{k}={v}")).collect();
                        rows.push((vec![Ent::Node(id)], format!("{id}:{}:{}", labels.join("|"), props.join("|"))));
                    }
                    Some(_) => rows.push((vec![Ent::Node(id)], format!("{id}:exists"))),
                    None => rows.push((vec![Ent::Node(id)], format!("{id}:absent"))),
                }
            }
            8 => {
                if self.all_edges.is_empty() {
                    return None;
                }
                let (e, a, b) = self.all_edges[pick(n, self.all_edges.len())];
                match st.edges.get(&e) {
                    Some((a2, b2, t)) => rows.push((vec![Ent::Edge(e), Ent::Node(a), Ent::Node(b)], format!("{e}:{a2}-{t}->{b2}"))),
                    None => rows.push((vec![Ent::Edge(e), Ent::Node(a), Ent::Node(b)], format!("{e}:absent"))),
                }
            }
            9 | 10 | 11 => {
                let ids: Vec<u64> = st.nodes.keys().copied().collect();
                if ids.is_empty() {
                    return None;
                }
                let id = ids[pick(n, ids.len())];
                let mut out = 0;
                let mut inc = 0;
                for (e, (a, b, _)) in &st.edges {
                    if *a == id {
                        out += 1;
                        if kind == 9 {
                            rows.push((vec![Ent::Node(id), Ent::Edge(*e), Ent::Node(*b)], format!("{id}->{b}:{e}")));
                        }
                    }
                    if *b == id {
                        inc += 1;
                        if kind == 10 {
                            rows.push((vec![Ent::Node(id), Ent::Edge(*e), Ent::Node(*a)], format!("{id}<-{a}:{e}")));
                        }
                    }
                }
                if kind == 11 {
                    rows.push((vec![Ent::Node(id)], format!("{id}:out={out},in={inc}")));
                }
            }
            15 => {
                // range filter on a plain scan (the planner's range path)
                let v = i64::from(arg % 4);
                for (id, nm) in &st.nodes {
                    if nm.props.get("x").is_some_and(|x| *x > v) {
                        rows.push((vec![Ent::Node(*id)], id.to_string()));
                    }
                }
            }
            16 => {
                // label scan + range filter
                let l = LABELS[arg as usize % 3];
                let v = i64::from(n % 4);
                for (id, nm) in &st.nodes {
                    if nm.labels.contains(l) && nm.props.get("x").is_some_and(|x| *x >= v) {
                        rows.push((vec![Ent::Node(*id)], id.to_string()));
                    }
                }
            }
            12 => {
                for t in &st.triples {
                    rows.push((vec![Ent::Triple(*t)], format!("http://v/s{t} http://v/p http://v/o{t}")));
                }
            }
            _ => return None,
        }
        Some(Answer { rows, scalar }.sorted())
    }

    /// Runs a read kind against the engine.
    fn observe(&self, si: usize, kind: u8, n: u16, arg: u8) -> Result<Option<Answer>, Failure> {
        let mut rows: Vec<(Vec<Ent>, String)> = Vec::new();
        let mut scalar = None;
        let sess = &self.sessions[si];
        let id_rows = |rs: Vec<Vec<Value>>, what: &str| -> Result<Vec<(Vec<Ent>, String)>, Failure> {
            let mut out = Vec::new();
            for r in rs {
                match r.first().and_then(val_i) {
                    Some(i) => out.push((vec![Ent::Node(i as u64)], (i as u64).to_string())),
                    None => return Err(mismatch(what, format!("non-integer id row {r:?}"))),
                }
            }
            Ok(out)
        };
        match kind {
            0 => {
                let l = LABELS[arg as usize % 3];
                rows = id_rows(self.exec_gql(si, &format!("MATCH (n:{l}) RETURN id(n)"))?, "label-scan")?;
            }
            13 => {
                let l = LABELS[arg as usize % 3];
                rows = id_rows(self.exec_cypher(si, &format!("MATCH (n:{l}) RETURN id(n)"))?, "label-scan-cypher")?;
            }
            1 => rows = id_rows(self.exec_gql(si, "MATCH (n) RETURN id(n)")?, "scan")?,
            2 | 14 => {
                let key = if kind == 2 { "x" } else { "y" };
                for r in self.exec_gql(si, &format!("MATCH (n) RETURN id(n), n.{key}"))? {
                    match (r.first().and_then(val_i), r.get(1)) {
                        (Some(i), Some(v)) => rows.push((vec![Ent::Node(i as u64)], format!("{},{}", i as u64, cell(v)))),
                        _ => return Err(mismatch("projection", format!("bad row {r:?}"))),
                    }
                }
            }
            3 => {
                for r in self.exec_gql(si, "MATCH (a)-[r]->(b) RETURN id(a), id(r), id(b)")? {
                    match (r.first().and_then(val_i), r.get(1).and_then(val_i), r.get(2).and_then(val_i)) {
                        (Some(a), Some(e), Some(b)) => rows.push((
                            vec![Ent::Node(a as u64), Ent::Edge(e as u64), Ent::Node(b as u64)],
                            format!("{a},{e},{b}"),
                        )),
                        _ => return Err(mismatch("expand", format!("bad row {r:?}"))),
                    }
                }
            }
            17 => {
                let t = ETYPES[arg as usize % 2];
                for r in self.exec_gql(si, &format!("MATCH (a)-[:{t}*1..2]->(b) RETURN id(a), id(b)"))? {
                    match (r.first().and_then(val_i), r.get(1).and_then(val_i)) {
                        (Some(a), Some(b)) => rows.push((vec![Ent::Node(a as u64), Ent::Node(b as u64)], format!("{a},{b}"))),
                        _ => return Err(mismatch("varlen-expand", format!("bad row {r:?}"))),
                    }
                }
            }
            4 => {
                let rs = self.exec_gql(si, "MATCH (n) RETURN count(n)")?;
                match rs.first().and_then(|r| r.first()).and_then(val_i) {
                    Some(c) if rs.len() == 1 => scalar = Some(c),
                    _ => return Err(mismatch("count", format!("count returned {rs:?}"))),
                }
            }
            5 => {
                let v = arg % 4;
                rows = id_rows(self.exec_gql(si, &format!("MATCH (n) WHERE n.x = {v} RETURN id(n)"))?, "filter-scan")?;
            }
            6 | 7 => {
                if self.all_nodes.is_empty() {
                    return Ok(None);
                }
                let id = self.all_nodes[pick(n, self.all_nodes.len())];
                if kind == 6 {
                    let got = guard("get_node", || sess.get_node(NodeId::new(id)))?;
                    let batch = guard("get_nodes_batch", || sess.get_nodes_batch(&[NodeId::new(id)]))?;
                    if batch.len() != 1 || batch[0].is_some() != got.is_some() {
                        return Err(mismatch("get_nodes_batch", format!("batch disagrees with get_node for {id}")));
                    }
                    match got {
                        Some(nd) => {
                            let mut labels: Vec<String> = nd.labels.iter().map(|l| l.to_string()).collect();
                            labels.sort();
                            // convention: GQL `REMOVE n.k` stores NULL for the key; a NULL-valued property is observationally absent
                            let mut props: Vec<(String, String)> =
                                nd.properties.iter().filter(|(_, v)| !matches!(v, Value::Null)).map(|(k, v)| (k.as_str().to_string(), cell(v))).collect();
                            props.sort();
                            let props: Vec<String> = props.into_iter().map(|(k, v)| format!("{k}={v}")).collect();
                            rows.push((vec![Ent::Node(id)], format!("{id}:{}:{}", labels.join("|"), props.join("|"))));
                        }
                        None => rows.push((vec![Ent::Node(id)], format!("{id}:absent"))),
                    }
                } else {
                    let ex = guard("node_exists", || sess.node_exists(NodeId::new(id)))?;
                    rows.push((vec![Ent::Node(id)], format!("{id}:{}", if ex { "exists" } else { "absent" })));
                }
            }
            8 => {
                if self.all_edges.is_empty() {
                    return Ok(None);
                }
                let (e, a, b) = self.all_edges[pick(n, self.all_edges.len())];
                let got = guard("get_edge", || sess.get_edge(EdgeId::new(e)))?;
                let ex = guard("edge_exists", || sess.edge_exists(EdgeId::new(e)))?;
                if ex != got.is_some() {
                    return Err(mismatch("edge_exists", format!("edge_exists disagrees with get_edge for {e}")));
                }
                match got {
                    Some(ed) => rows.push((
                        vec![Ent::Edge(e), Ent::Node(a), Ent::Node(b)],
                        format!("{e}:{}-{}->{}", ed.src.as_u64(), ed.edge_type, ed.dst.as_u64()),
                    )),
                    None => rows.push((vec![Ent::Edge(e), Ent::Node(a), Ent::Node(b)], format!("{e}:absent"))),
                }
            }
            9 | 10 | 11 => {
                let ids: Vec<u64> = self.view(si).nodes.keys().copied().collect();
                if ids.is_empty() {
                    return Ok(None);
                }
                let id = ids[pick(n, ids.len())];
                match kind {
                    9 => {
                        for (o, e) in guard("neighbors_out", || sess.get_neighbors_outgoing(NodeId::new(id)))? {
                            rows.push((vec![Ent::Node(id), Ent::Edge(e.as_u64()), Ent::Node(o.as_u64())], format!("{id}->{}:{}", o.as_u64(), e.as_u64())));
                        }
                    }
                    10 => {
                        for (o, e) in guard("neighbors_in", || sess.get_neighbors_incoming(NodeId::new(id)))? {
                            rows.push((vec![Ent::Node(id), Ent::Edge(e.as_u64()), Ent::Node(o.as_u64())], format!("{id}<-{}:{}", o.as_u64(), e.as_u64())));
                        }
                    }
                    _ => {
                        let (out, inc) = guard("degree", || sess.get_degree(NodeId::new(id)))?;
                        rows.push((vec![Ent::Node(id)], format!("{id}:out={out},in={inc}")));
                    }
                }
            }
            15 => {
                let v = arg % 4;
                rows = id_rows(self.exec_gql(si, &format!("MATCH (n) WHERE n.x > {v} RETURN id(n)"))?, "range-scan")?;
            }
            16 => {
                let l = LABELS[arg as usize % 3];
                let v = n % 4;
                rows = id_rows(self.exec_gql(si, &format!("MATCH (n:{l}) WHERE n.x >= {v} RETURN id(n)"))?, "label-range-scan")?;
            }
            12 => {
                for r in self.exec_sparql(si, "SELECT ?s ?p ?o WHERE { ?s ?p ?o }")? {
                    let txt: Vec<String> = r
                        .iter()
                        .map(|v| match v {
                            Value::String(s) => s.to_string(),
                            o => cell(o),
                        })
                        .collect();
                    let t = txt.first().and_then(|s| s.strip_prefix("http://v/s")).and_then(|x| x.parse::<u8>().ok());
                    match t {
                        Some(t) => rows.push((vec![Ent::Triple(t)], txt.join(" "))),
                        None => return Err(mismatch("sparql", format!("unexpected solution {r:?}"))),
                    }
                }
            }
            _ => return Ok(None),
        }
        Ok(Some(Answer { rows, scalar }.sorted()))
    }

    pub fn read(&mut self, si: usize, kind: u8, n: u16, arg: u8) -> Result<(), Failure> {
        let v = self.read_verdict(si, kind, n, arg)?;
        match v {
            None => self.skipped += 1,
            Some(ReadVerdict::Strict { nontrivial }) => {
                self.strict_reads += 1;
                if nontrivial {
                    self.strict_nontrivial += 1;
                }
            }
            Some(ReadVerdict::ConflictButEqual) => self.strict_reads += 1,
            Some(ReadVerdict::Tolerated(class)) => {
                self.tolerated_reads += 1;
                return Err(Failure { signature: format!("c01/known/{class}"), what: String::new() });
            }
        }
        Ok(())
    }

    pub fn read_verdict(&mut self, si: usize, kind: u8, n: u16, arg: u8) -> Result<Option<ReadVerdict>, Failure> {
        let kind = kind % N_READ_KINDS;
        let Some(exp) = self.expected(self.view(si), kind, n, arg) else { return Ok(None) };
        let Some(obs) = self.observe(si, kind, n, arg)? else { return Ok(None) };
        let versioned = !matches!(kind, 9 | 10 | 11);
        let mut k = self.conflicts(si, versioned);
        // degree is a count over incident edges: any conflicting incident edge makes the node's degree conflict
        if kind == 11 || kind == 9 || kind == 10 {
            let extra: Vec<u64> = self
                .all_edges
                .iter()
                .filter(|(e, _, _)| k.contains_key(&Ent::Edge(*e)))
                .flat_map(|(_, a, b)| [*a, *b])
                .collect();
            if kind == 11 {
                for x in extra {
                    k.entry(Ent::Node(x)).or_insert("in-place-adjacency");
                }
            }
        }
        let footprint_conflict = match kind {
            4 => k.keys().any(|e| matches!(e, Ent::Node(_))),
            12 => k.keys().any(|e| matches!(e, Ent::Triple(_))),
            _ => {
                obs.rows.iter().chain(exp.rows.iter()).any(|(es, _)| es.iter().any(|e| k.contains_key(e)))
                    || (matches!(kind, 0 | 1 | 2 | 3 | 5 | 13 | 14 | 15 | 16 | 17) && k.keys().any(|e| !matches!(e, Ent::Triple(_))))
            }
        };
        let in_tx = self.cur_tx[si].is_some();
        let others_active = in_tx && {
            let b = self.txs[self.cur_tx[si].unwrap()].begin_time;
            self.log.values().flatten().any(|w| w.time > b && !matches!((w.writer, self.cur_tx[si]), (Writer::Tx(t), Some(rt)) if t == rt))
        };
        if others_active {
            self.concurrent_reads += 1;
        }
        if obs == exp {
            if footprint_conflict {
                return Ok(Some(ReadVerdict::ConflictButEqual));
            }
            // non-trivial: the snapshot matters (the latest committed state would answer differently)
            let latest = self.expected(&self.committed, kind, n, arg);
            let nontrivial = others_active && latest.as_ref() != Some(&exp);
            return Ok(Some(ReadVerdict::Strict { nontrivial }));
        }
        let kname = read_kind_name(kind);
        let describe = |k: &BTreeMap<Ent, &'static str>| {
            format!(
                "session {si} (in_tx={in_tx}) read {kname}: expected {:?}{} but observed {:?}{}; conflict set {:?}",
                exp.rows.iter().map(|r| &r.1).collect::<Vec<_>>(),
                exp.scalar.map_or(String::new(), |s| format!(" scalar {s}")),
                obs.rows.iter().map(|r| &r.1).collect::<Vec<_>>(),
                obs.scalar.map_or(String::new(), |s| format!(" scalar {s}")),
                k
            )
        };
        if !footprint_conflict {
            return Err(mismatch(kname, describe(&k)));
        }
        if kind == 17 {
            // the rows of a variable-length expand do not name the edges they walked, so a deviation under a non-empty
            // conflict set cannot be pinned to the conflicting entities: attributed to the first conflict class, not judged
            return Ok(Some(ReadVerdict::Tolerated(k.values().next().copied().unwrap_or("in-place"))));
        }
        // explained by the conflict set? remove the rows that mention a conflicting entity
        let explained = match kind {
            4 => {
                let nk = k.keys().filter(|e| matches!(e, Ent::Node(_))).count() as i64;
                (obs.scalar.unwrap_or(0) - exp.scalar.unwrap_or(0)).abs() <= nk
            }
            _ => obs.without(&k) == exp.without(&k),
        };
        if !explained {
            return Err(mismatch(kname, format!("not explained by the conflict set: {}", describe(&k))));
        }
        // attribute to the class of a conflicting entity that actually appears in the difference
        let mut class = "in-place";
        let diff_ents: BTreeSet<Ent> = obs
            .rows
            .iter()
            .filter(|r| !exp.rows.contains(r))
            .chain(exp.rows.iter().filter(|r| !obs.rows.contains(r)))
            .flat_map(|(es, _)| es.iter().copied())
            .collect();
        for e in &diff_ents {
            if let Some(c) = k.get(e) {
                class = c;
                break;
            }
        }
        if kind == 4 {
            class = k.values().next().copied().unwrap_or("in-place");
        }
        Ok(Some(ReadVerdict::Tolerated(class)))
    }
}

pub fn read_kind_name(kind: u8) -> &'static str {
    match kind {
        0 => "label-scan",
        1 => "scan",
        2 => "projection-x",
        3 => "expand",
        4 => "count",
        5 => "filter-scan",
        6 => "get_node",
        7 => "node_exists",
        8 => "get_edge",
        9 => "neighbors-out",
        10 => "neighbors-in",
        11 => "degree",
        12 => "sparql",
        13 => "label-scan-cypher",
        14 => "projection-y",
        15 => "range-scan",
        16 => "label-range-scan",
        17 => "varlen-expand",
        _ => "other",
    }
}

/// Runs a whole history. Tolerated reads (known findings) do not stop the history: the first tolerated class is
/// reported at the end if nothing worse happened, so that the driver counts the case under that finding.
pub fn run_history(h: &History) -> CaseResult {
    let mut w = World::new(h.sessions, h.mode);
    if h.index_x {
        guard("create_property_index", || w.db.create_property_index("x"))?;
    }
    let mut known: Vec<String> = Vec::new();
    for op in &h.ops {
        match w.step(op) {
            Ok(()) => {}
            Err(f) if f.signature.starts_with("c01/known/") => known.push(f.signature),
            Err(f) => {
                return Err(Failure { signature: f.signature, what: format!("{} (after op {:?}; mode {})", f.what, op, h.mode) });
            }
        }
    }
    // close what is still open so that no transaction outlives the case
    for si in 0..w.sessions.len() {
        if w.cur_tx[si].is_some() {
            let _ = w.sessions[si].rollback();
        }
    }
    let class = match (w.strict_nontrivial > 0, w.concurrent_reads > 0) {
        (true, _) => format!("mode{}-snapshot-matters", h.mode),
        (false, true) => format!("mode{}-concurrent", h.mode),
        _ => format!("mode{}-serial", h.mode),
    };
    let class = if known.is_empty() { class } else { format!("{class}+defect-region") };
    crate::driver::ok_with_known(w.strict_nontrivial > 0, class, hash_dbg(h), known)
}

// ------------------------------------------------------------------------------------------------
// Visibility kernel
// ------------------------------------------------------------------------------------------------

#[derive(Clone, Debug, Serialize, Deserialize)]
pub enum KOp {
    /// create an entity at (epoch delta, tx)
    Create { de: u8, tx: u8, edge: bool },
    /// delete entity `i` at the current epoch
    Delete { i: u16, edge: bool },
    /// discard uncommitted versions of tx
    Discard { tx: u8 },
    /// probe visibility of entity `i` for (epoch, tx)
    Probe { i: u16, epoch: u8, tx: u8, edge: bool },
}

#[derive(Clone, Debug, Serialize, Deserialize)]
pub struct KCase {
    pub ops: Vec<KOp>,
}

fn kernel_strategy() -> impl Strategy<Value = KCase> {
    let op = prop_oneof![
        4 => (0u8..3, 0u8..4, any::<bool>()).prop_map(|(de, tx, edge)| KOp::Create { de, tx, edge }),
        2 => (any::<u16>(), any::<bool>()).prop_map(|(i, edge)| KOp::Delete { i, edge }),
        1 => (0u8..4).prop_map(|tx| KOp::Discard { tx }),
        8 => (any::<u16>(), 0u8..12, 0u8..5, any::<bool>()).prop_map(|(i, epoch, tx, edge)| KOp::Probe { i, epoch, tx, edge }),
    ];
    proptest::collection::vec(op, 1..40).prop_map(|ops| KCase { ops })
}

#[derive(Clone, Debug)]
struct KEnt {
    id: u64,
    created: u64,
    by: u64,
    deleted: Option<u64>,
    discarded: bool,
}

/// The documented predicate (mvcc.rs: "own modifications are always visible"; otherwise created ≤ epoch < deleted).
fn k_visible(e: &KEnt, epoch: u64, tx: u64) -> bool {
    if e.discarded {
        return false;
    }
    if e.by == tx {
        return e.deleted.is_none();
    }
    e.created <= epoch && e.deleted.is_none_or(|d| d > epoch)
}

fn run_kernel(c: &KCase) -> CaseResult {
    let store = LpgStore::new();
    // two anchor nodes for edges, created by the system at epoch 0
    let a0 = store.create_node_versioned(&["N"], EpochId::new(0), TxId::SYSTEM);
    let a1 = store.create_node_versioned(&["N"], EpochId::new(0), TxId::SYSTEM);
    let mut epoch = 0u64;
    let mut nodes: Vec<KEnt> = Vec::new();
    let mut edges: Vec<KEnt> = Vec::new();
    let mut probes = 0u32;
    let mut interesting = 0u32;
    let txid = |t: u8| if t == 0 { TxId::SYSTEM } else { TxId::new(10 + u64::from(t)) };
    for op in &c.ops {
        match *op {
            KOp::Create { de, tx, edge } => {
                epoch += u64::from(de);
                let t = txid(tx);
                if edge {
                    let id = guard("create_edge_versioned", || store.create_edge_versioned(a0, a1, "E", EpochId::new(epoch), t))?.as_u64();
                    edges.push(KEnt { id, created: epoch, by: t.as_u64(), deleted: None, discarded: false });
                } else {
                    let id = guard("create_node_versioned", || store.create_node_versioned(&["L"], EpochId::new(epoch), t))?.as_u64();
                    nodes.push(KEnt { id, created: epoch, by: t.as_u64(), deleted: None, discarded: false });
                }
            }
            KOp::Delete { i, edge } => {
                let list = if edge { &mut edges } else { &mut nodes };
                if list.is_empty() {
                    continue;
                }
                let idx = pick(i, list.len());
                let e = &mut list[idx];
                if e.discarded || e.created > epoch {
                    continue;
                }
                let was_live = e.deleted.is_none();
                let r = if edge {
                    guard("delete_edge_at_epoch", || store.delete_edge_at_epoch(EdgeId::new(e.id), EpochId::new(epoch)))?
                } else {
                    guard("delete_node_at_epoch", || store.delete_node_at_epoch(NodeId::new(e.id), EpochId::new(epoch)))?
                };
                if r != was_live {
                    return fail("c01/kernel/delete-return", format!("delete of {e:?} at epoch {epoch} returned {r}"));
                }
                if was_live {
                    e.deleted = Some(epoch);
                }
            }
            KOp::Discard { tx } => {
                if tx == 0 {
                    continue;
                }
                let t = txid(tx);
                guard("discard_uncommitted_versions", || store.discard_uncommitted_versions(t))?;
                for e in nodes.iter_mut().chain(edges.iter_mut()) {
                    if e.by == t.as_u64() {
                        e.discarded = true;
                    }
                }
            }
            KOp::Probe { i, epoch: pe, tx, edge } => {
                let list = if edge { &edges } else { &nodes };
                if list.is_empty() {
                    continue;
                }
                let e = &list[pick(i, list.len())];
                let pe = u64::from(pe);
                let t = txid(tx);
                let exp = k_visible(e, pe, t.as_u64());
                let got = if edge {
                    guard("get_edge_versioned", || store.get_edge_versioned(EdgeId::new(e.id), EpochId::new(pe), t))?.is_some()
                } else {
                    guard("get_node_versioned", || store.get_node_versioned(NodeId::new(e.id), EpochId::new(pe), t))?.is_some()
                };
                probes += 1;
                if e.deleted.is_some() || e.by == t.as_u64() || pe == e.created || e.discarded {
                    interesting += 1;
                }
                if got != exp {
                    return fail(
                        "c01/kernel/visibility",
                        format!("{} {e:?} probed at epoch {pe} by tx {}: expected visible={exp}, got {got}", if edge { "edge" } else { "node" }, t.as_u64()),
                    );
                }
                // the epoch-only path agrees with the predicate for a viewer that owns nothing
                let exp_at = !e.discarded && e.created <= pe && e.deleted.is_none_or(|d| d > pe);
                let got_at = if edge {
                    guard("get_edge_at_epoch", || store.get_edge_at_epoch(EdgeId::new(e.id), EpochId::new(pe)))?.is_some()
                } else {
                    guard("get_node_at_epoch", || store.get_node_at_epoch(NodeId::new(e.id), EpochId::new(pe)))?.is_some()
                };
                if got_at != exp_at {
                    return fail("c01/kernel/visibility-at-epoch", format!("{e:?} at epoch {pe}: expected {exp_at}, got {got_at}"));
                }
            }
        }
    }
    ok(interesting > 0, if probes == 0 { "no-probe" } else if interesting > 0 { "boundary-probes" } else { "plain-probes" }, hash_dbg(c))
}

#[derive(Clone, Debug, Serialize, Deserialize)]
pub struct ChainCase {
    /// (epoch delta, tx) of appended versions
    pub versions: Vec<(u8, u8)>,
    /// optional deletion: epoch delta after the last version
    pub delete: Option<u8>,
    pub gc_min: u8,
}

fn run_chain(c: &ChainCase) -> CaseResult {
    let mut chain: VersionChain<u32> = VersionChain::new();
    let mut model: Vec<(u64, u64, Option<u64>, u32)> = Vec::new(); // created, by, deleted, data (oldest first)
    let mut epoch = 0u64;
    for (i, (de, tx)) in c.versions.iter().enumerate() {
        epoch += u64::from(*de);
        let t = 10 + u64::from(*tx % 3);
        // a new version supersedes the previous one at this epoch (documented protocol: one live version)
        if let Some(last) = model.last_mut() {
            if last.2.is_none() {
                last.2 = Some(epoch);
            }
        }
        guard("mark_deleted", || chain.mark_deleted(EpochId::new(epoch)))?;
        guard("add_version", || chain.add_version(i as u32, EpochId::new(epoch), TxId::new(t)))?;
        model.push((epoch, t, None, i as u32));
    }
    if let Some(d) = c.delete {
        epoch += u64::from(d);
        let r = guard("mark_deleted", || chain.mark_deleted(EpochId::new(epoch)))?;
        let exp = model.last().is_some_and(|l| l.2.is_none());
        if r != exp {
            return fail("c01/chain/mark_deleted-return", format!("{c:?}: returned {r}"));
        }
        if let Some(last) = model.last_mut() {
            if last.2.is_none() {
                last.2 = Some(epoch);
            }
        }
    }
    let vis_at = |m: &Vec<(u64, u64, Option<u64>, u32)>, e: u64| -> Option<u32> {
        m.iter().rev().find(|(c, _, d, _)| *c <= e && d.is_none_or(|d| d > e)).map(|x| x.3)
    };
    let before: Vec<Option<u32>> = (0..=epoch + 1).map(|e| chain.visible_at(EpochId::new(e)).copied()).collect();
    for e in 0..=epoch + 1 {
        let exp = vis_at(&model, e);
        if before[e as usize] != exp {
            return fail("c01/chain/visible_at", format!("{c:?}: epoch {e}: expected {exp:?}, got {:?}", before[e as usize]));
        }
    }
    // gc(min) never changes what any epoch >= min sees
    let min = u64::from(c.gc_min).min(epoch + 1);
    guard("gc", || chain.gc(EpochId::new(min)))?;
    for e in min..=epoch + 1 {
        let got = chain.visible_at(EpochId::new(e)).copied();
        if got != before[e as usize] {
            return fail("c01/chain/gc-changed-visibility", format!("{c:?}: after gc({min}) epoch {e} sees {got:?}, before {:?}", before[e as usize]));
        }
    }
    ok(c.versions.len() >= 2 || c.delete.is_some(), if c.delete.is_some() { "with-delete" } else { "versions-only" }, hash_dbg(c))
}

pub fn run(r: &mut Run) {
    r.level = "exploration";
    r.rule = "sessions: generated histories (2-4 sessions; begin/commit/rollback; create node via API/GQL/Cypher, create edge, SET/REMOVE \
              property, add/remove label, DETACH DELETE, SPARQL INSERT/DELETE DATA; 15 read kinds at every position; 3 modes: free, \
              create-only transactions, create-only + epoch bump before each begin) against a snapshot-isolation model; a read is strict when no \
              entity of its footprint has a foreign write that a listed defect exposes, otherwise it is compared modulo those entities and \
              attributed to the defect class; non-trivial = history with a strict read inside a transaction whose expected answer differs from \
              the latest committed state while another writer was active since the reader began. kernel/chain: explicit (epoch, tx) probes \
              against the documented visibility predicate; non-trivial = probe at a boundary (own tx, created==epoch, deleted, discarded)."
        .into();
    r.assumptions.push("edge deletion through query text is not generated (DELETE on an edge variable deletes the node with the same numeric id on the pinned tree); nodes are deleted with DETACH DELETE only".into());
    r.assumptions.push("only SnapshotIsolation and Serializable transactions are generated (the statement's 'committed when the transaction began' is ambiguous for ReadCommitted)".into());
    r.assumptions.push("mutations target only nodes the writer sees identically in model and engine (no foreign conflict), so a defect's effect is observed, not compounded".into());

    let max_ops = if r.is_thorough() { 120 } else { 40 };
    r.subcheck("sessions", r.cases(100_000, 1_500_000), move || history_strategy(max_ops), run_history);
    r.subcheck("kernel", r.cases(50_000, 2_000_000), kernel_strategy, run_kernel);
    r.subcheck(
        "chain",
        r.cases(50_000, 2_000_000),
        || {
            (proptest::collection::vec((0u8..3, 0u8..3), 0..6), proptest::option::of(0u8..3), 0u8..12)
                .prop_map(|(versions, delete, gc_min)| ChainCase { versions, delete, gc_min })
        },
        run_chain,
    );
}
