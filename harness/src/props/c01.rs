//! C01 — not built yet.

use crate::driver::Run;

pub fn run(r: &mut Run) {
    r.inconclusive("C01: check not built yet");
}
