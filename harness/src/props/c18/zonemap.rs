//! `zone_map`: `VectorZoneMap` — block statistics equal their definitions and pruning is conservative.
//!
//! What the module documents (zone_map.rs): `build` records count, dimensions, min/max L2 norm, the mean vector, the
//! largest distance from that mean to a member ("max_radius") and the per-dimension bounding box;
//! `might_contain_within_distance(q, t, metric)` "returns `true` if the block cannot be pruned, `false` if it can be
//! skipped", i.e. `false` promises that no member is within distance `t` of `q` under `metric`; `merge` combines two
//! maps, its radius "becomes approximate (conservative)".
//!
//! Oracles (none shares code with the zone map):
//! * statistics: f64 definitions over the generated block, f32 tolerance of `super::tol`; the bounding box exactly;
//! * conservative pruning: whenever the answer is `false`, the f64 brute-force minimum distance over the block is
//!   `> t - slack` (slack = the f32 evaluation tolerance of a distance between vectors of these magnitudes);
//! * merge: count / norms / box of the union exactly, centroid = mean of the union, `max_radius` >= the true largest
//!   distance from the merged centroid to a member of the union (the documented "conservative"), pruning on the merged
//!   map conservative with respect to the union;
//! * metamorphic: a block-wise exact search (k nearest with the running k-th best as pruning threshold; all members
//!   within a fixed threshold) returns the same distances with pruning on and off.

use proptest::prelude::*;
use serde::{Deserialize, Serialize};

use grafeo_core::index::vector::{VectorZoneMap, compute_distance};

use super::{MagClass, Metric, close, mag_class, ref_distance, tol, vector};
use crate::driver::{CaseResult, Failure, Run, fail, guard, hash_dbg, ok, pick};

const EPS: f64 = f32::EPSILON as f64;

/// A pruning threshold for one (query, block) probe.
#[derive(Clone, Debug, Serialize, Deserialize)]
pub enum Thr {
    /// `factor` x the true distance from the query to member `pick(member)` of block `pick(block)`
    AtMember { block: u16, member: u16, factor: f32 },
    /// an absolute value
    Abs(f32),
}

#[derive(Clone, Debug, Serialize, Deserialize)]
pub struct ZmCase {
    pub dim: usize,
    pub metric: Metric,
    pub class: MagClass,
    /// blocks of vectors (a block may be empty)
    pub blocks: Vec<Vec<Vec<f32>>>,
    pub queries: Vec<Vec<f32>>,
    pub thresholds: Vec<Thr>,
    pub k: usize,
}

fn zm_metric() -> impl Strategy<Value = Metric> {
    prop_oneof![4 => Just(Metric::Euclidean), 4 => Just(Metric::Cosine), 1 => Just(Metric::Dot), 1 => Just(Metric::Manhattan)]
}

/// A block: members scattered around a centre, spread relative to the centre's largest component
/// (0 = duplicates of the centre; 1 = as wide as the centre is far from the origin), or unrelated vectors.
fn block(class: MagClass, dim: usize) -> BoxedStrategy<Vec<Vec<f32>>> {
    let clustered = (
        vector(class, dim),
        prop_oneof![1 => Just(0.0f32), 2 => Just(1e-3f32), 3 => Just(0.05f32), 2 => Just(0.3f32), 1 => Just(1.0f32)],
        proptest::collection::vec(proptest::collection::vec(-1.0f32..=1.0f32, dim), 1..10),
    )
        .prop_map(move |(centre, spread, offs)| {
            let amp = centre.iter().fold(0.0f32, |m, x| m.max(x.abs()));
            let amp = if amp == 0.0 { 1.0 } else { amp };
            offs.iter()
                .map(|o| {
                    centre
                        .iter()
                        .zip(o)
                        .map(|(c, u)| {
                            let x = c + spread * amp * u;
                            if x.is_finite() && x.abs() <= super::mag_cap(dim) as f32 { x } else { *c }
                        })
                        .collect::<Vec<f32>>()
                })
                .collect::<Vec<_>>()
        });
    prop_oneof![
        6 => clustered,
        2 => proptest::collection::vec(vector(class, dim), 1..10),
        1 => Just(Vec::new()),
    ]
    .boxed()
}

fn zm_case() -> impl Strategy<Value = ZmCase> {
    (prop_oneof![6 => 1usize..=12, 1 => Just(17usize), 1 => Just(33usize)], zm_metric(), mag_class()).prop_flat_map(|(dim, metric, class)| {
        let thr = prop_oneof![
            8 => (any::<u16>(), any::<u16>(), prop_oneof![Just(0.25f32), Just(0.5f32), Just(0.9f32), Just(0.999f32), Just(1.0f32), Just(1.001f32), Just(1.1f32), Just(2.0f32)])
                .prop_map(|(block, member, factor)| Thr::AtMember { block, member, factor }),
            1 => prop_oneof![Just(0.0f32), Just(1e-3f32), Just(0.1f32), Just(0.5f32), Just(1.0f32), Just(2.0f32), Just(-1.0f32)].prop_map(Thr::Abs),
            1 => super::component(class, dim).prop_map(|x| Thr::Abs(x.abs())),
        ];
        (
            proptest::collection::vec(block(class, dim), 1..6),
            proptest::collection::vec(vector(class, dim), 1..5),
            proptest::collection::vec(thr, 1..5),
            prop_oneof![1 => Just(0usize), 3 => Just(1usize), 6 => 2usize..=6, 1 => Just(100usize)],
        )
            .prop_map(move |(blocks, queries, thresholds, k)| ZmCase { dim, metric, class, blocks, queries, thresholds, k })
    })
}

fn norm64(v: &[f32]) -> f64 {
    v.iter().map(|x| f64::from(*x) * f64::from(*x)).sum::<f64>().sqrt()
}

fn dist64(a: &[f32], b: &[f32]) -> f64 {
    a.iter().zip(b).map(|(x, y)| (f64::from(*x) - f64::from(*y)).powi(2)).sum::<f64>().sqrt()
}

/// Statistics of `zm` against their definitions over `members` (the union the map stands for).
/// `built`: the map comes straight from `build` (radius = the definition); otherwise it was merged (radius only conservative).
fn check_stats(what: &str, zm: &VectorZoneMap, members: &[&Vec<f32>], dim: usize, built: bool) -> Result<(), Failure> {
    let n = members.len();
    if zm.count != n || zm.is_empty() != (n == 0) {
        return fail(format!("c18/zone_map/{what}/count"), format!("count {} is_empty {} for {n} members", zm.count, zm.is_empty()));
    }
    if n == 0 {
        return Ok(());
    }
    if zm.dimensions != dim || zm.centroid.len() != dim || zm.dim_min.len() != dim || zm.dim_max.len() != dim {
        return fail(format!("c18/zone_map/{what}/dimensions"), format!("{} (centroid {}, box {}/{}) vs {dim}", zm.dimensions, zm.centroid.len(), zm.dim_min.len(), zm.dim_max.len()));
    }
    let norms: Vec<f64> = members.iter().map(|v| norm64(v)).collect();
    let lo = norms.iter().copied().fold(f64::INFINITY, f64::min);
    let hi = norms.iter().copied().fold(0.0f64, f64::max);
    if !close(zm.min_magnitude, lo, lo, dim) || !close(zm.max_magnitude, hi, hi, dim) || zm.magnitude_range() != (zm.min_magnitude, zm.max_magnitude) {
        return fail(
            format!("c18/zone_map/{what}/magnitude"),
            format!("reported [{}, {}], norms span [{lo}, {hi}]; members {members:?}", zm.min_magnitude, zm.max_magnitude),
        );
    }
    let avg = zm.avg_magnitude();
    if !(avg >= zm.min_magnitude && avg <= zm.max_magnitude) {
        return fail(format!("c18/zone_map/{what}/avg-magnitude"), format!("{avg} outside [{}, {}]", zm.min_magnitude, zm.max_magnitude));
    }
    let (bmin, bmax) = zm.bounding_box();
    for i in 0..dim {
        let mn = members.iter().map(|v| v[i]).fold(f32::INFINITY, f32::min);
        let mx = members.iter().map(|v| v[i]).fold(f32::NEG_INFINITY, f32::max);
        if bmin[i] != mn || bmax[i] != mx {
            return fail(format!("c18/zone_map/{what}/bounding-box"), format!("dimension {i}: [{}, {}] vs [{mn}, {mx}]; members {members:?}", bmin[i], bmax[i]));
        }
        let mean = members.iter().map(|v| f64::from(v[i])).sum::<f64>() / n as f64;
        let mean_abs = members.iter().map(|v| f64::from(v[i]).abs()).sum::<f64>() / n as f64;
        // a length-n f32 accumulation (build) or a chain of weighted averages (merge): error proportional to mean|v_i|
        let slack = 1e-3 * mean.abs() + 8.0 * (n as f64 + 4.0) * EPS * mean_abs + 1e-30;
        if !zm.centroid[i].is_finite() || (f64::from(zm.centroid[i]) - mean).abs() > slack {
            return fail(
                format!("c18/zone_map/{what}/centroid"),
                format!("component {i}: {} vs mean {mean} (slack {slack}); members {members:?}", zm.centroid[i]),
            );
        }
    }
    // radius: largest distance from the REPORTED centroid to a member
    let r = members.iter().map(|v| dist64(v, &zm.centroid)).fold(0.0f64, f64::max);
    if built {
        if !close(zm.max_radius, r, r + hi * EPS, dim) {
            return fail(format!("c18/zone_map/{what}/max-radius"), format!("{} vs definition {r}; centroid {:?} members {members:?}", zm.max_radius, zm.centroid));
        }
    } else if !(zm.max_radius.is_finite() && f64::from(zm.max_radius) >= r - tol(r, r + hi, dim)) {
        return fail(
            format!("c18/zone_map/{what}/merged-radius-not-conservative"),
            format!("max_radius {} but a member lies {r} from the merged centroid {:?}; members {members:?}", zm.max_radius, zm.centroid),
        );
    }
    Ok(())
}

/// Slack of the pruning oracle: the tolerance of an f32 evaluation of a distance between the query and a member
/// of this block (`super::tol`), with the magnitudes in play as conditioning scale for the L2 metric.
fn prune_slack(metric: Metric, q: &[f32], members: &[&Vec<f32>], t: f64, dim: usize) -> f64 {
    let hi = members.iter().map(|v| norm64(v)).fold(0.0f64, f64::max);
    match metric {
        Metric::Cosine => tol(t, 1.0, dim),
        Metric::Dot => tol(t, norm64(q) * hi, dim),
        _ => tol(t, norm64(q) + 2.0 * hi, dim),
    }
}

/// `Some(min distance)` when the map says "skip" although a member is within the threshold.
fn wrongly_pruned(zm: &VectorZoneMap, metric: Metric, q: &[f32], t: f32, members: &[&Vec<f32>], dim: usize) -> Result<(bool, Option<(f64, usize)>), Failure> {
    let keep = guard("might_contain_within_distance", || zm.might_contain_within_distance(q, t, metric.lib()))?;
    if keep {
        return Ok((true, None));
    }
    let slack = prune_slack(metric, q, members, f64::from(t), dim);
    let mut worst: Option<(f64, usize)> = None;
    for (i, v) in members.iter().enumerate() {
        let (d, _) = ref_distance(metric, q, v);
        if d <= f64::from(t) - slack && worst.is_none_or(|(w, _)| d < w) {
            worst = Some((d, i));
        }
    }
    Ok((false, worst))
}

fn check_zm(c: &ZmCase) -> CaseResult {
    let dim = c.dim;
    let lib = c.metric.lib();
    let zms: Vec<VectorZoneMap> = c
        .blocks
        .iter()
        .map(|b| {
            let refs: Vec<&[f32]> = b.iter().map(Vec::as_slice).collect();
            guard("VectorZoneMap::build", || VectorZoneMap::build(&refs))
        })
        .collect::<Result<_, _>>()?;
    for (b, zm) in c.blocks.iter().zip(&zms) {
        let members: Vec<&Vec<f32>> = b.iter().collect();
        check_stats("build", zm, &members, dim, true)?;
    }
    // an explicitly empty map of the right dimension
    let empty = guard("VectorZoneMap::new", || VectorZoneMap::new(dim))?;
    if !empty.is_empty() || empty.count != 0 || empty.dimensions != dim {
        return fail("c18/zone_map/new", format!("{empty:?}"));
    }

    // merged maps: fold left to right (the first non-empty block seeds it)
    let mut merged = empty.clone();
    let mut union: Vec<&Vec<f32>> = Vec::new();
    let mut merged_maps: Vec<(VectorZoneMap, usize)> = Vec::new();
    for (b, zm) in c.blocks.iter().zip(&zms) {
        guard("merge", || merged.merge(zm))?;
        union.extend(b.iter());
        check_stats("merge", &merged, &union, dim, union.len() == b.len())?;
        merged_maps.push((merged.clone(), union.len()));
    }

    let thr_value = |t: &Thr, q: &Vec<f32>| -> f32 {
        match t {
            Thr::Abs(x) => *x,
            Thr::AtMember { block, member, factor } => {
                let nonempty: Vec<&Vec<Vec<f32>>> = c.blocks.iter().filter(|b| !b.is_empty()).collect();
                if nonempty.is_empty() {
                    return 1.0;
                }
                let b = nonempty[pick(*block, nonempty.len())];
                let v = &b[pick(*member, b.len())];
                let x = (ref_distance(c.metric, q, v).0 as f32) * factor;
                if x.is_finite() { x } else { 1.0 }
            }
        }
    };

    let mut pruned = 0usize;
    let mut kept = 0usize;
    for q in &c.queries {
        for t in &c.thresholds {
            let t = thr_value(t, q);
            // single blocks
            for (bi, (b, zm)) in c.blocks.iter().zip(&zms).enumerate() {
                let members: Vec<&Vec<f32>> = b.iter().collect();
                let (keep, bad) = wrongly_pruned(zm, c.metric, q, t, &members, dim)?;
                if b.is_empty() && keep {
                    // documented: an empty block never contains anything
                    return fail("c18/zone_map/empty-block-kept", format!("might_contain_within_distance = true for an empty block (threshold {t})"));
                }
                if let Some((d, i)) = bad {
                    return fail(
                        format!("c18/zone_map/pruned-a-match/{}", c.metric.name()),
                        format!(
                            "block {bi} is skipped for threshold {t} but member {i} = {:?} is at distance {d} from q = {q:?}; centroid {:?} max_radius {} box {:?}",
                            b[i], zm.centroid, zm.max_radius, zm.bounding_box()
                        ),
                    );
                }
                if !b.is_empty() {
                    if keep { kept += 1 } else { pruned += 1 }
                }
            }
            // merged prefixes
            for (mi, (zm, len)) in merged_maps.iter().enumerate() {
                let members = &union[..*len];
                let (_, bad) = wrongly_pruned(zm, c.metric, q, t, members, dim)?;
                if let Some((d, i)) = bad {
                    return fail(
                        format!("c18/zone_map/merged-pruned-a-match/{}", c.metric.name()),
                        format!(
                            "the merge of blocks 0..={mi} is skipped for threshold {t} but member {:?} is at distance {d} from q = {q:?}; centroid {:?} max_radius {}",
                            members[i], zm.centroid, zm.max_radius
                        ),
                    );
                }
            }
            // every member within t, block by block: pruning on = off (members within the slack of t are free)
            let mut on: Vec<f32> = Vec::new();
            let mut off: Vec<f32> = Vec::new();
            for (b, zm) in c.blocks.iter().zip(&zms) {
                let members: Vec<&Vec<f32>> = b.iter().collect();
                let slack = prune_slack(c.metric, q, &members, f64::from(t), dim);
                let visit = guard("might_contain_within_distance", || zm.might_contain_within_distance(q, t, lib))?;
                for v in b {
                    let d = guard("compute_distance", || compute_distance(q, v, lib))?;
                    let (dr, _) = ref_distance(c.metric, q, v);
                    if d <= t && (dr - f64::from(t)).abs() > slack {
                        off.push(d);
                        if visit {
                            on.push(d);
                        }
                    }
                }
            }
            if on.len() != off.len() {
                return fail(
                    format!("c18/zone_map/range-search-differs/{}", c.metric.name()),
                    format!("threshold {t}, q = {q:?}: {} members with pruning, {} without ({on:?} vs {off:?})", on.len(), off.len()),
                );
            }
        }
        // k nearest, blocks in order, the running k-th best as the pruning threshold
        if c.k > 0 {
            let scan = |prune: bool| -> Result<(Vec<f32>, usize), Failure> {
                let mut top: Vec<f32> = Vec::new();
                let mut skipped = 0usize;
                for (b, zm) in c.blocks.iter().zip(&zms) {
                    if prune && top.len() == c.k && !b.is_empty() {
                        let kth = top[top.len() - 1];
                        if !guard("might_contain_within_distance", || zm.might_contain_within_distance(q, kth, lib))? {
                            skipped += 1;
                            continue;
                        }
                    }
                    for v in b {
                        let d = guard("compute_distance", || compute_distance(q, v, lib))?;
                        if top.len() < c.k || d < top[top.len() - 1] {
                            let pos = top.partition_point(|x| *x <= d);
                            top.insert(pos, d);
                            top.truncate(c.k);
                        }
                    }
                }
                Ok((top, skipped))
            };
            let (off, _) = scan(false)?;
            let (on, skipped) = scan(true)?;
            let all: Vec<&Vec<f32>> = c.blocks.iter().flatten().collect();
            let same = on.len() == off.len()
                && on.iter().zip(&off).all(|(a, b)| {
                    a.to_bits() == b.to_bits() || (f64::from(*a) - f64::from(*b)).abs() <= prune_slack(c.metric, q, &all, f64::from(*b), dim)
                });
            if !same {
                return fail(
                    format!("c18/zone_map/knn-differs/{}", c.metric.name()),
                    format!("k = {}, q = {q:?}: with pruning ({skipped} blocks skipped) {on:?}, without {off:?}", c.k),
                );
            }
            if skipped > 0 {
                pruned += 1;
            }
        }
    }
    let class = format!(
        "{}/{}",
        c.metric.name(),
        match (pruned > 0, kept > 0) {
            (true, true) => "pruned+kept",
            (true, false) => "all-pruned",
            (false, true) => "none-pruned",
            (false, false) => "no-members",
        }
    );
    ok(dim >= 2 && pruned > 0 && kept > 0, class, hash_dbg(c))
}

pub fn run(r: &mut Run) {
    r.subcheck("zone_map", r.cases(20_000, 1_000_000), zm_case, check_zm);
}
