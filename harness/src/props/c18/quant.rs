//! Quantisers: only bounds that follow from each construction (the code documents empirical figures only).
//!
//! * scalar: `quantize` maps `(v - min) * 255/(max-min)` to u8 by clamping and TRUNCATING (`as u8`), `dequantize`
//!   is `min + code * (max-min)/255`; hence for v inside the trained range `|dequantize(quantize(v)) - v| <= step`
//!   per dimension, step = (max-min)/255 (a rounding quantiser would give step/2; the construction here is a floor,
//!   so a full step is what follows from it), `|v - min| <= max-min` when max-min < f32::EPSILON (one code), values
//!   outside the range clamp to code 0 / 255; `distance_u8` is the Euclidean distance of the dequantised vectors, so
//!   `|d^ - d| <= |e_a| + |e_b|`; `asymmetric_distance(q, codes)` = `|q - dequantize(codes)|`.
//! * binary: bit i = (v_i >= 0.0) (so +0.0 and -0.0 are both 1), hamming = number of sign disagreements,
//!   `approximate_euclidean` = `sqrt(2 h / dim)` (documented formula).
//! * product: each code is an arg-min centroid of its sub-vector, `reconstruct` concatenates the centroids,
//!   `distance_with_table` = squared distance to `reconstruct(codes)`, asymmetric = table distance.

use proptest::prelude::*;
use serde::{Deserialize, Serialize};

use grafeo_core::index::vector::quantization::hamming_distance_simd;
use grafeo_core::index::vector::{BinaryQuantizer, ProductQuantizer, ScalarQuantizer};

use super::{MagClass, Metric, close, mag_class, ref_distance, vector};
use crate::driver::{CaseResult, Run, fail, guard, hash_dbg, ok};

const EPS: f64 = f32::EPSILON as f64;

// ------------------------------------------------------------------------------------------------
// scalar
// ------------------------------------------------------------------------------------------------

#[derive(Clone, Debug, Serialize, Deserialize)]
pub struct ScalarCase {
    pub class: MagClass,
    pub dim: usize,
    pub train: Vec<Vec<f32>>,
    /// build with `with_ranges(min, max)` of the training set instead of `train`
    pub with_ranges: bool,
    /// interpolation weights in [0,1]: a_i = min_i + ta_i (max_i - min_i) (inside the trained range)
    pub ta: Vec<f32>,
    pub tb: Vec<f32>,
    /// an arbitrary vector (may be outside the range): clamping, asymmetric query
    pub out: Vec<f32>,
}

fn unit_weights(dim: usize) -> impl Strategy<Value = Vec<f32>> {
    proptest::collection::vec(prop_oneof![1 => Just(0.0f32), 1 => Just(1.0f32), 1 => Just(0.5f32), 6 => 0.0f32..=1.0f32], dim)
}

fn scalar_case() -> impl Strategy<Value = ScalarCase> {
    (1usize..=40, mag_class()).prop_flat_map(|(dim, class)| {
        (
            proptest::collection::vec(vector(class, dim), 1..16),
            any::<bool>(),
            unit_weights(dim),
            unit_weights(dim),
            vector(class, dim),
        )
            .prop_map(move |(train, with_ranges, ta, tb, out)| ScalarCase { class, dim, train, with_ranges, ta, tb, out })
    })
}

fn check_scalar(c: &ScalarCase) -> CaseResult {
    let dim = c.dim;
    let mut mn = vec![f32::INFINITY; dim];
    let mut mx = vec![f32::NEG_INFINITY; dim];
    for v in &c.train {
        for i in 0..dim {
            mn[i] = mn[i].min(v[i]);
            mx[i] = mx[i].max(v[i]);
        }
    }
    let sq = guard("train", || {
        if c.with_ranges {
            ScalarQuantizer::with_ranges(mn.clone(), mx.clone())
        } else {
            let refs: Vec<&[f32]> = c.train.iter().map(Vec::as_slice).collect();
            ScalarQuantizer::train(&refs)
        }
    })?;
    if sq.dimensions() != dim || sq.min_values() != mn.as_slice() {
        return fail("c18/scalar_q/params", format!("dimensions {} min {:?} vs {dim} {mn:?}", sq.dimensions(), sq.min_values()));
    }
    // per-dimension error bound that follows from the construction (+ f32 evaluation slack)
    let range: Vec<f64> = (0..dim).map(|i| f64::from(mx[i]) - f64::from(mn[i])).collect();
    let constant: Vec<bool> = range.iter().map(|r| *r < EPS).collect();
    let bound: Vec<f64> = (0..dim)
        .map(|i| {
            let slack = 8.0 * EPS * (f64::from(mn[i]).abs() + f64::from(mx[i]).abs()) + 1e-30;
            if constant[i] { range[i] + slack } else { range[i] / 255.0 * (1.0 + 1e-3) + slack }
        })
        .collect();
    let inside = |t: &Vec<f32>| -> Vec<f32> {
        (0..dim).map(|i| (mn[i] + t[i] * (mx[i] - mn[i])).clamp(mn[i], mx[i])).collect()
    };
    let a = inside(&c.ta);
    let b = inside(&c.tb);

    let mut errs = Vec::new();
    let mut codes = Vec::new();
    for (name, v) in [("a", &a), ("b", &b)] {
        let q = guard("quantize", || sq.quantize(v))?;
        if q.len() != dim {
            return fail("c18/scalar_q/code-len", format!("{} codes for dim {dim}", q.len()));
        }
        let d = guard("dequantize", || sq.dequantize(&q))?;
        let mut e2 = 0.0f64;
        for i in 0..dim {
            let e = (f64::from(d[i]) - f64::from(v[i])).abs();
            if !(e <= bound[i]) {
                return fail(
                    "c18/scalar_q/roundtrip-error",
                    format!(
                        "{name}[{i}] = {} -> code {} -> {}: error {e} > bound {} (min {} max {} step {})",
                        v[i],
                        q[i],
                        d[i],
                        bound[i],
                        mn[i],
                        mx[i],
                        range[i] / 255.0
                    ),
                );
            }
            e2 += bound[i] * bound[i];
        }
        errs.push(e2.sqrt());
        codes.push((q, d));
    }
    // distance between codes = Euclidean distance of the dequantised vectors, within |e_a| + |e_b| of the exact one
    let (qa, da) = &codes[0];
    let (qb, db) = &codes[1];
    let (d_exact, _) = ref_distance(Metric::Euclidean, &a, &b);
    // code-space definition: sqrt(sum(((qa_i - qb_i) * inv_scale_i)^2)), inv_scale = (max-min)/255 (1 for a constant dimension)
    let d_deq = (0..dim)
        .map(|i| {
            let inv = if constant[i] { 1.0 } else { range[i] / 255.0 };
            ((f64::from(qa[i]) - f64::from(qb[i])) * inv).powi(2)
        })
        .sum::<f64>()
        .sqrt();
    let dh = guard("distance_u8", || sq.distance_u8(qa, qb))?;
    if !close(dh, d_deq, d_deq, dim) {
        return fail("c18/scalar_q/distance_u8-vs-dequantized", format!("distance_u8 = {dh}, code-space definition = {d_deq}; a={a:?} b={b:?} codes {qa:?} {qb:?}"));
    }
    if (f64::from(dh) - d_exact).abs() > errs[0] + errs[1] + 1e-3 * d_exact.abs() {
        return fail(
            "c18/scalar_q/distance-error",
            format!("distance_u8 = {dh}, exact {d_exact}, allowed |e_a|+|e_b| = {}; a={a:?} b={b:?} min={mn:?} max={mx:?}", errs[0] + errs[1]),
        );
    }
    let dh2 = guard("distance_squared_u8", || sq.distance_squared_u8(qa, qb))?;
    if !close(dh2, d_deq * d_deq, d_deq * d_deq, dim) {
        return fail("c18/scalar_q/distance_squared_u8", format!("{dh2} vs {}", d_deq * d_deq));
    }
    // asymmetric: full-precision query against codes
    for (qname, q) in [("out", &c.out), ("a", &a)] {
        let (want, _) = ref_distance(Metric::Euclidean, q, db);
        let got = guard("asymmetric_distance", || sq.asymmetric_distance(q, qb))?;
        if !close(got, want, want, dim) {
            return fail("c18/scalar_q/asymmetric-vs-dequantized", format!("query {qname}: {got} vs |q - deq(b)| = {want}"));
        }
        let got2 = guard("asymmetric_distance_squared", || sq.asymmetric_distance_squared(q, qb))?;
        if !close(got2, want * want, want * want, dim) {
            return fail("c18/scalar_q/asymmetric-squared", format!("query {qname}: {got2} vs {}", want * want));
        }
        let (exact, _) = ref_distance(Metric::Euclidean, q, &b);
        if (f64::from(got) - exact).abs() > errs[1] + 1e-3 * exact.abs() {
            return fail(
                "c18/scalar_q/asymmetric-error",
                format!("query {qname}: asymmetric {got}, exact {exact}, allowed |e_b| = {}; q={q:?} b={b:?} min={mn:?} max={mx:?}", errs[1]),
            );
        }
    }
    // cosine on codes = cosine of the dequantised vectors (zero-norm convention: 1.0)
    {
        let na: f64 = da.iter().map(|x| f64::from(*x).powi(2)).sum::<f64>().sqrt();
        let nb: f64 = db.iter().map(|x| f64::from(*x).powi(2)).sum::<f64>().sqrt();
        let got = guard("cosine_distance_u8", || sq.cosine_distance_u8(qa, qb))?;
        if na * nb >= 1e-6 {
            let (want, _) = ref_distance(Metric::Cosine, da, db);
            if !close(got, want, 1.0, dim) {
                return fail("c18/scalar_q/cosine_u8", format!("cosine_distance_u8 = {got}, cosine of dequantised = {want}; deq a={da:?} b={db:?}"));
            }
        } else if na == 0.0 || nb == 0.0 {
            if got != 1.0 {
                return fail("c18/scalar_q/cosine_u8-zero", format!("{got} for a zero dequantised vector"));
            }
        }
    }
    // clamping outside the range
    let qo = guard("quantize", || sq.quantize(&c.out))?;
    let mut clamped = 0;
    for i in 0..dim {
        if constant[i] {
            continue;
        }
        if c.out[i] < mn[i] && qo[i] != 0 {
            return fail("c18/scalar_q/clamp-low", format!("out[{i}] = {} < min {} -> code {}", c.out[i], mn[i], qo[i]));
        }
        // the top code is reached by truncation: (max - min) * scale may evaluate to 254.99998, so a value within one
        // step above max may still get 254; beyond that it must be 255
        let over = f64::from(c.out[i]) - f64::from(mx[i]);
        if over > 0.0 && (qo[i] < 254 || (over > range[i] / 255.0 * 1.01 && qo[i] != 255)) {
            return fail("c18/scalar_q/clamp-high", format!("out[{i}] = {} > max {} -> code {}", c.out[i], mx[i], qo[i]));
        }
        if c.out[i] < mn[i] || c.out[i] > mx[i] {
            clamped += 1;
        }
    }
    let batch = guard("quantize_batch", || sq.quantize_batch(&[a.as_slice(), b.as_slice()]))?;
    if batch.len() != 2 || batch[0] != *qa || batch[1] != *qb {
        return fail("c18/scalar_q/quantize_batch", "differs from quantize".to_string());
    }
    let varying = constant.iter().filter(|c| !**c).count();
    let class = if varying == 0 {
        "all-constant-dims"
    } else if clamped > 0 {
        "with-clamping"
    } else {
        "in-range"
    };
    ok(varying >= 1 && c.train.len() >= 2 && a != b, class, hash_dbg(c))
}

// ------------------------------------------------------------------------------------------------
// binary
// ------------------------------------------------------------------------------------------------

#[derive(Clone, Debug, Serialize, Deserialize)]
pub struct BinaryCase {
    pub a: Vec<f32>,
    pub b: Vec<f32>,
}

fn sign_component() -> impl Strategy<Value = f32> {
    prop_oneof![
        2 => Just(0.0f32),
        2 => Just(-0.0f32),
        1 => Just(f32::MIN_POSITIVE),
        1 => Just(-f32::MIN_POSITIVE),
        1 => Just(1e-45f32),
        1 => Just(-1e-45f32),
        6 => -1.0f32..=1.0f32,
        2 => prop_oneof![Just(1e18f32), Just(-1e18f32)],
    ]
}

fn binary_case() -> impl Strategy<Value = BinaryCase> {
    prop_oneof![8 => 1usize..=70, 2 => prop_oneof![Just(63usize), Just(64), Just(65), Just(127), Just(128), Just(129), Just(200)]]
        .prop_flat_map(|dim| {
            (proptest::collection::vec(sign_component(), dim), proptest::collection::vec(sign_component(), dim))
                .prop_map(|(a, b)| BinaryCase { a, b })
        })
}

fn check_binary(c: &BinaryCase) -> CaseResult {
    let dim = c.a.len();
    let qa = guard("quantize", || BinaryQuantizer::quantize(&c.a))?;
    let qb = guard("quantize", || BinaryQuantizer::quantize(&c.b))?;
    let words = (dim + 63) / 64;
    if qa.len() != words || BinaryQuantizer::words_needed(dim) != words || BinaryQuantizer::bytes_needed(dim) != words * 8 {
        return fail("c18/binary_q/words", format!("dim {dim}: {} words", qa.len()));
    }
    for (name, v, q) in [("a", &c.a, &qa), ("b", &c.b, &qb)] {
        for w in 0..words {
            for bit in 0..64 {
                let i = w * 64 + bit;
                let got = q[w] >> bit & 1 == 1;
                // documented: 1 if >= 0, 0 if < 0; bits beyond the dimension stay 0
                let want = i < dim && v[i] >= 0.0;
                if got != want {
                    return fail("c18/binary_q/bit", format!("{name}: bit {i} = {got}, value {:?}", v.get(i)));
                }
            }
        }
    }
    let disagreements = (0..dim).filter(|&i| (c.a[i] >= 0.0) != (c.b[i] >= 0.0)).count() as u32;
    let h = guard("hamming_distance", || BinaryQuantizer::hamming_distance(&qa, &qb))?;
    if h != disagreements {
        return fail("c18/binary_q/hamming", format!("hamming {h}, sign disagreements {disagreements}; a={:?} b={:?}", c.a, c.b));
    }
    let hs = guard("hamming_distance_simd", || hamming_distance_simd(&qa, &qb))?;
    if hs != h {
        return fail("c18/binary_q/hamming-simd", format!("{hs} vs {h}"));
    }
    let hn = guard("hamming_distance_normalized", || BinaryQuantizer::hamming_distance_normalized(&qa, &qb, dim))?;
    if (f64::from(hn) - f64::from(h) / dim as f64).abs() > 1e-6 {
        return fail("c18/binary_q/normalized", format!("{hn} vs {h}/{dim}"));
    }
    let ae = guard("approximate_euclidean", || BinaryQuantizer::approximate_euclidean(&qa, &qb, dim))?;
    let want = (2.0 * f64::from(h) / dim as f64).sqrt();
    if (f64::from(ae) - want).abs() > 1e-6 * want.max(1.0) {
        return fail("c18/binary_q/approximate_euclidean", format!("{ae} vs sqrt(2*{h}/{dim}) = {want}"));
    }
    let batch = guard("quantize_batch", || BinaryQuantizer::quantize_batch(&[c.a.as_slice(), c.b.as_slice()]))?;
    if batch != vec![qa.clone(), qb.clone()] {
        return fail("c18/binary_q/quantize_batch", "differs from quantize".to_string());
    }
    let has_zero = c.a.iter().chain(&c.b).any(|x| *x == 0.0);
    let class = match (dim % 64 == 0, has_zero) {
        (true, true) => "full-words/with-zeros",
        (true, false) => "full-words",
        (false, true) => "partial-word/with-zeros",
        (false, false) => "partial-word",
    };
    ok(dim >= 2 && h > 0 && h < dim as u32, class, hash_dbg(c))
}

// ------------------------------------------------------------------------------------------------
// product
// ------------------------------------------------------------------------------------------------

#[derive(Clone, Debug, Serialize, Deserialize)]
pub struct ProductCase {
    pub class: MagClass,
    pub m: usize,
    pub sub: usize,
    pub k: usize,
    pub iters: usize,
    pub train: Vec<Vec<f32>>,
    /// `Some(flat centroids)`: build with `with_centroids` instead of k-means
    pub explicit: Option<Vec<f32>>,
    pub tests: Vec<Vec<f32>>,
    pub q: Vec<f32>,
}

fn product_case() -> impl Strategy<Value = ProductCase> {
    (1usize..=6, 1usize..=6, prop_oneof![8 => 1usize..=8, 1 => Just(16usize), 1 => Just(255usize), 1 => Just(256usize)], mag_class())
        .prop_flat_map(|(m, sub, k, class)| {
            let dim = m * sub;
            let explicit = if k <= 8 {
                proptest::option::weighted(0.3, proptest::collection::vec(super::component(class, dim), m * k * sub)).boxed()
            } else {
                Just(None).boxed()
            };
            (
                0usize..=4,
                proptest::collection::vec(vector(class, dim), 1..30),
                explicit,
                proptest::collection::vec(vector(class, dim), 1..5),
                vector(class, dim),
            )
                .prop_map(move |(iters, train, explicit, tests, q)| ProductCase { class, m, sub, k, iters, train, explicit, tests, q })
        })
}

fn sqdist(a: &[f32], b: &[f32]) -> f64 {
    a.iter().zip(b).map(|(x, y)| (f64::from(*x) - f64::from(*y)).powi(2)).sum()
}

fn check_product(c: &ProductCase) -> CaseResult {
    let dim = c.m * c.sub;
    let pq = guard("train", || match &c.explicit {
        Some(cent) => ProductQuantizer::with_centroids(c.m, c.k, dim, cent.clone()),
        None => {
            let refs: Vec<&[f32]> = c.train.iter().map(Vec::as_slice).collect();
            ProductQuantizer::train(&refs, c.m, c.k, c.iters)
        }
    })?;
    if pq.num_subvectors() != c.m || pq.num_centroids() != c.k || pq.dimensions() != dim || pq.subvector_dim() != c.sub || pq.code_size() != c.m {
        return fail("c18/product_q/params", format!("{pq:?}"));
    }
    let parts: Vec<Vec<Vec<f32>>> =
        (0..c.m).map(|p| guard("get_partition_centroids", || pq.get_partition_centroids(p).iter().map(|s| s.to_vec()).collect())).collect::<Result<_, _>>()?;
    for p in &parts {
        if p.len() != c.k || p.iter().any(|x| x.len() != c.sub || x.iter().any(|y| !y.is_finite())) {
            return fail("c18/product_q/centroid-shape", format!("{p:?}"));
        }
    }
    let table = guard("build_distance_table", || pq.build_distance_table(&c.q))?;
    if table.len() != c.m * c.k {
        return fail("c18/product_q/table-len", format!("{}", table.len()));
    }
    for p in 0..c.m {
        for j in 0..c.k {
            let want = sqdist(&c.q[p * c.sub..(p + 1) * c.sub], &parts[p][j]);
            if !close(table[p * c.k + j], want, want, c.sub) {
                return fail("c18/product_q/table-entry", format!("table[{p}][{j}] = {}, |q_sub - c|^2 = {want}", table[p * c.k + j]));
            }
        }
    }
    let mut all_codes = Vec::new();
    let mut ties = false;
    for v in c.tests.iter().chain(c.train.iter().take(3)) {
        let codes = guard("quantize", || pq.quantize(v))?;
        if codes.len() != c.m {
            return fail("c18/product_q/code-len", format!("{} codes for m={}", codes.len(), c.m));
        }
        let mut recon_want: Vec<f32> = Vec::new();
        for p in 0..c.m {
            let code = codes[p] as usize;
            if code >= c.k {
                return fail("c18/product_q/code-range", format!("code {code} >= K={}", c.k));
            }
            let sv = &v[p * c.sub..(p + 1) * c.sub];
            let dcode = sqdist(sv, &parts[p][code]);
            let dists: Vec<f64> = parts[p].iter().map(|cv| sqdist(sv, cv)).collect();
            let dmin = dists.iter().copied().fold(f64::INFINITY, f64::min);
            if dists.iter().filter(|d| **d <= dmin * (1.0 + 1e-4) + 1e-30).count() > 1 {
                ties = true;
            }
            // validity predicate: the chosen centroid is a nearest one (f32 evaluation slack 1e-4 relative)
            if dcode > dmin * (1.0 + 1e-4) + 1e-30 {
                return fail(
                    "c18/product_q/code-not-argmin",
                    format!("partition {p}: code {code} at squared distance {dcode}, nearest centroid at {dmin}; sub-vector {sv:?} centroids {:?}", parts[p]),
                );
            }
            recon_want.extend_from_slice(&parts[p][code]);
        }
        let recon = guard("reconstruct", || pq.reconstruct(&codes))?;
        if recon.len() != dim || recon.iter().zip(&recon_want).any(|(a, b)| a.to_bits() != b.to_bits()) {
            return fail("c18/product_q/reconstruct", format!("{recon:?} vs centroids {recon_want:?}"));
        }
        let want = sqdist(&c.q, &recon);
        let dt = guard("distance_with_table", || pq.distance_with_table(&table, &codes))?;
        if !close(dt, want, want, dim) {
            return fail("c18/product_q/table-distance", format!("distance_with_table = {dt}, |q - reconstruct(codes)|^2 = {want}; codes {codes:?}"));
        }
        let ad2 = guard("asymmetric_distance_squared", || pq.asymmetric_distance_squared(&c.q, &codes))?;
        let ad = guard("asymmetric_distance", || pq.asymmetric_distance(&c.q, &codes))?;
        if ad2.to_bits() != dt.to_bits() || ad.to_bits() != dt.sqrt().to_bits() {
            return fail("c18/product_q/asymmetric-vs-table", format!("asymmetric^2 {ad2}, asymmetric {ad}, table {dt}"));
        }
        all_codes.push((v.clone(), codes));
    }
    let refs: Vec<&[f32]> = all_codes.iter().map(|(v, _)| v.as_slice()).collect();
    let batch = guard("quantize_batch", || pq.quantize_batch(&refs))?;
    if batch.len() != all_codes.len() || batch.iter().zip(&all_codes).any(|(b, (_, c))| b != c) {
        return fail("c18/product_q/quantize_batch", "differs from quantize".to_string());
    }
    let class = if c.explicit.is_some() {
        "explicit-centroids"
    } else if c.train.len() < c.k {
        "trained/padded-centroids"
    } else if ties {
        "trained/ties"
    } else {
        "trained"
    };
    ok(c.k >= 2 && dim >= 2 && (c.explicit.is_some() || c.train.len() >= 2), class, hash_dbg(c))
}

pub fn run(r: &mut Run) {
    r.subcheck("scalar_q", r.cases(12_000, 600_000), scalar_case, check_scalar);
    r.subcheck("binary_q", r.cases(12_000, 600_000), binary_case, check_binary);
    r.subcheck("product_q", r.cases(3_000, 150_000), product_case, check_product);
}
