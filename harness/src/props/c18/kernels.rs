//! `kernels`: public distance kernels (SIMD dispatch) versus the f64 definitions.
//! `brute`: exact search (`brute_force_knn`, `brute_force_knn_filtered`, `batch_distances`).

use std::collections::BTreeSet;

use proptest::prelude::*;
use serde::{Deserialize, Serialize};

use grafeo_common::types::NodeId;
use grafeo_core::index::vector::{
    self as vx, batch_distances, brute_force_knn, brute_force_knn_filtered, compute_distance,
};

use super::{MagClass, Metric, close, k_value, mag_class, metric_strategy, ref_distance, tol, vector};
use crate::driver::{CaseResult, Run, fail, guard, hash_dbg, ok};

#[derive(Clone, Debug, Serialize, Deserialize)]
pub struct Pair {
    pub class: MagClass,
    pub a: Vec<f32>,
    pub b: Vec<f32>,
}

/// Kernel dimensions: 0, every residue modulo 4/8 up to 40, lane boundaries, large.
fn kernel_dim() -> impl Strategy<Value = usize> {
    prop_oneof![
        1 => Just(0usize),
        10 => 1usize..=40,
        3 => prop_oneof![Just(63usize), Just(64), Just(65), Just(127), Just(128), Just(129), Just(255), Just(256), Just(257)],
        1 => 258usize..=1100,
    ]
}

fn pair() -> impl Strategy<Value = Pair> {
    (kernel_dim(), mag_class()).prop_flat_map(|(dim, class)| {
        (
            vector(class, dim),
            prop_oneof![
                6 => vector(class, dim).prop_map(Some),
                1 => Just(None), // b = a (identical operands)
            ],
            // put the only distinguishing component in the scalar tail / in a full lane
            proptest::option::weighted(0.25, (any::<u16>(), -4.0f32..=4.0f32)),
        )
            .prop_map(move |(a, b, bump)| {
                let mut b = b.unwrap_or_else(|| a.clone());
                if let Some((i, x)) = bump {
                    if dim > 0 {
                        b = a.clone();
                        let j = crate::driver::pick(i, dim);
                        b[j] = a[j] + x;
                        if !b[j].is_finite() {
                            b[j] = a[j];
                        }
                    }
                }
                Pair { class, a, b }
            })
    })
}

fn norm64(v: &[f32]) -> f64 {
    v.iter().map(|x| f64::from(*x) * f64::from(*x)).sum::<f64>().sqrt()
}

fn check_pair(p: &Pair) -> CaseResult {
    let (a, b) = (&p.a, &p.b);
    let n = a.len();
    for m in [Metric::Cosine, Metric::Euclidean, Metric::Dot, Metric::Manhattan] {
        let (d, scale) = ref_distance(m, a, b);
        let got = guard("compute_distance", || compute_distance(a, b, m.lib()))?;
        if !close(got, d, scale, n) {
            return fail(
                format!("c18/kernels/compute_distance/{}", m.name()),
                format!("dim {n}: compute_distance = {got}, definition {d} (tolerance {}); a={a:?} b={b:?}", tol(d, scale, n)),
            );
        }
        // symmetric in its operands
        let rev = guard("compute_distance", || compute_distance(b, a, m.lib()))?;
        if !close(rev, d, scale, n) {
            return fail(format!("c18/kernels/compute_distance-rev/{}", m.name()), format!("dim {n}: {rev} vs {d}; a={a:?} b={b:?}"));
        }
    }
    let (dc, _) = ref_distance(Metric::Cosine, a, b);
    let (de, _) = ref_distance(Metric::Euclidean, a, b);
    let (dd, sd) = ref_distance(Metric::Dot, a, b);
    let (dm, _) = ref_distance(Metric::Manhattan, a, b);
    let named: [(&str, f32, f64, f64); 6] = [
        ("cosine_distance", guard("cosine_distance", || vx::cosine_distance(a, b))?, dc, 1.0),
        ("cosine_similarity", guard("cosine_similarity", || vx::cosine_similarity(a, b))?, 1.0 - dc, 1.0),
        ("euclidean_distance", guard("euclidean_distance", || vx::euclidean_distance(a, b))?, de, de),
        ("euclidean_distance_squared", guard("euclidean_distance_squared", || vx::euclidean_distance_squared(a, b))?, de * de, de * de),
        ("dot_product", guard("dot_product", || vx::dot_product(a, b))?, -dd, sd),
        ("manhattan_distance", guard("manhattan_distance", || vx::manhattan_distance(a, b))?, dm, dm),
    ];
    for (name, got, want, scale) in named {
        if !close(got, want, scale, n) {
            return fail(
                format!("c18/kernels/{name}"),
                format!("dim {n}: {name} = {got}, definition {want} (tolerance {}); a={a:?} b={b:?}", tol(want, scale, n)),
            );
        }
    }
    let na = norm64(a);
    let got = guard("l2_norm", || vx::l2_norm(a))?;
    if !close(got, na, na, n) {
        return fail("c18/kernels/l2_norm", format!("dim {n}: l2_norm = {got}, definition {na}; a={a:?}"));
    }
    // normalize: returns the magnitude; unit length afterwards, zero vector unchanged (documented)
    let mut v = a.clone();
    let ret = guard("normalize", || vx::normalize(&mut v))?;
    if !close(ret, na, na, n) {
        return fail("c18/kernels/normalize-return", format!("dim {n}: normalize returned {ret}, magnitude {na}; a={a:?}"));
    }
    if na == 0.0 {
        if v.iter().zip(a).any(|(x, y)| x.to_bits() != y.to_bits()) {
            return fail("c18/kernels/normalize-zero-changed", format!("a={a:?} -> {v:?}"));
        }
    } else {
        for i in 0..n {
            let want = f64::from(a[i]) / na;
            if (f64::from(v[i]) - want).abs() > 1e-3 * want.abs() + 4.0 * (n as f64 + 4.0) * f64::from(f32::EPSILON) {
                return fail(
                    "c18/kernels/normalize-not-unit",
                    format!("dim {n}: component {i} = {}, a[i]/|a| = {want}; |a| = {na}; a={a:?}", v[i]),
                );
            }
        }
    }
    let degenerate = n < 2 || na == 0.0 || norm64(b) == 0.0 || a == b;
    let class = format!(
        "{}{}",
        match n {
            0 => "dim0",
            1..=3 => "dim<4",
            _ if n % 8 == 0 => "dim%8=0",
            _ if n % 4 == 0 => "dim%4=0",
            _ => "dim-with-tail",
        },
        if na == 0.0 || norm64(b) == 0.0 { "/zero-operand" } else { "" }
    );
    ok(!degenerate, class, hash_dbg(p))
}

// ------------------------------------------------------------------------------------------------
// exact search
// ------------------------------------------------------------------------------------------------

#[derive(Clone, Debug, Serialize, Deserialize)]
pub struct Brute {
    pub metric: Metric,
    pub class: MagClass,
    pub dim: usize,
    /// (id, pool index): ids are distinct
    pub items: Vec<u16>,
    pub pool: Vec<Vec<f32>>,
    pub q: Vec<f32>,
    pub k: usize,
    /// filter predicate: keep ids whose bit (id % 16) is set
    pub mask: u16,
}

fn brute() -> impl Strategy<Value = Brute> {
    (super::index_dim(), metric_strategy(), mag_class()).prop_flat_map(|(dim, metric, class)| {
        (
            proptest::collection::vec(any::<u16>(), 0..50),
            proptest::collection::vec(vector(class, dim), 1..20),
            prop_oneof![3 => vector(class, dim).prop_map(Some), 1 => Just(None)],
            any::<u16>(),
            k_value(),
            prop_oneof![1 => Just(0xffffu16), 1 => Just(0u16), 4 => any::<u16>()],
        )
            .prop_map(move |(items, pool, q, qi, k, mask)| {
                let q = q.unwrap_or_else(|| pool[crate::driver::pick(qi, pool.len())].clone());
                Brute { metric, class, dim, items, pool, q, k, mask }
            })
    })
}

/// Validity predicate for "the true k nearest": right size, distinct ids from the candidate set, every
/// reported distance equals the definition, ascending, the j-th reported distance equals the reference's
/// j-th smallest distance, and nothing returned is farther than the reference's k-th (ties free).
pub(super) fn check_knn(
    what: &str,
    b: &Brute,
    cands: &[(u64, &Vec<f32>)],
    res: &[(NodeId, f32)],
) -> Result<(), crate::driver::Failure> {
    let n = cands.len();
    let want_len = b.k.min(n);
    if res.len() != want_len {
        return fail(format!("c18/brute/{what}/length"), format!("{} results, k={} n={n}", res.len(), b.k));
    }
    let mut refd: Vec<(f64, f64)> = cands.iter().map(|(_, v)| ref_distance(b.metric, &b.q, v)).collect();
    refd.sort_by(|x, y| x.0.partial_cmp(&y.0).unwrap());
    let mut seen = BTreeSet::new();
    for (j, (id, d)) in res.iter().enumerate() {
        let Some((_, v)) = cands.iter().find(|(i, _)| *i == id.0) else {
            return fail(format!("c18/brute/{what}/foreign-id"), format!("id {} not among the candidates; {res:?}", id.0));
        };
        if !seen.insert(id.0) {
            return fail(format!("c18/brute/{what}/duplicate-id"), format!("{res:?}"));
        }
        let (dr, sc) = ref_distance(b.metric, &b.q, v);
        if !close(*d, dr, sc, b.dim) {
            return fail(
                format!("c18/brute/{what}/distance-wrong/{}", b.metric.name()),
                format!("id {}: reported {d}, definition {dr}; q={:?} v={v:?}", id.0, b.q),
            );
        }
        if j > 0 && res[j - 1].1 > *d {
            return fail(format!("c18/brute/{what}/not-sorted"), format!("{res:?}"));
        }
        // j-th smallest (ties by validity): |reported_j - ref_j| within the tolerance of either
        let (rj, sj) = refd[j];
        let slack = tol(rj, sj, b.dim) + tol(dr, sc, b.dim);
        if (dr - rj).abs() > slack && (f64::from(*d) - rj).abs() > slack {
            return fail(
                format!("c18/brute/{what}/not-the-nearest"),
                format!("rank {j}: id {} at {dr} but the reference's rank-{j} distance is {rj}; {res:?}", id.0),
            );
        }
    }
    Ok(())
}

fn check_brute(b: &Brute) -> CaseResult {
    // distinct ids: position i gets id 3*i+1
    let all: Vec<(u64, &Vec<f32>)> =
        b.items.iter().enumerate().map(|(i, p)| (3 * i as u64 + 1, &b.pool[crate::driver::pick(*p, b.pool.len())])).collect();
    let lib = b.metric.lib();
    let res = guard("brute_force_knn", || brute_force_knn(all.iter().map(|(i, v)| (NodeId::new(*i), v.as_slice())), &b.q, b.k, lib))?;
    check_knn("knn", b, &all, &res)?;

    let keep = |id: u64| b.mask >> (id % 16) & 1 == 1;
    let filtered: Vec<(u64, &Vec<f32>)> = all.iter().filter(|(i, _)| keep(*i)).map(|(i, v)| (*i, *v)).collect();
    let res_f = guard("brute_force_knn_filtered", || {
        brute_force_knn_filtered(all.iter().map(|(i, v)| (NodeId::new(*i), v.as_slice())), &b.q, b.k, lib, |id| keep(id.0))
    })?;
    check_knn("filtered", b, &filtered, &res_f)?;

    let bd = guard("batch_distances", || batch_distances(all.iter().map(|(i, v)| (NodeId::new(*i), v.as_slice())), &b.q, lib))?;
    if bd.len() != all.len() {
        return fail("c18/brute/batch_distances/length", format!("{} for {} inputs", bd.len(), all.len()));
    }
    for ((id, d), (wid, v)) in bd.iter().zip(&all) {
        let (dr, sc) = ref_distance(b.metric, &b.q, v);
        if id.0 != *wid || !close(*d, dr, sc, b.dim) {
            return fail("c18/brute/batch_distances/value", format!("({}, {d}) vs ({wid}, {dr})", id.0));
        }
    }
    let n = all.len();
    let class = if n == 0 {
        "empty"
    } else if b.k == 0 {
        "k=0"
    } else if b.k < n {
        "k<n"
    } else {
        "k>=n"
    };
    ok(b.k >= 1 && b.k < n, class, hash_dbg(b))
}

pub fn run(r: &mut Run) {
    r.subcheck("kernels", r.cases(60_000, 3_000_000), pair, check_pair);
    r.subcheck("brute", r.cases(8_000, 400_000), brute, check_brute);
}
