//! `vec_storage`: the vector storage back ends (`RamStorage`, `MmapStorage`) against a `BTreeMap<id, Vec<f32>>`.
//!
//! Histories insert / overwrite / remove / get / contains / len / iterate / flush / clear-cache / close+reopen.
//! Oracle: the map. Vectors come back bit-exact (the pool holds arbitrary bit patterns: NaNs, infinities, -0.0,
//! subnormals); `remove` reports whether the id was present; `len` / `is_empty` / `contains` / `iter` agree with the map;
//! a file-backed store that is flushed, dropped and opened again (`MmapStorage::open`) holds exactly the map.
//!
//! Outside the domain (documented): a vector whose length differs from the store's dimension — `insert` debug-asserts
//! it (`test_mmap_storage_dimension_mismatch` expects the panic), so the generator never produces one; the reserved id
//! `NodeId::INVALID` (u64::MAX).

use std::collections::{BTreeMap, BTreeSet};

use proptest::prelude::*;
use serde::{Deserialize, Serialize};

use grafeo_common::types::NodeId;
use grafeo_core::index::vector::{MmapStorage, RamStorage, VectorStorage};

use crate::driver::{CaseResult, Failure, Run, fail, guard, hash_of, ok, pick, scratch_dir};

#[derive(Clone, Debug, Hash, Serialize, Deserialize)]
pub enum SOp {
    /// insert (overwrite when present) pool vector `v` under id `pick(id)`
    Insert { id: u16, v: u16 },
    /// `live`: remove the pick(id)-th present id (when any), otherwise `pick(id)` of the id space (may be absent)
    Remove { id: u16, live: bool },
    Get { id: u16 },
    /// compare everything observable with the model
    Scan,
    Flush,
    /// `MmapStorage::clear_cache` (nothing for RAM)
    ClearCache,
    /// flush, drop, `MmapStorage::open`, compare everything (nothing for RAM)
    Reopen,
}

#[derive(Clone, Debug, Hash, Serialize, Deserialize)]
pub struct StCase {
    pub dim: usize,
    pub mmap: bool,
    /// `with_cache_limit` (mmap) / `with_capacity` (RAM)
    pub limit: Option<usize>,
    pub ids: usize,
    /// ids near the top of the u64 range instead of small ones
    pub big_ids: bool,
    /// vectors as bit patterns (JSON cannot carry NaN)
    pub pool: Vec<Vec<u32>>,
    pub ops: Vec<SOp>,
}

fn bits() -> impl Strategy<Value = u32> {
    prop_oneof![
        6 => any::<u32>(),
        3 => (-4i32..=4).prop_map(|i| (i as f32).to_bits()),
        1 => prop_oneof![
            Just(0x8000_0000u32), // -0.0
            Just(0x7fc0_0000),    // NaN
            Just(0xffc0_0001),    // NaN with payload, sign set
            Just(0x7f80_0000),    // +inf
            Just(0x0000_0001),    // smallest subnormal
            Just(0x7f7f_ffff),    // f32::MAX
        ],
    ]
}

fn st_case(max_ops: usize) -> impl Strategy<Value = StCase> {
    (prop_oneof![1 => Just(0usize), 10 => 1usize..=9, 1 => Just(33usize)], proptest::bool::weighted(0.7)).prop_flat_map(move |(dim, mmap)| {
        let op = prop_oneof![
            10 => (any::<u16>(), any::<u16>()).prop_map(|(id, v)| SOp::Insert { id, v }),
            4 => (any::<u16>(), proptest::bool::weighted(0.8)).prop_map(|(id, live)| SOp::Remove { id, live }),
            3 => any::<u16>().prop_map(|id| SOp::Get { id }),
            1 => Just(SOp::Scan),
            1 => Just(SOp::Flush),
            1 => Just(SOp::ClearCache),
            3 => Just(SOp::Reopen),
        ];
        (
            prop_oneof![3 => Just(None), 1 => Just(Some(0usize)), 1 => Just(Some(1usize)), 2 => Just(Some(2usize)), 1 => Just(Some(5usize))],
            prop_oneof![3 => 1usize..=4, 3 => 4usize..=12, 1 => 12usize..=40],
            proptest::bool::weighted(0.15),
            proptest::collection::vec(proptest::collection::vec(bits(), dim), 1..8),
            proptest::collection::vec(op, 1..=max_ops),
        )
            .prop_map(move |(limit, ids, big_ids, pool, ops)| StCase { dim, mmap, limit, ids, big_ids, pool, ops })
    })
}

enum Store {
    Ram(RamStorage),
    Mmap(MmapStorage),
}

impl Store {
    fn s(&self) -> &dyn VectorStorage {
        match self {
            Store::Ram(r) => r,
            Store::Mmap(m) => m,
        }
    }
}

type Model = BTreeMap<u64, Vec<u32>>;

fn to_bits(v: &[f32]) -> Vec<u32> {
    v.iter().map(|x| x.to_bits()).collect()
}

/// Everything observable versus the model. `ctx` names the situation in the signature ("scan", "reopen").
fn compare(ctx: &str, st: &Store, c: &StCase, model: &Model, past: &BTreeMap<u64, Vec<Vec<u32>>>, space: &[u64]) -> Result<(), Failure> {
    let s = st.s();
    let sig = |k: &str| format!("c18/vec_storage/{ctx}/{k}");
    let dims = guard("dimensions", || s.dimensions())?;
    if dims != c.dim {
        return fail(sig("dimensions"), format!("{dims} vs {}", c.dim));
    }
    for id in space {
        let got = guard("get", || s.get(NodeId::new(*id)))?.map(|a| to_bits(&a));
        let has = guard("contains", || s.contains(NodeId::new(*id)))?;
        match (model.get(id), &got) {
            (Some(want), Some(g)) if g == want => {}
            (Some(want), Some(g)) => {
                let stale = past.get(id).is_some_and(|ps| ps.iter().any(|p| p == g));
                return fail(
                    sig(if stale { "stale-vector" } else { "vector-differs" }),
                    format!("id {id}: got bits {g:x?}, last written {want:x?}"),
                );
            }
            (Some(want), None) => return fail(sig("lost-id"), format!("id {id} (last written {want:x?}) is not retrievable")),
            (None, Some(g)) => {
                let was = past.contains_key(id);
                return fail(sig(if was { "removed-id-back" } else { "unknown-id" }), format!("id {id} is absent in the model but get returns {g:x?}"));
            }
            (None, None) => {}
        }
        if has != model.contains_key(id) {
            return fail(sig("contains"), format!("id {id}: contains = {has}, get = {got:?}, model has it: {}", model.contains_key(id)));
        }
    }
    let len = guard("len", || s.len())?;
    let empty = guard("is_empty", || s.is_empty())?;
    if len != model.len() || empty != model.is_empty() {
        return fail(sig("len"), format!("len {len} is_empty {empty}, model holds {} ids {:?}", model.len(), model.keys()));
    }
    guard("memory_usage", || s.memory_usage())?;
    match st {
        Store::Ram(r) => {
            let items: Vec<(u64, Vec<u32>)> = guard("iter", || r.iter().map(|(i, v)| (i.0, to_bits(&v))).collect())?;
            let as_map: Model = items.iter().cloned().collect();
            if items.len() != as_map.len() || as_map != *model {
                return fail(sig("iter"), format!("iter yields {items:x?}, model {model:x?}"));
            }
        }
        Store::Mmap(m) => {
            let size = match guard("file_size", || m.file_size())? {
                Ok(s) => s,
                Err(e) => return fail(sig("file_size-error"), format!("{e}")),
            };
            // header (64 bytes) + at least one record per live id
            let need = 64 + model.len() as u64 * (8 + 4 * c.dim as u64);
            if size < need {
                return fail(sig("file-too-small"), format!("{size} bytes for {} live vectors of dimension {} (>= {need})", model.len(), c.dim));
            }
        }
    }
    Ok(())
}

fn check_storage(c: &StCase) -> CaseResult {
    let dir = scratch_dir();
    let path = dir.path().join("vectors.bin");
    let open_store = |create: bool| -> Result<Store, Failure> {
        if !c.mmap {
            return guard("RamStorage::new", || {
                Store::Ram(match c.limit {
                    Some(cap) => RamStorage::with_capacity(c.dim, cap),
                    None => RamStorage::new(c.dim),
                })
            });
        }
        let r = guard(if create { "MmapStorage::create" } else { "MmapStorage::open" }, || {
            if create { MmapStorage::create(&path, c.dim) } else { MmapStorage::open(&path) }
        })?;
        match r {
            Ok(m) => Ok(Store::Mmap(match c.limit {
                Some(l) => m.with_cache_limit(l),
                None => m,
            })),
            Err(e) => fail(if create { "c18/vec_storage/create-error" } else { "c18/vec_storage/reopen/open-error" }, format!("{e}")),
        }
    };
    let base: u64 = if c.big_ids { u64::MAX - 1 - c.ids as u64 } else { 0 };
    let space: Vec<u64> = (0..c.ids as u64).map(|i| base + i).collect();
    let id_of = |i: u16| space[pick(i, space.len())];

    let mut st = open_store(true)?;
    let mut model: Model = BTreeMap::new();
    let mut past: BTreeMap<u64, Vec<Vec<u32>>> = BTreeMap::new();
    let mut churn = 0usize; // overwrites + effective removals so far
    let mut churn_before_reopen = false;
    let mut reopens = 0usize;
    let mut kinds: BTreeSet<&'static str> = BTreeSet::new();

    for (n, op) in c.ops.iter().chain(std::iter::once(&SOp::Scan)).enumerate() {
        match op {
            SOp::Insert { id, v } => {
                let id = id_of(*id);
                let bits = &c.pool[pick(*v, c.pool.len())];
                let vec: Vec<f32> = bits.iter().map(|b| f32::from_bits(*b)).collect();
                match guard("insert", || st.s().insert(NodeId::new(id), &vec))? {
                    Ok(()) => {}
                    Err(e) => return fail("c18/vec_storage/insert-error", format!("op {n}: {e}")),
                }
                if model.insert(id, bits.clone()).is_some() {
                    churn += 1;
                    kinds.insert("overwrite");
                }
                past.entry(id).or_default().push(bits.clone());
            }
            SOp::Remove { id, live } => {
                let id = if *live && !model.is_empty() { *model.keys().nth(pick(*id, model.len())).unwrap() } else { id_of(*id) };
                let got = guard("remove", || st.s().remove(NodeId::new(id)))?;
                let want = model.remove(&id).is_some();
                if got != want {
                    return fail("c18/vec_storage/remove-result", format!("op {n}: remove({id}) = {got}, present in the model: {want}"));
                }
                if want {
                    churn += 1;
                    kinds.insert("remove");
                }
            }
            SOp::Get { id } => {
                let id = id_of(*id);
                let got = guard("get", || st.s().get(NodeId::new(id)))?.map(|a| to_bits(&a));
                if got.as_ref() != model.get(&id) {
                    return fail("c18/vec_storage/get", format!("op {n}: get({id}) = {got:x?}, model {:x?}", model.get(&id)));
                }
            }
            SOp::Scan => compare("scan", &st, c, &model, &past, &space)?,
            SOp::Flush => {
                if let Err(e) = guard("flush", || st.s().flush())? {
                    return fail("c18/vec_storage/flush-error", format!("op {n}: {e}"));
                }
            }
            SOp::ClearCache => {
                if let Store::Mmap(m) = &st {
                    guard("clear_cache", || m.clear_cache())?;
                }
            }
            SOp::Reopen => {
                if c.mmap {
                    if let Err(e) = guard("flush", || st.s().flush())? {
                        return fail("c18/vec_storage/flush-error", format!("op {n}: {e}"));
                    }
                    drop(st);
                    st = open_store(false)?;
                    compare("reopen", &st, c, &model, &past, &space)?;
                    reopens += 1;
                    churn_before_reopen |= churn > 0;
                }
            }
        }
    }
    let class = if !c.mmap {
        if churn > 0 { "ram/churn" } else { "ram/inserts-only" }
    } else if reopens == 0 {
        "mmap/no-reopen"
    } else if churn_before_reopen {
        "mmap/reopen-after-churn"
    } else {
        "mmap/reopen-clean"
    };
    let nontrivial = c.dim >= 1 && if c.mmap { churn_before_reopen } else { churn > 0 };
    ok(nontrivial, class, hash_of(c))
}

pub fn run(r: &mut Run) {
    let max_ops = if r.is_thorough() { 120 } else { 40 };
    r.subcheck("vec_storage", r.cases(6_000, 300_000), move || st_case(max_ops), check_storage);
}
