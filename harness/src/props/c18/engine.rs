//! `engine`: the thin engine-level paths — `GrafeoDB::create_vector_index` / `vector_search` /
//! `batch_vector_search` and `VectorScanOperator` (brute force and index) over node properties.
//! The engine's index is a snapshot taken by `create_vector_index` (nothing maintains it afterwards), so the
//! histories here do not mutate after index creation; mutation histories are the `hnsw` sub-check.

use std::collections::{BTreeMap, BTreeSet};
use std::sync::Arc;

use proptest::prelude::*;
use serde::{Deserialize, Serialize};

use grafeo_common::types::{NodeId, Value};
use grafeo_core::execution::operators::{Operator, VectorScanOperator};
use grafeo_engine::GrafeoDB;

use super::kernels::{Brute, check_knn};
use super::{MagClass, Metric, close, k_value, mag_class, metric_strategy, ref_distance, vector};
use crate::driver::{CaseResult, Run, fail, guard, hash_dbg, ok, pick};

#[derive(Clone, Debug, Serialize, Deserialize)]
pub struct EngineCase {
    pub dim: usize,
    pub metric: Metric,
    /// which accepted spelling of the metric name to use
    pub alias: u16,
    pub class: MagClass,
    pub vectors: Vec<Vec<f32>>,
    /// nodes with another label / without the property (must never be returned)
    pub decoys: usize,
    pub dims_given: bool,
    pub m: Option<usize>,
    pub efc: Option<usize>,
    pub queries: Vec<Vec<f32>>,
    pub k: usize,
    pub ef: Option<usize>,
    pub chunk: usize,
}

fn engine_case() -> impl Strategy<Value = EngineCase> {
    (1usize..=12, metric_strategy(), mag_class()).prop_flat_map(|(dim, metric, class)| {
        (
            any::<u16>(),
            proptest::collection::vec(vector(class, dim), 1..40),
            0usize..3,
            any::<bool>(),
            prop_oneof![2 => Just(None), 1 => Just(Some(2usize)), 1 => Just(Some(4usize))],
            prop_oneof![2 => Just(None), 1 => Just(Some(1usize)), 1 => Just(Some(16usize))],
            proptest::collection::vec(vector(class, dim), 1..4),
            k_value().prop_filter("bounded k", |k| *k <= 1000),
            prop_oneof![2 => Just(None), 2 => k_value().prop_map(Some)],
            1usize..6,
        )
            .prop_map(move |(alias, vectors, decoys, dims_given, m, efc, queries, k, ef, chunk)| EngineCase {
                dim,
                metric,
                alias,
                class,
                vectors,
                decoys,
                dims_given,
                m,
                efc,
                queries,
                k,
                ef,
                chunk,
            })
    })
}

fn aliases(m: Metric) -> &'static [&'static str] {
    match m {
        Metric::Cosine => &["cosine", "cos", "COSINE"],
        Metric::Euclidean => &["euclidean", "l2", "euclid", "Euclidean"],
        Metric::Dot => &["dot_product", "dotproduct", "dot", "inner_product", "ip"],
        Metric::Manhattan => &["manhattan", "l1", "taxicab"],
    }
}

fn drain(op: &mut VectorScanOperator, chunk: usize) -> Result<Vec<(NodeId, f32)>, crate::driver::Failure> {
    let mut out = Vec::new();
    loop {
        match guard("VectorScanOperator::next", || op.next())? {
            Ok(Some(ch)) => {
                let rows = ch.row_count();
                if rows == 0 || rows > chunk {
                    return fail("c18/engine/scan-chunk-size", format!("chunk of {rows} rows, capacity {chunk}"));
                }
                for i in 0..rows {
                    let id = ch.column(0).and_then(|c| c.get_node_id(i));
                    let d = ch.column(1).and_then(|c| c.get_float64(i));
                    match (id, d) {
                        (Some(id), Some(d)) => out.push((id, d as f32)),
                        _ => return fail("c18/engine/scan-null", format!("row {i}: {id:?} {d:?}")),
                    }
                }
            }
            Ok(None) => return Ok(out),
            Err(e) => return fail("c18/engine/scan-error", format!("{e:?}")),
        }
    }
}

fn check_engine(c: &EngineCase) -> CaseResult {
    let db = guard("new_in_memory", GrafeoDB::new_in_memory)?;
    let ids = guard("batch_create_nodes", || db.batch_create_nodes("Doc", "emb", c.vectors.clone()))?;
    if ids.len() != c.vectors.len() || ids.iter().collect::<BTreeSet<_>>().len() != ids.len() {
        return fail("c18/engine/batch_create_nodes", format!("{ids:?}"));
    }
    for i in 0..c.decoys {
        guard("decoy", || {
            let other = db.create_node(&["Other"]);
            db.set_node_property(other, "emb", Value::Vector(c.vectors[i % c.vectors.len()].clone().into()));
            let bare = db.create_node(&["Doc"]);
            db.set_node_property(bare, "title", Value::Int64(i as i64));
        })?;
    }
    let model: BTreeMap<u64, &Vec<f32>> = ids.iter().map(|i| i.0).zip(c.vectors.iter()).collect();
    let al = aliases(c.metric);
    let name = al[pick(c.alias, al.len())];
    match guard("create_vector_index", || db.create_vector_index("Doc", "emb", c.dims_given.then_some(c.dim), Some(name), c.m, c.efc))? {
        Ok(()) => {}
        Err(e) => return fail("c18/engine/create_vector_index-error", format!("metric {name}: {e:?}")),
    }
    let store = Arc::clone(db.store());
    let Some(index) = store.get_vector_index("Doc", "emb") else {
        return fail("c18/engine/index-missing", "get_vector_index returned None".to_string());
    };
    let (sizes, _dangling, node_ids) = guard("verif_graph", || super::hnsw::reach_sizes(&index))?;
    if node_ids != model.keys().copied().collect::<Vec<_>>() {
        return fail("c18/engine/index-node-set", format!("index holds {node_ids:?}, nodes with the property {:?}", model.keys()));
    }
    let n = model.len();
    let check = |what: &str, q: &Vec<f32>, res: &[(NodeId, f32)], count: bool| -> Result<(), crate::driver::Failure> {
        if res.len() > c.k {
            return fail(format!("c18/engine/{what}/more-than-k"), format!("{} > {}", res.len(), c.k));
        }
        let mut seen = BTreeSet::new();
        for (i, (id, d)) in res.iter().enumerate() {
            let Some(v) = model.get(&id.0) else {
                return fail(format!("c18/engine/{what}/foreign-id"), format!("{} not an indexed node; {res:?}", id.0));
            };
            if !seen.insert(id.0) {
                return fail(format!("c18/engine/{what}/duplicate-id"), format!("{res:?}"));
            }
            let (dr, sc) = ref_distance(c.metric, q, v);
            if !close(*d, dr, sc, c.dim) {
                return fail(format!("c18/engine/{what}/distance-wrong/{}", c.metric.name()), format!("id {}: {d} vs {dr}; q={q:?} v={v:?}", id.0));
            }
            if i > 0 && res[i - 1].1 > *d {
                return fail(format!("c18/engine/{what}/not-sorted"), format!("{res:?}"));
            }
        }
        if count && !sizes.iter().any(|r| res.len() == c.k.min(*r)) {
            return fail(format!("c18/engine/{what}/too-few-results"), format!("{} results, k={} n={n}, reachable-set sizes {sizes:?}", res.len(), c.k));
        }
        Ok(())
    };

    let mut singles = Vec::new();
    for q in &c.queries {
        let res = match guard("vector_search", || db.vector_search("Doc", "emb", q, c.k, c.ef))? {
            Ok(r) => r,
            Err(e) => return fail("c18/engine/vector_search-error", format!("{e:?}")),
        };
        check("vector_search", q, &res, true)?;
        singles.push(res);

        // operator over the same index (its own default ef = 64 unless given)
        let mut op = VectorScanOperator::with_index(Arc::clone(&store), Arc::clone(&index), q.clone(), c.k).with_chunk_capacity(c.chunk);
        if let Some(e) = c.ef {
            op = op.with_ef(e);
        }
        let via_op = drain(&mut op, c.chunk)?;
        check("scan-index", q, &via_op, true)?;
        let direct = guard("search_with_ef", || index.search_with_ef(q, c.k, c.ef.unwrap_or(64)))?;
        if via_op.len() != direct.len() || via_op.iter().zip(&direct).any(|(a, b)| a.0 != b.0 || a.1.to_bits() != b.1.to_bits()) {
            return fail("c18/engine/scan-index-differs", format!("operator {via_op:?} vs index {direct:?}"));
        }

        // exact scan over node properties, restricted to the label
        let mut bf = VectorScanOperator::brute_force(Arc::clone(&store), "emb", q.clone(), c.k, c.metric.lib())
            .with_label("Doc")
            .with_chunk_capacity(c.chunk);
        let exact = drain(&mut bf, c.chunk)?;
        let b = Brute { metric: c.metric, class: c.class, dim: c.dim, items: vec![], pool: vec![], q: q.clone(), k: c.k, mask: 0 };
        let cands: Vec<(u64, &Vec<f32>)> = model.iter().map(|(i, v)| (*i, *v)).collect();
        if let Err(mut f) = check_knn("scan-brute", &b, &cands, &exact) {
            f.signature = f.signature.replace("c18/brute/", "c18/engine/");
            return Err(f);
        }
        // max_distance filter = the unfiltered answer restricted to d <= t
        if let Some((_, t)) = exact.get(exact.len() / 2) {
            let mut f = VectorScanOperator::brute_force(Arc::clone(&store), "emb", q.clone(), c.k, c.metric.lib())
                .with_label("Doc")
                .with_max_distance(*t)
                .with_chunk_capacity(c.chunk);
            let got = drain(&mut f, c.chunk)?;
            let want: Vec<_> = exact.iter().filter(|(_, d)| d <= t).copied().collect();
            if got.len() != want.len() || got.iter().zip(&want).any(|(a, b)| a.0 != b.0 || a.1.to_bits() != b.1.to_bits()) {
                return fail("c18/engine/scan-max-distance", format!("threshold {t}: {got:?} vs {want:?}"));
            }
        }
    }
    let batch = match guard("batch_vector_search", || db.batch_vector_search("Doc", "emb", &c.queries, c.k, c.ef))? {
        Ok(r) => r,
        Err(e) => return fail("c18/engine/batch_vector_search-error", format!("{e:?}")),
    };
    let same = batch.len() == singles.len()
        && batch.iter().zip(&singles).all(|(x, y)| x.len() == y.len() && x.iter().zip(y).all(|(a, b)| a.0 == b.0 && a.1.to_bits() == b.1.to_bits()));
    if !same {
        return fail("c18/engine/batch-differs", format!("batch {batch:?} vs one-by-one {singles:?}"));
    }
    let connected = sizes.len() == 1 && sizes.contains(&n);
    ok(c.k >= 1 && c.k < n, if connected { "connected" } else { "disconnected" }, hash_dbg(c))
}

pub fn run(r: &mut Run) {
    r.subcheck("engine", r.cases(600, 20_000), engine_case, check_engine);
}
