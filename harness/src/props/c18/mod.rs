//! C18 — vector search returns real, correctly scored, correctly ordered neighbours.
//!
//! Sub-checks (DESIGN.md §4 C18):
//! * `hnsw`       histories insert / re-insert / remove / search / batch on `HnswIndex` (seeded); result oracle +
//!                count clause through the H4 hook (`verif_graph`): reachability on the level-0 graph.
//! * `qhnsw`      the same histories on `QuantizedHnswIndex` (None / Scalar / Binary / Product, rescoring on/off).
//! * `brute`      `brute_force_knn`, `brute_force_knn_filtered`, `batch_distances` = true k nearest (validity predicate).
//! * `kernels`    every public distance kernel (SIMD dispatch) = the f64 definition.
//! * `scalar_q`, `binary_q`, `product_q`  the bounds that follow from each quantiser's construction.
//! * `engine`     `GrafeoDB::create_vector_index` / `vector_search` / `batch_vector_search`, `VectorScanOperator`.
//! * `vector_join` `VectorJoinOperator`: static / entity-to-entity queries, brute-force / HNSW right side, thresholds,
//!                label filter, left chunks with selection vectors, > 2048 left rows, `reset`.
//! * `vec_storage` `RamStorage` / `MmapStorage` histories against a map, bit-exact, close + reopen of the file.
//! * `zone_map`   `VectorZoneMap`: statistics = definitions, pruning conservative (single and merged maps),
//!                block-wise search with pruning on = off.

use proptest::prelude::*;
use serde::{Deserialize, Serialize};

use grafeo_core::index::vector::DistanceMetric;

use crate::driver::Run;

mod engine;
mod hnsw;
mod kernels;
mod quant;
mod vjoin;
mod vstorage;
mod zonemap;

// ------------------------------------------------------------------------------------------------
// Metric + f64 reference definitions
// ------------------------------------------------------------------------------------------------

#[derive(Clone, Copy, Debug, PartialEq, Eq, Hash, Serialize, Deserialize)]
pub enum Metric {
    Cosine,
    Euclidean,
    Dot,
    Manhattan,
}

impl Metric {
    pub fn lib(self) -> DistanceMetric {
        match self {
            Metric::Cosine => DistanceMetric::Cosine,
            Metric::Euclidean => DistanceMetric::Euclidean,
            Metric::Dot => DistanceMetric::DotProduct,
            Metric::Manhattan => DistanceMetric::Manhattan,
        }
    }
    pub fn name(self) -> &'static str {
        match self {
            Metric::Cosine => "cosine",
            Metric::Euclidean => "euclidean",
            Metric::Dot => "dot",
            Metric::Manhattan => "manhattan",
        }
    }
}

pub fn metric_strategy() -> impl Strategy<Value = Metric> {
    prop_oneof![Just(Metric::Cosine), Just(Metric::Euclidean), Just(Metric::Dot), Just(Metric::Manhattan)]
}

/// The plain definition of each metric in f64 (distance.rs `DistanceMetric` docs), plus the
/// conditioning scale the f32 evaluation error is proportional to:
/// * Euclidean `sqrt(sum((a-b)^2))`, Manhattan `sum(|a-b|)`: sums of non-negative terms, scale = the value;
/// * DotProduct `-sum(a*b)` (negative so that smaller = more similar): scale = `sum(|a*b|)` (cancellation);
/// * Cosine `1 - dot/(|a||b|)`: scale = 1; a zero-norm operand gives the library's constant 1.0
///   (`1 - 0/(0+eps)` in the kernels, `1 - dot(0, q)` in HNSW; tests call it "undefined, must not panic").
pub fn ref_distance(metric: Metric, a: &[f32], b: &[f32]) -> (f64, f64) {
    let n = a.len().min(b.len());
    match metric {
        Metric::Euclidean => {
            let mut s = 0.0f64;
            for i in 0..n {
                let d = f64::from(a[i]) - f64::from(b[i]);
                s += d * d;
            }
            (s.sqrt(), s.sqrt())
        }
        Metric::Manhattan => {
            let mut s = 0.0f64;
            for i in 0..n {
                s += (f64::from(a[i]) - f64::from(b[i])).abs();
            }
            (s, s)
        }
        Metric::Dot => {
            let mut s = 0.0f64;
            let mut sa = 0.0f64;
            for i in 0..n {
                let p = f64::from(a[i]) * f64::from(b[i]);
                s += p;
                sa += p.abs();
            }
            (-s, sa)
        }
        Metric::Cosine => {
            let mut s = 0.0f64;
            let mut na = 0.0f64;
            let mut nb = 0.0f64;
            for i in 0..n {
                s += f64::from(a[i]) * f64::from(b[i]);
                na += f64::from(a[i]) * f64::from(a[i]);
                nb += f64::from(b[i]) * f64::from(b[i]);
            }
            if na == 0.0 || nb == 0.0 {
                (1.0, 1.0)
            } else {
                (1.0 - s / (na.sqrt() * nb.sqrt()), 1.0)
            }
        }
    }
}

/// Stated tolerance for an f32 evaluation of a distance over `n` dimensions:
/// 1e-3 relative to the true value + the standard forward-error floor `4 (n+4) eps32 * scale`
/// (gamma_n bound of a length-n f32 accumulation, any summation order) + 1e-30.
pub fn tol(d: f64, scale: f64, n: usize) -> f64 {
    1e-3 * d.abs() + 4.0 * (n as f64 + 4.0) * f64::from(f32::EPSILON) * scale + 1e-30
}

pub fn close(got: f32, d: f64, scale: f64, n: usize) -> bool {
    got.is_finite() && (f64::from(got) - d).abs() <= tol(d, scale, n)
}

// ------------------------------------------------------------------------------------------------
// Vector generators
// ------------------------------------------------------------------------------------------------

/// Largest component magnitude for dimension `dim`: 1e18, lowered for large dimensions so that every
/// sum of squares / products an f32 kernel forms (`dim * (2 mag)^2`) stays below f32::MAX. Results that
/// are only non-finite because an f32 intermediate overflowed are outside the domain (stated assumption).
pub fn mag_cap(dim: usize) -> f64 {
    (2e38 / (4.0 * dim.max(1) as f64)).sqrt().min(1e18)
}

#[derive(Clone, Copy, Debug, PartialEq, Eq, Serialize, Deserialize)]
pub enum MagClass {
    /// small integers -2..=2 (many exact zeros, duplicates and ties)
    Ints,
    /// uniform fractions in [-1, 1]
    Unit,
    /// |x| = 10^u, u uniform in [0, log10 cap]: extreme magnitudes up to 1e18
    Huge,
    /// |x| = 10^u, u uniform in [-15, -3]: small magnitudes (squares stay normal f32 numbers)
    Tiny,
    /// every component drawn from Ints / Unit / Huge / +-1000
    Mixed,
}

pub fn mag_class() -> impl Strategy<Value = MagClass> {
    prop_oneof![
        3 => Just(MagClass::Ints),
        4 => Just(MagClass::Unit),
        2 => Just(MagClass::Huge),
        1 => Just(MagClass::Tiny),
        3 => Just(MagClass::Mixed),
    ]
}

fn huge(dim: usize) -> BoxedStrategy<f32> {
    let top = mag_cap(dim).log10();
    (any::<bool>(), 0.0f64..=1.0f64)
        .prop_map(move |(neg, u)| {
            let x = 10f64.powf(u * top).min(mag_cap(dim));
            (if neg { -x } else { x }) as f32
        })
        .boxed()
}

pub fn component(class: MagClass, dim: usize) -> BoxedStrategy<f32> {
    match class {
        MagClass::Ints => (-2i32..=2).prop_map(|i| i as f32).boxed(),
        MagClass::Unit => (-1.0f32..=1.0f32).boxed(),
        MagClass::Huge => huge(dim),
        MagClass::Tiny => (any::<bool>(), -15.0f64..=-3.0f64)
            .prop_map(|(neg, u)| {
                let x = 10f64.powf(u);
                (if neg { -x } else { x }) as f32
            })
            .boxed(),
        MagClass::Mixed => prop_oneof![
            3 => (-2i32..=2).prop_map(|i| i as f32),
            3 => -1.0f32..=1.0f32,
            1 => Just(0.0f32),
            2 => huge(dim),
            1 => -1000.0f32..=1000.0f32,
        ]
        .boxed(),
    }
}

/// One vector of `dim` components; 6 % all-zero vectors, 4 % a single non-zero component.
pub fn vector(class: MagClass, dim: usize) -> BoxedStrategy<Vec<f32>> {
    prop_oneof![
        45 => proptest::collection::vec(component(class, dim), dim),
        3 => Just(vec![0.0f32; dim]),
        2 => (component(class, dim), any::<u16>()).prop_map(move |(x, i)| {
            let mut v = vec![0.0f32; dim];
            if dim > 0 {
                v[crate::driver::pick(i, dim)] = x;
            }
            v
        }),
    ]
    .boxed()
}

/// Index dimensions: 1..=40 (all residues modulo the 4- and 8-lane kernels) and a few large ones.
pub fn index_dim() -> impl Strategy<Value = usize> {
    prop_oneof![
        12 => 1usize..=40,
        2 => prop_oneof![Just(1usize), Just(2), Just(3), Just(5), Just(7), Just(9), Just(15), Just(17), Just(31), Just(33)],
        1 => prop_oneof![Just(63usize), Just(64), Just(65), Just(257)],
    ]
}

/// k / ef values: 0, 1, small, around the index size, far above it, usize::MAX.
pub fn k_value() -> impl Strategy<Value = usize> {
    prop_oneof![
        2 => Just(0usize),
        4 => Just(1usize),
        12 => 2usize..=8,
        8 => 9usize..=70,
        2 => Just(1000usize),
        1 => Just(usize::MAX),
    ]
}

pub fn run(r: &mut Run) {
    r.level = "exploration";
    r.rule = "hnsw/qhnsw: op histories (<= 60 ops quick, <= 160 thorough) over a small id space so that re-inserts and removals \
              of live ids are frequent, vectors from a per-history pool (duplicates, zero vectors, magnitudes to 1e18), \
              dims 1..=40 + {63,64,65,257}, 4 metrics, k/ef in {0,1,..,>n,usize::MAX}; non-trivial = a search with k < n after \
              >= 1 removal or re-insert that returned >= 1 result; brute/kernels/quantisers: non-trivial = dim >= 2 and non-degenerate \
              operands (see per-sub-check classes); vector_join: non-trivial = >= 2 left rows with output rows and 1 <= k < number of \
              right candidates (classes: static|entity / brute|hnsw, +sel = left chunks carry a selection, +multichunk = > 2048 left rows, \
              +thr = a distance / similarity threshold is set); vec_storage: non-trivial = an overwrite or an effective removal before a \
              reopen (file) / anywhere (RAM), dimension >= 1; zone_map: non-trivial = dimension >= 2 and the probes of the case both skipped \
              and kept a non-empty block; distinct by hash of the case"
        .into();
    r.assumptions.push(
        "vector components are finite, |x| <= min(1e18, sqrt(2e38/(4 dim))) so that no f32 sum of squares/products overflows; \
         distance tolerance = 1e-3 relative + 4(n+4)eps32 * conditioning scale (value itself for L1/L2, sum|a_i b_i| for dot, 1 for cosine)"
            .into(),
    );
    r.assumptions.push(
        "cosine of a zero-norm vector = 1.0 (the library's constant; tests call it undefined). Non-zero components have |x| >= 1e-15 \
         (class Tiny: 1e-15..1e-3) so that squares and norms stay normal f32 numbers; subnormals appear only as sign inputs of the binary quantiser"
            .into(),
    );
    r.assumptions.push(
        "HnswConfig m >= 2 (m = 1 makes ml = 1/ln 1 infinite), ef_construction >= 1; QuantizationType::Product num_subvectors >= 1 and \
         divides the dimension (ProductQuantizer::train documents the panic); ProductQuantizer num_centroids in 1..=256"
            .into(),
    );
    r.assumptions.push(
        "count clause: len == min(k, |reach(s)|) for some node s of the level-0 graph from verif_graph() (== min(k, n) when it is \
         strongly connected); QuantizedHnswIndex has no graph hook, there only len <= k is asserted"
            .into(),
    );

    r.assumptions.push(
        "vector_join / vec_storage: every vector has the dimension of its query / store (compute_distance and VectorStorage::insert \
         debug-assert equal lengths; documented); zone_map pruning slack = the f32 evaluation tolerance of a distance between the query \
         and a member of the block (1e-3 relative to the threshold + 4(n+4)eps32 * (|q| + 2 max|v|) for L2, * 1 for cosine)"
            .into(),
    );

    hnsw::run(r);
    kernels::run(r);
    quant::run(r);
    engine::run(r);
    vjoin::run(r);
    vstorage::run(r);
    zonemap::run(r);
}
