//! `hnsw` / `qhnsw`: model-based histories on `HnswIndex` and `QuantizedHnswIndex`.

use std::collections::{BTreeMap, BTreeSet};

use proptest::prelude::*;
use serde::{Deserialize, Serialize};

use grafeo_common::types::NodeId;
use grafeo_core::index::vector::{BinaryQuantizer, HnswConfig, HnswIndex, QuantizationType, QuantizedHnswIndex};

use super::{MagClass, Metric, close, index_dim, k_value, mag_class, metric_strategy, ref_distance, tol, vector};
use crate::driver::{CaseResult, Failure, Run, fail, guard, hash_dbg, ok, pick};

#[derive(Clone, Debug, Serialize, Deserialize)]
pub enum Op {
    /// insert (or re-insert when the id is live) pool vector `v` under id `pick(id, ids)`
    Insert { id: u16, v: u16 },
    BatchInsert { items: Vec<(u16, u16)> },
    /// `live`: remove the pick(id)-th live id (when any), otherwise the id `pick(id, ids)` of the id space (may be absent)
    Remove { id: u16, live: bool },
    /// `ef: None` = `search(q, k)`, `Some(e)` = `search_with_ef(q, k, e)`
    Search { q: u16, k: usize, ef: Option<usize> },
    /// batch_search / batch_search_slices / batch_search_with_ef versus one-by-one
    Batch { qs: Vec<u16>, k: usize, ef: Option<usize>, slices: bool },
}

#[derive(Clone, Copy, Debug, PartialEq, Eq, Serialize, Deserialize)]
pub enum Quant {
    /// plain `HnswIndex`
    Plain,
    /// `QuantizedHnswIndex` with `QuantizationType::None`
    QNone,
    Scalar,
    Binary,
    /// `Product { num_subvectors: dim / sub_dim }`; `sub` picks a divisor of the dimension
    Product { sub: u16 },
}

#[derive(Clone, Debug, Serialize, Deserialize)]
pub struct History {
    pub dim: usize,
    pub metric: Metric,
    pub class: MagClass,
    pub seed: u64,
    pub ids: usize,
    pub m: Option<usize>,
    pub efc: Option<usize>,
    pub ef_default: Option<usize>,
    pub quant: Quant,
    pub rescore: bool,
    pub rescore_factor: usize,
    pub pool: Vec<Vec<f32>>,
    pub ops: Vec<Op>,
}

fn op_strategy(quantized: bool) -> impl Strategy<Value = Op> {
    let k_for = move || {
        if quantized {
            // usize::MAX on the quantized index is a separate, rare class (k * rescore_factor)
            prop_oneof![20 => k_value().prop_filter("no MAX", |k| *k != usize::MAX), 1 => Just(usize::MAX)].boxed()
        } else {
            k_value().boxed()
        }
    };
    let ef = || prop_oneof![3 => Just(None), 4 => k_value().prop_map(Some)];
    prop_oneof![
        10 => (any::<u16>(), any::<u16>()).prop_map(|(id, v)| Op::Insert { id, v }),
        1 => proptest::collection::vec((any::<u16>(), any::<u16>()), 0..6).prop_map(|items| Op::BatchInsert { items }),
        4 => (any::<u16>(), proptest::bool::weighted(0.75)).prop_map(|(id, live)| Op::Remove { id, live }),
        6 => (any::<u16>(), k_for(), ef()).prop_map(|(q, k, ef)| Op::Search { q, k, ef }),
        1 => (proptest::collection::vec(any::<u16>(), 0..4), k_for(), ef(), any::<bool>())
            .prop_map(|(qs, k, ef, slices)| Op::Batch { qs, k, ef, slices }),
    ]
}

fn divisors(dim: usize) -> Vec<usize> {
    (1..=dim).filter(|d| dim % d == 0).collect()
}

pub fn history(quantized: bool, max_ops: usize) -> impl Strategy<Value = History> {
    let quant = if quantized {
        prop_oneof![
            1 => Just(Quant::QNone),
            3 => Just(Quant::Scalar),
            3 => Just(Quant::Binary),
            3 => any::<u16>().prop_map(|sub| Quant::Product { sub }),
        ]
        .boxed()
    } else {
        Just(Quant::Plain).boxed()
    };
    (index_dim(), metric_strategy(), mag_class(), quant).prop_flat_map(move |(dim, metric, class, quant)| {
        // the large dimension only with short histories (cost)
        let ops_hi = if dim > 100 { max_ops.min(30) } else { max_ops };
        (
            any::<u64>(),
            prop_oneof![2 => 2usize..=6, 3 => 6usize..=16, 2 => 16usize..=40, 2 => 40usize..=150],
            prop_oneof![3 => Just(None), 1 => Just(Some(2usize)), 1 => Just(Some(3usize)), 1 => Just(Some(4usize)), 1 => Just(Some(8usize))],
            prop_oneof![3 => Just(None), 1 => Just(Some(1usize)), 1 => Just(Some(2usize)), 1 => Just(Some(8usize)), 1 => Just(Some(200usize))],
            prop_oneof![3 => Just(None), 1 => Just(Some(0usize)), 1 => Just(Some(1usize)), 1 => Just(Some(7usize))],
            any::<bool>(),
            1usize..=3,
            proptest::collection::vec(vector(class, dim), 1..24),
            proptest::collection::vec(op_strategy(quantized), 1..=ops_hi),
        )
            .prop_map(move |(seed, ids, m, efc, ef_default, rescore, rescore_factor, pool, ops)| History {
                dim,
                metric,
                class,
                seed,
                ids,
                m,
                efc,
                ef_default,
                quant,
                rescore: rescore || quant == Quant::Plain,
                rescore_factor,
                pool,
                ops,
            })
    })
}

enum Ix {
    Plain(HnswIndex),
    Quant(QuantizedHnswIndex),
}

impl Ix {
    fn insert(&self, id: NodeId, v: &[f32]) {
        match self {
            Ix::Plain(i) => i.insert(id, v),
            Ix::Quant(i) => i.insert(id, v),
        }
    }
    fn remove(&self, id: NodeId) -> bool {
        match self {
            Ix::Plain(i) => i.remove(id),
            Ix::Quant(i) => i.remove(id),
        }
    }
    fn len(&self) -> usize {
        match self {
            Ix::Plain(i) => i.len(),
            Ix::Quant(i) => i.len(),
        }
    }
    fn contains(&self, id: NodeId) -> bool {
        match self {
            Ix::Plain(i) => i.contains(id),
            Ix::Quant(i) => i.contains(id),
        }
    }
    fn get(&self, id: NodeId) -> Option<Vec<f32>> {
        match self {
            Ix::Plain(i) => i.get(id).map(|a| a.to_vec()),
            Ix::Quant(i) => i.get(id).map(|a| a.to_vec()),
        }
    }
    fn search(&self, q: &[f32], k: usize, ef: Option<usize>) -> Vec<(NodeId, f32)> {
        match (self, ef) {
            (Ix::Plain(i), None) => i.search(q, k),
            (Ix::Plain(i), Some(e)) => i.search_with_ef(q, k, e),
            (Ix::Quant(i), None) => i.search(q, k),
            (Ix::Quant(i), Some(e)) => i.search_with_ef(q, k, e),
        }
    }
}

struct Model {
    live: BTreeMap<u64, Vec<f32>>,
    /// every vector an id ever had (for classifying stale scores) and whether it was ever removed
    past: BTreeMap<u64, Vec<Vec<f32>>>,
    removed: BTreeSet<u64>,
    churn: usize,
}

/// The per-search result oracle. `approx_binary`: distances are the documented hamming estimate
/// (binary quantisation without rescoring, "pure quantized search").
#[allow(clippy::too_many_arguments)]
fn check_results(
    sub: &str,
    h: &History,
    model: &Model,
    q: &[f32],
    k: usize,
    res: &[(NodeId, f32)],
    approx_binary: bool,
    ctx: &str,
) -> Result<(), Failure> {
    if res.len() > k {
        return fail(format!("c18/{sub}/more-than-k"), format!("{ctx}: {} results for k={k}", res.len()));
    }
    let mut seen = BTreeSet::new();
    for (i, (id, d)) in res.iter().enumerate() {
        let id = id.0;
        if !seen.insert(id) {
            return fail(format!("c18/{sub}/duplicate-id"), format!("{ctx}: id {id} twice in {res:?}"));
        }
        let Some(v) = model.live.get(&id) else {
            let sig = if model.removed.contains(&id) { "removed-id-returned" } else { "unknown-id-returned" };
            return fail(format!("c18/{sub}/{sig}"), format!("{ctx}: id {id} is not in the index; results {res:?}"));
        };
        if approx_binary {
            let hd = BinaryQuantizer::hamming_distance(&BinaryQuantizer::quantize(q), &BinaryQuantizer::quantize(v));
            let expect = (2.0 * hd as f32 / h.dim as f32).sqrt();
            if (d - expect).abs() > 1e-6 * expect.abs() {
                return fail(
                    format!("c18/{sub}/binary-estimate-wrong"),
                    format!("{ctx}: id {id} reported {d}, sqrt(2*{hd}/{}) = {expect}", h.dim),
                );
            }
        } else {
            let (dref, scale) = ref_distance(h.metric, q, v);
            if !close(*d, dref, scale, h.dim) {
                let stale = model.past.get(&id).is_some_and(|ps| {
                    ps.iter().any(|p| {
                        let (dp, sp) = ref_distance(h.metric, q, p);
                        p != v && close(*d, dp, sp, h.dim)
                    })
                });
                let kind = if stale { "stale-vector-scored".to_string() } else { format!("distance-wrong/{}", h.metric.name()) };
                return fail(
                    format!("c18/{sub}/{kind}"),
                    format!(
                        "{ctx}: id {id} reported distance {d}, definition gives {dref} (tolerance {}); q={q:?} stored={v:?}",
                        tol(dref, scale, h.dim)
                    ),
                );
            }
        }
        if i > 0 && res[i - 1].1 > *d {
            return fail(format!("c18/{sub}/not-sorted"), format!("{ctx}: distances not ascending: {res:?}"));
        }
        if d.is_nan() {
            return fail(format!("c18/{sub}/nan-distance"), format!("{ctx}: {res:?}"));
        }
    }
    Ok(())
}

/// Sizes of the level-0 reachability sets, one per possible start node (H4 hook).
pub(super) fn reach_sizes(ix: &HnswIndex) -> (BTreeSet<usize>, bool, Vec<u64>) {
    let (_ep, nodes) = ix.verif_graph();
    let idx: BTreeMap<u64, usize> = nodes.iter().enumerate().map(|(i, (id, _))| (id.0, i)).collect();
    let n = nodes.len();
    let mut sizes = BTreeSet::new();
    let mut dangling = false;
    for s in 0..n {
        let mut seen = vec![false; n];
        let mut extra: BTreeSet<u64> = BTreeSet::new();
        let mut stack = vec![s];
        seen[s] = true;
        let mut cnt = 1usize;
        while let Some(u) = stack.pop() {
            if let Some(l0) = nodes[u].1.first() {
                for nb in l0 {
                    match idx.get(&nb.0) {
                        Some(&j) => {
                            if !seen[j] {
                                seen[j] = true;
                                cnt += 1;
                                stack.push(j);
                            }
                        }
                        None => {
                            dangling = true;
                            if extra.insert(nb.0) {
                                cnt += 1;
                            }
                        }
                    }
                }
            }
        }
        sizes.insert(cnt);
    }
    let ids = nodes.iter().map(|(id, _)| id.0).collect();
    (sizes, dangling, ids)
}

pub fn check_history(sub: &str, h: &History) -> CaseResult {
    let mut cfg = HnswConfig::new(h.dim, h.metric.lib());
    if let Some(m) = h.m {
        cfg = cfg.with_m(m);
    }
    if let Some(e) = h.efc {
        cfg = cfg.with_ef_construction(e);
    }
    if let Some(e) = h.ef_default {
        cfg = cfg.with_ef(e);
    }
    let qt = match h.quant {
        Quant::Plain | Quant::QNone => QuantizationType::None,
        Quant::Scalar => QuantizationType::Scalar,
        Quant::Binary => QuantizationType::Binary,
        Quant::Product { sub } => {
            let ds = divisors(h.dim);
            let sub_dim = ds[pick(sub, ds.len())];
            QuantizationType::Product { num_subvectors: h.dim / sub_dim }
        }
    };
    let ix = guard("new", || {
        if h.quant == Quant::Plain {
            Ix::Plain(HnswIndex::with_seed(cfg.clone(), h.seed))
        } else {
            let mut q = QuantizedHnswIndex::with_seed(cfg.clone(), qt, h.seed)
                .with_training_threshold(10)
                .with_rescore_factor(h.rescore_factor);
            if !h.rescore {
                q = q.without_rescore();
            }
            Ix::Quant(q)
        }
    })?;
    let approx_binary = h.quant == Quant::Binary && !h.rescore;

    let mut model = Model { live: BTreeMap::new(), past: BTreeMap::new(), removed: BTreeSet::new(), churn: 0 };
    let mut nontrivial = false;
    let mut searches = 0usize;
    let mut disconnected_searches = 0usize;
    let mut short_results = 0usize;
    let mut inserts = 0usize;
    let vec_of = |i: u16| -> &Vec<f32> { &h.pool[pick(i, h.pool.len())] };
    let id_of = |i: u16| -> u64 { pick(i, h.ids) as u64 };

    let do_insert = |model: &mut Model, id: u64, v: &Vec<f32>| {
        if model.live.contains_key(&id) {
            model.churn += 1;
        }
        model.live.insert(id, v.clone());
        model.past.entry(id).or_default().push(v.clone());
    };

    for (step, op) in h.ops.iter().enumerate() {
        match op {
            Op::Insert { id, v } => {
                let (id, v) = (id_of(*id), vec_of(*v));
                guard("insert", || ix.insert(NodeId::new(id), v))?;
                inserts += 1;
                do_insert(&mut model, id, v);
            }
            Op::BatchInsert { items } => {
                let items: Vec<(u64, &Vec<f32>)> = items.iter().map(|(i, v)| (id_of(*i), vec_of(*v))).collect();
                guard("batch_insert", || match &ix {
                    Ix::Plain(p) => p.batch_insert(items.iter().map(|(i, v)| (NodeId::new(*i), v.as_slice()))),
                    Ix::Quant(p) => p.batch_insert(items.iter().map(|(i, v)| (NodeId::new(*i), v.as_slice()))),
                })?;
                for (id, v) in items {
                    inserts += 1;
                    do_insert(&mut model, id, v);
                }
            }
            Op::Remove { id, live } => {
                let id = if *live && !model.live.is_empty() {
                    *model.live.keys().nth(pick(*id, model.live.len())).unwrap()
                } else {
                    id_of(*id)
                };
                let got = guard("remove", || ix.remove(NodeId::new(id)))?;
                let expect = model.live.remove(&id).is_some();
                if expect {
                    model.removed.insert(id);
                    model.churn += 1;
                }
                if got != expect {
                    return fail(format!("c18/{sub}/remove-return"), format!("step {step}: remove({id}) = {got}, model says {expect}"));
                }
                if guard("contains", || ix.contains(NodeId::new(id)))? {
                    return fail(format!("c18/{sub}/contains-after-remove"), format!("step {step}: id {id}"));
                }
            }
            Op::Search { q, k, ef } => {
                let q = vec_of(*q);
                let res = guard("search", || ix.search(q, *k, *ef))?;
                let ctx = format!("step {step} search(k={k}, ef={ef:?})");
                check_results(sub, h, &model, q, *k, &res, approx_binary, &ctx)?;
                searches += 1;
                let n = model.live.len();
                if let Ix::Plain(p) = &ix {
                    let (sizes, dangling, ids) = guard("verif_graph", || reach_sizes(p))?;
                    let model_ids: Vec<u64> = model.live.keys().copied().collect();
                    if ids != model_ids {
                        return fail(format!("c18/{sub}/node-set"), format!("{ctx}: index holds {ids:?}, model {model_ids:?}"));
                    }
                    let connected = sizes.len() == 1 && sizes.contains(&n);
                    if !connected {
                        disconnected_searches += 1;
                    }
                    // len == min(k, |reach(start)|) for the (unknown) start node of the level-0 beam search
                    if n > 0 && !sizes.iter().any(|r| res.len() == (*k).min(*r)) {
                        return fail(
                            format!("c18/{sub}/too-few-results"),
                            format!(
                                "{ctx}: {} results, n={n}, level-0 reachable-set sizes {sizes:?} (dangling links: {dangling})",
                                res.len()
                            ),
                        );
                    }
                    if n == 0 && !res.is_empty() {
                        return fail(format!("c18/{sub}/results-from-empty"), format!("{ctx}: {res:?}"));
                    }
                }
                if res.len() < (*k).min(n) {
                    short_results += 1;
                }
                if model.churn > 0 && *k >= 1 && *k < n {
                    nontrivial = true;
                }
            }
            Op::Batch { qs, k, ef, slices } => {
                let qv: Vec<Vec<f32>> = qs.iter().map(|q| vec_of(*q).clone()).collect();
                let batch: Vec<Vec<(NodeId, f32)>> = guard("batch_search", || match (&ix, ef, slices) {
                    (Ix::Plain(p), None, false) => p.batch_search(&qv, *k),
                    (Ix::Plain(p), None, true) => {
                        let sl: Vec<&[f32]> = qv.iter().map(Vec::as_slice).collect();
                        p.batch_search_slices(&sl, *k)
                    }
                    (Ix::Plain(p), Some(e), _) => p.batch_search_with_ef(&qv, *k, *e),
                    (Ix::Quant(p), _, _) => p.batch_search(&qv, *k),
                })?;
                let eff_ef = if matches!(ix, Ix::Quant(_)) { None } else { *ef };
                if batch.len() != qv.len() {
                    return fail(format!("c18/{sub}/batch-len"), format!("step {step}: {} answers for {} queries", batch.len(), qv.len()));
                }
                for (i, q) in qv.iter().enumerate() {
                    let one = guard("search", || ix.search(q, *k, eff_ef))?;
                    let same = one.len() == batch[i].len()
                        && one.iter().zip(&batch[i]).all(|(a, b)| a.0 == b.0 && a.1.to_bits() == b.1.to_bits());
                    if !same {
                        return fail(
                            format!("c18/{sub}/batch-differs"),
                            format!("step {step} query {i} k={k} ef={eff_ef:?}: batch {:?} vs single {one:?}", batch[i]),
                        );
                    }
                    check_results(sub, h, &model, q, *k, &one, approx_binary, &format!("step {step} batch[{i}](k={k})"))?;
                }
            }
        }
        // state observers after every op
        let len = guard("len", || ix.len())?;
        if len != model.live.len() {
            return fail(format!("c18/{sub}/len"), format!("step {step}: len() = {len}, model {}", model.live.len()));
        }
        if let Op::Insert { id, .. } = op {
            let id = id_of(*id);
            if !guard("contains", || ix.contains(NodeId::new(id)))? {
                return fail(format!("c18/{sub}/contains-after-insert"), format!("step {step}: id {id}"));
            }
            if h.metric != Metric::Cosine {
                let got = guard("get", || ix.get(NodeId::new(id)))?;
                let want = &model.live[&id];
                let same = got.as_ref().is_some_and(|g| g.len() == want.len() && g.iter().zip(want).all(|(a, b)| a.to_bits() == b.to_bits()));
                if !same {
                    return fail(format!("c18/{sub}/get-differs"), format!("step {step}: get({id}) = {got:?}, inserted {want:?}"));
                }
            }
        }
    }

    let trained = if inserts >= 10 { "-trained" } else { "-untrained" };
    let class = if searches == 0 {
        "no-search".to_string()
    } else if !matches!(ix, Ix::Plain(_)) {
        match (h.quant, h.rescore) {
            (Quant::QNone, _) => "q-none".to_string(),
            (Quant::Scalar, true) => format!("q-scalar-rescore{trained}"),
            (Quant::Scalar, false) => format!("q-scalar{trained}"),
            (Quant::Binary, true) => "q-binary-rescore".to_string(),
            (Quant::Binary, false) => "q-binary".to_string(),
            (Quant::Product { .. }, true) => format!("q-product-rescore{trained}"),
            _ => format!("q-product{trained}"),
        }
    } else if short_results > 0 {
        "searched-disconnected-short".to_string()
    } else if disconnected_searches > 0 {
        "searched-disconnected".to_string()
    } else {
        "searched-connected".to_string()
    };
    ok(nontrivial, class, hash_dbg(h))
}

pub fn run(r: &mut Run) {
    let max_ops = if r.is_thorough() { 160 } else { 60 };
    r.subcheck("hnsw", r.cases(6_000, 250_000), || history(false, max_ops), |h: &History| check_history("hnsw", h));
    r.subcheck("qhnsw", r.cases(2_500, 100_000), || history(true, max_ops), |h: &History| check_history("qhnsw", h));
}
