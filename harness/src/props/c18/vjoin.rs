//! `vector_join`: `VectorJoinOperator` (static query and entity-to-entity; brute force and HNSW right side).
//!
//! Documented behaviour (vector_join.rs): output = [left columns..., right node, score]; per left row the `k` nearest
//! right entities (nodes carrying a vector under `right_property`, restricted to `right_label` on the brute-force
//! path); `with_max_distance` keeps `distance <= t`; `with_min_similarity` keeps `1 - distance >= s` under the cosine
//! metric only; a left row without a query vector (entity mode: NULL id, property missing or not a vector) produces
//! nothing. Left chunks are ordinary `DataChunk`s, i.e. they may carry a selection vector (what `FilterOperator`
//! emits) — the logical rows are the selected ones.
//!
//! Oracle: the model of the store (live nodes, their label and CURRENT vector) and the f64 definitions:
//! * the output rows, grouped by the left ordinal column, appear in left order, each group copies its left row's
//!   columns, holds distinct live candidates, distances by definition, ascending, at most `k`, thresholds respected;
//! * brute-force path: each group is a prefix of the true k nearest (ties by validity predicate, as `brute`), its
//!   length bounded below / above by the number of reference neighbours strictly inside / inside-or-at the threshold;
//! * index path: each group equals `search_with_ef(q, k, ef)` on the same index + the documented filters, and is sound
//!   with respect to the index's live set (ids removed from the index never appear);
//! * `reset()` after any number of pulls, then a full drain = the same rows; `next()` after exhaustion stays `None`.
//!
//! Outside the domain (documented preconditions): vectors of a dimension other than the query's (`compute_distance`
//! debug-asserts equal lengths), chunk capacity 0.

use std::collections::{BTreeMap, BTreeSet};
use std::sync::Arc;

use proptest::prelude::*;
use serde::{Deserialize, Serialize};

use grafeo_common::types::{LogicalType, NodeId, Value};
use grafeo_core::execution::operators::{Operator, OperatorResult, VectorJoinOperator};
use grafeo_core::execution::{DataChunk, SelectionVector, ValueVector};
use grafeo_core::graph::lpg::LpgStore;
use grafeo_core::index::vector::{HnswConfig, HnswIndex};

use super::{MagClass, Metric, close, k_value, mag_class, metric_strategy, ref_distance, tol, vector};
use crate::driver::{CaseResult, Failure, Run, fail, guard, hash_dbg, ok, pick};

const LABELS: [&str; 3] = ["Item", "Other", "Src"];

#[derive(Clone, Copy, Debug, PartialEq, Eq, Serialize, Deserialize)]
pub enum Prop {
    /// a vector from the pool
    Vector(u16),
    Missing,
    /// an integer under the same key (not a vector)
    Int,
}

#[derive(Clone, Debug, Serialize, Deserialize)]
pub struct NodeSpec {
    pub label: u8,
    /// right-side property `emb`
    pub emb: Prop,
    /// left-side property `q`
    pub q: Prop,
}

#[derive(Clone, Debug, Serialize, Deserialize)]
pub struct LeftRow {
    /// `None` = NULL in the node column
    pub node: Option<u16>,
    pub payload: Option<i64>,
    /// physical row is in the chunk's selection (only when `use_selection`)
    pub selected: bool,
}

#[derive(Clone, Debug, Serialize, Deserialize)]
pub struct IndexSpec {
    pub seed: u64,
    pub m: Option<usize>,
    pub ef: Option<usize>,
    /// candidates removed from the index after the build
    pub removed: Vec<u16>,
}

#[derive(Clone, Debug, Serialize, Deserialize)]
pub enum Thr {
    None,
    Abs(f32),
    /// the reference distance from the first usable query to the pick-th candidate (so that some pass and some fail)
    AtCandidate(u16),
}

#[derive(Clone, Debug, Serialize, Deserialize)]
pub struct JoinCase {
    pub dim: usize,
    pub metric: Metric,
    pub class: MagClass,
    pub pool: Vec<Vec<f32>>,
    pub nodes: Vec<NodeSpec>,
    /// (node, pool vector): `emb` replaced after creation
    pub overwrites: Vec<(u16, u16)>,
    /// nodes deleted from the store before the join
    pub deleted: Vec<u16>,
    /// `Some` = static query vector, `None` = entity-to-entity
    pub static_q: Option<Vec<f32>>,
    /// entity mode reads the left vector from `emb` (self-join) instead of `q`
    pub left_is_emb: bool,
    pub left: Vec<LeftRow>,
    pub left_chunk: usize,
    pub use_selection: bool,
    /// 0 = no label filter, 1 = "Item", 2 = a label no node has
    pub right_label: u8,
    pub index: Option<IndexSpec>,
    pub k: usize,
    pub max_distance: Thr,
    pub min_similarity: Thr,
    pub out_chunk: usize,
    /// pull this many chunks, `reset()`, then drain
    pub reset_after: Option<u8>,
}

fn prop_kind() -> impl Strategy<Value = Prop> {
    prop_oneof![8 => any::<u16>().prop_map(Prop::Vector), 1 => Just(Prop::Missing), 1 => Just(Prop::Int)]
}

fn thr(class: MagClass, dim: usize) -> impl Strategy<Value = Thr> {
    prop_oneof![
        5 => Just(Thr::None),
        4 => any::<u16>().prop_map(Thr::AtCandidate),
        1 => prop_oneof![Just(0.0f32), Just(0.5f32), Just(1.0f32), Just(2.0f32), Just(-1.0f32)].prop_map(Thr::Abs),
        1 => super::component(class, dim).prop_map(|x| Thr::Abs(x.abs())),
    ]
}

fn join_case() -> impl Strategy<Value = JoinCase> {
    (1usize..=12, metric_strategy(), mag_class(), proptest::bool::weighted(0.04)).prop_flat_map(|(dim, metric, class, big)| {
        let left_len = if big { 2049usize..2500 } else { 1usize..40 };
        let nodes_hi = if big { 8usize } else { 30 };
        let left_chunk = if big { prop_oneof![Just(2048usize), Just(700usize)].boxed() } else { prop_oneof![3 => 1usize..=5, 1 => Just(2048usize)].boxed() };
        let node = (prop_oneof![4 => Just(0u8), 2 => Just(1u8), 1 => Just(2u8)], prop_kind(), prop_kind()).prop_map(|(label, emb, q)| NodeSpec { label, emb, q });
        let left_row = (proptest::option::weighted(0.93, any::<u16>()), proptest::option::weighted(0.8, -3i64..=3), proptest::bool::weighted(0.6))
            .prop_map(|(node, payload, selected)| LeftRow { node, payload, selected });
        let index = proptest::option::weighted(
            0.35,
            (
                any::<u64>(),
                prop_oneof![2 => Just(None), 1 => Just(Some(2usize)), 1 => Just(Some(4usize))],
                prop_oneof![2 => Just(None), 2 => k_value().prop_map(Some)],
                proptest::collection::vec(any::<u16>(), 0..3),
            )
                .prop_map(|(seed, m, ef, removed)| IndexSpec { seed, m, ef, removed }),
        );
        (
            (
                proptest::collection::vec(vector(class, dim), 1..12),
                proptest::collection::vec(node, 1..=nodes_hi),
                proptest::collection::vec((any::<u16>(), any::<u16>()), 0..3),
                proptest::collection::vec(any::<u16>(), 0..3),
                proptest::option::weighted(0.4, vector(class, dim)),
                any::<bool>(),
                proptest::collection::vec(left_row, left_len),
                left_chunk,
            ),
            (
                proptest::bool::weighted(0.3),
                prop_oneof![3 => Just(0u8), 3 => Just(1u8), 1 => Just(2u8)],
                index,
                k_value().prop_filter("bounded k", |k| *k <= 1000),
                thr(class, dim),
                thr(class, dim),
                prop_oneof![3 => 1usize..=7, 1 => Just(1024usize)],
                proptest::option::weighted(0.3, 0u8..4),
            ),
        )
            .prop_map(move |((pool, nodes, overwrites, deleted, static_q, left_is_emb, left, left_chunk), (use_selection, right_label, index, k, max_distance, min_similarity, out_chunk, reset_after))| {
                JoinCase {
                    dim,
                    metric,
                    class,
                    pool,
                    nodes,
                    overwrites,
                    deleted,
                    static_q,
                    left_is_emb,
                    left,
                    left_chunk,
                    use_selection,
                    right_label,
                    index,
                    k,
                    max_distance,
                    min_similarity,
                    out_chunk,
                    reset_after,
                }
            })
    })
}

struct ChunkSrc {
    chunks: Vec<DataChunk>,
    pos: usize,
}

impl Operator for ChunkSrc {
    fn next(&mut self) -> OperatorResult {
        if self.pos < self.chunks.len() {
            self.pos += 1;
            Ok(Some(self.chunks[self.pos - 1].clone()))
        } else {
            Ok(None)
        }
    }
    fn reset(&mut self) {
        self.pos = 0;
    }
    fn name(&self) -> &'static str {
        "ChunkSrc"
    }
}

#[derive(Clone, Debug, PartialEq)]
struct OutRow {
    left_node: Option<u64>,
    ordinal: i64,
    payload: Option<i64>,
    right: u64,
    dist: f32,
}

/// `max_rows`: no correct output is longer (left rows x min(k, candidates)); more is reported instead of collected forever.
fn drain(op: &mut VectorJoinOperator, cap: usize, max_chunks: Option<usize>, max_rows: usize) -> Result<Vec<OutRow>, Failure> {
    let mut out = Vec::new();
    let mut pulled = 0usize;
    loop {
        if max_chunks.is_some_and(|m| pulled >= m) {
            return Ok(out);
        }
        if out.len() > max_rows {
            return fail(
                "c18/vector_join/more-rows-than-left-x-k",
                format!("{} rows after {pulled} chunks, at most {max_rows} possible; the last rows: {:?}", out.len(), &out[out.len().saturating_sub(6)..]),
            );
        }
        match guard("VectorJoinOperator::next", || op.next())? {
            Ok(Some(ch)) => {
                pulled += 1;
                let rows = ch.row_count();
                if rows == 0 || rows > cap {
                    return fail("c18/vector_join/chunk-size", format!("chunk of {rows} rows, capacity {cap}"));
                }
                if ch.column_count() != 5 || (0..5).any(|j| ch.column(j).is_none_or(|c| c.len() != rows)) {
                    return fail(
                        "c18/vector_join/columns-misaligned",
                        format!("{} columns with lengths {:?} for {rows} rows", ch.column_count(), (0..ch.column_count()).map(|j| ch.column(j).map(ValueVector::len)).collect::<Vec<_>>()),
                    );
                }
                for i in 0..rows {
                    let ordinal = ch.column(1).and_then(|c| c.get_int64(i));
                    let right = ch.column(3).and_then(|c| c.get_node_id(i));
                    let dist = ch.column(4).and_then(|c| c.get_float64(i));
                    match (ordinal, right, dist) {
                        (Some(ordinal), Some(right), Some(d)) => out.push(OutRow {
                            left_node: ch.column(0).and_then(|c| c.get_node_id(i)).map(|n| n.0),
                            ordinal,
                            payload: ch.column(2).and_then(|c| c.get_int64(i)),
                            right: right.0,
                            dist: d as f32,
                        }),
                        other => return fail("c18/vector_join/null-in-output", format!("row {i}: (ordinal, right, score) = {other:?}")),
                    }
                }
            }
            Ok(None) => {
                // exhausted stays exhausted
                match guard("VectorJoinOperator::next", || op.next())? {
                    Ok(None) => return Ok(out),
                    other => return fail("c18/vector_join/next-after-end", format!("{:?}", other.map(|c| c.map(|c| c.row_count())))),
                }
            }
            Err(e) => return fail("c18/vector_join/error", format!("{e:?}")),
        }
    }
}

/// Failures of a case whose left chunks carry a selection vector get the signature prefix
/// `c18/vector_join/with-left-selection/` (one root cause on the pinned tree: the operator indexes the physical
/// rows `0..row_count()` of a chunk instead of its selected rows, which shows up as rows for unselected left rows,
/// wrong left columns, missing groups ...).
fn check_join(c: &JoinCase) -> CaseResult {
    let sel = c.use_selection && c.left.chunks(c.left_chunk.max(1)).any(|p| p.iter().any(|r| !r.selected) && p.iter().any(|r| r.selected) || p.len() > 1 && !p.iter().any(|r| r.selected));
    check_join_inner(c).map_err(|mut f| {
        if sel && f.signature.starts_with("c18/vector_join/") {
            f.signature = f.signature.replacen("c18/vector_join/", "c18/vector_join/with-left-selection/", 1);
        }
        f
    })
}

fn check_join_inner(c: &JoinCase) -> CaseResult {
    let lib = c.metric.lib();
    let store = Arc::new(guard("LpgStore::new", LpgStore::new)?);
    let vec_of = |i: u16| -> &Vec<f32> { &c.pool[pick(i, c.pool.len())] };

    // ---- build the store and its model ------------------------------------------------------------------
    let mut ids: Vec<NodeId> = Vec::new();
    let mut emb: Vec<Option<Vec<f32>>> = Vec::new(); // current right-side vector per node
    let mut qv: Vec<Option<Vec<f32>>> = Vec::new();
    for (n, spec) in c.nodes.iter().enumerate() {
        let id = guard("create_node", || store.create_node(&[LABELS[spec.label as usize]]))?;
        let set = |key: &str, p: Prop| -> Result<Option<Vec<f32>>, Failure> {
            match p {
                Prop::Vector(i) => {
                    let v = vec_of(i).clone();
                    guard("set_node_property", || store.set_node_property(id, key, Value::Vector(v.clone().into())))?;
                    Ok(Some(v))
                }
                Prop::Int => {
                    guard("set_node_property", || store.set_node_property(id, key, Value::Int64(n as i64)))?;
                    Ok(None)
                }
                Prop::Missing => Ok(None),
            }
        };
        emb.push(set("emb", spec.emb)?);
        qv.push(set("q", spec.q)?);
        ids.push(id);
    }
    if ids.iter().collect::<BTreeSet<_>>().len() != ids.len() {
        return fail("c18/vector_join/setup", format!("create_node returned duplicate ids {ids:?}"));
    }
    for (n, v) in &c.overwrites {
        let n = pick(*n, ids.len());
        let v = vec_of(*v).clone();
        guard("set_node_property", || store.set_node_property(ids[n], "emb", Value::Vector(v.clone().into())))?;
        emb[n] = Some(v);
    }
    let mut alive = vec![true; ids.len()];
    for n in &c.deleted {
        let n = pick(*n, ids.len());
        let was = alive[n];
        let got = guard("delete_node", || store.delete_node(ids[n]))?;
        if got != was {
            return fail("c18/vector_join/setup", format!("delete_node({:?}) = {got}, node alive: {was}", ids[n]));
        }
        alive[n] = false;
    }
    let label_ok = |n: usize| match c.right_label {
        0 => true,
        1 => c.nodes[n].label == 0,
        _ => false,
    };

    // ---- right side: the candidates the documented behaviour defines ----------------------------------------
    let index: Option<Arc<HnswIndex>> = match &c.index {
        None => None,
        Some(spec) => {
            let mut cfg = HnswConfig::new(c.dim, lib);
            if let Some(m) = spec.m {
                cfg = cfg.with_m(m);
            }
            let ix = guard("HnswIndex::with_seed", || HnswIndex::with_seed(cfg, spec.seed))?;
            Some(Arc::new(ix))
        }
    };
    let mut cands: BTreeMap<u64, &Vec<f32>> = BTreeMap::new();
    if let (Some(ix), Some(spec)) = (&index, &c.index) {
        // the index is built the way the engine builds one: live :Item nodes carrying a vector
        let members: Vec<usize> = (0..ids.len()).filter(|n| alive[*n] && c.nodes[*n].label == 0 && emb[*n].is_some()).collect();
        for n in &members {
            guard("HnswIndex::insert", || ix.insert(ids[*n], emb[*n].as_ref().unwrap()))?;
            cands.insert(ids[*n].0, emb[*n].as_ref().unwrap());
        }
        if !members.is_empty() {
            for r in &spec.removed {
                let n = members[pick(*r, members.len())];
                let want = cands.remove(&ids[n].0).is_some();
                let got = guard("HnswIndex::remove", || ix.remove(ids[n]))?;
                if got != want {
                    return fail("c18/vector_join/setup", format!("HnswIndex::remove({:?}) = {got}, member: {want}", ids[n]));
                }
            }
        }
    } else {
        for n in 0..ids.len() {
            if alive[n] && label_ok(n) {
                if let Some(v) = &emb[n] {
                    cands.insert(ids[n].0, v);
                }
            }
        }
    }

    // ---- left input -----------------------------------------------------------------------------------------
    // a left row that references a deleted node is given a NULL id (upstream operators do not emit deleted nodes)
    struct L {
        node: Option<usize>,
        payload: Option<i64>,
    }
    let mut logical: Vec<(i64, L)> = Vec::new();
    let mut chunks: Vec<DataChunk> = Vec::new();
    for (ci, part) in c.left.chunks(c.left_chunk.max(1)).enumerate() {
        let mut col_node = ValueVector::with_type(LogicalType::Node);
        let mut col_ord = ValueVector::with_type(LogicalType::Int64);
        let mut col_pay = ValueVector::with_type(LogicalType::Int64);
        let mut sel: Vec<bool> = Vec::new();
        for (ri, row) in part.iter().enumerate() {
            let ordinal = (ci * c.left_chunk.max(1) + ri) as i64;
            let node = row.node.map(|n| pick(n, ids.len())).filter(|n| alive[*n]);
            match node {
                Some(n) => col_node.push_node_id(ids[n]),
                None => col_node.push_value(Value::Null),
            }
            col_ord.push_int64(ordinal);
            match row.payload {
                Some(p) => col_pay.push_int64(p),
                None => col_pay.push_value(Value::Null),
            }
            // upstream operators never emit a chunk without selected rows (FilterOperator skips them): the last
            // physical row of a chunk is selected when no other is
            let selected = !c.use_selection || row.selected || (ri + 1 == part.len() && !part.iter().any(|r| r.selected));
            sel.push(selected);
            if selected {
                logical.push((ordinal, L { node, payload: row.payload }));
            }
        }
        let mut chunk = DataChunk::new(vec![col_node, col_ord, col_pay]);
        if c.use_selection && sel.iter().any(|s| !*s) {
            chunk.set_selection(SelectionVector::from_predicate(part.len(), |i| sel[i]));
        }
        chunks.push(chunk);
    }
    let selection_in_use = c.use_selection && logical.len() < c.left.len();
    let query_of = |l: &L| -> Option<&Vec<f32>> {
        match &c.static_q {
            Some(q) => Some(q),
            None => l.node.and_then(|n| if c.left_is_emb { emb[n].as_ref() } else { qv[n].as_ref() }),
        }
    };

    // thresholds
    let first_q: Option<&Vec<f32>> = logical.iter().find_map(|(_, l)| query_of(l));
    let thr_value = |t: &Thr| -> Option<f32> {
        match t {
            Thr::None => None,
            Thr::Abs(x) => Some(*x),
            Thr::AtCandidate(i) => {
                let (q, vs): (&Vec<f32>, Vec<&&Vec<f32>>) = (first_q?, cands.values().collect());
                if vs.is_empty() {
                    return Some(1.0);
                }
                let d = ref_distance(c.metric, q, vs[pick(*i, vs.len())]).0 as f32;
                d.is_finite().then_some(d)
            }
        }
    };
    let max_distance = thr_value(&c.max_distance);
    // similarity threshold s = 1 - (a distance)
    let min_similarity = thr_value(&c.min_similarity).map(|d| 1.0 - d);

    // ---- the operator ---------------------------------------------------------------------------------------
    let left = Box::new(ChunkSrc { chunks, pos: 0 });
    let mut op = guard("VectorJoinOperator::new", || {
        let mut op = match &c.static_q {
            Some(q) => VectorJoinOperator::with_static_query(left, Arc::clone(&store), q.clone(), "emb", c.k, lib),
            None => VectorJoinOperator::entity_to_entity(left, Arc::clone(&store), 0, if c.left_is_emb { "emb" } else { "q" }, "emb", c.k, lib),
        };
        op = op.with_chunk_capacity(c.out_chunk);
        match c.right_label {
            0 => {}
            1 => op = op.with_right_label("Item"),
            _ => op = op.with_right_label("NoSuchLabel"),
        }
        if let Some(t) = max_distance {
            op = op.with_max_distance(t);
        }
        if let Some(s) = min_similarity {
            op = op.with_min_similarity(s);
        }
        if let (Some(ix), Some(spec)) = (&index, &c.index) {
            op = op.with_index(Arc::clone(ix));
            if let Some(e) = spec.ef {
                op = op.with_ef(e);
            }
        }
        op
    })?;
    let want_name = if index.is_some() { "VectorJoin(HNSW)" } else { "VectorJoin(BruteForce)" };
    if op.name() != want_name {
        return fail("c18/vector_join/name", format!("{} vs {want_name}", op.name()));
    }
    let max_rows = logical.len() * c.k.min(cands.len());
    if let Some(n) = c.reset_after {
        let _ = drain(&mut op, c.out_chunk, Some(n as usize), max_rows)?;
        guard("reset", || op.reset())?;
    }
    let out = drain(&mut op, c.out_chunk, None, max_rows)?;

    // ---- the oracle -------------------------------------------------------------------------------------------
    // the distance bound both filters amount to (the similarity filter applies to the cosine metric only)
    let sim_applies = c.metric == Metric::Cosine;
    let bound: Option<f64> = match (max_distance, min_similarity.filter(|_| sim_applies)) {
        (None, None) => None,
        (a, b) => Some(a.map_or(f64::INFINITY, f64::from).min(b.map_or(f64::INFINITY, |s| 1.0 - f64::from(s)))),
    };
    let cand_list: Vec<(u64, &Vec<f32>)> = cands.iter().map(|(i, v)| (*i, *v)).collect();
    let ef = c.index.as_ref().and_then(|s| s.ef).unwrap_or(64);

    // every output row belongs to a logical (selected) left row, in left order
    let logical_ordinals: BTreeSet<i64> = logical.iter().map(|(o, _)| *o).collect();
    for (i, r) in out.iter().enumerate() {
        if !logical_ordinals.contains(&r.ordinal) {
            let physical = r.ordinal >= 0 && (r.ordinal as usize) < c.left.len();
            return fail(
                if physical { "c18/vector_join/unselected-left-row-joined" } else { "c18/vector_join/unknown-left-row" },
                format!("output row {i} = {r:?}; logical left rows {:?}...", logical.iter().map(|(o, _)| *o).take(12).collect::<Vec<_>>()),
            );
        }
        if i > 0 && out[i - 1].ordinal > r.ordinal {
            return fail("c18/vector_join/left-order", format!("output rows {} and {i}: left ordinals {} then {}", i - 1, out[i - 1].ordinal, r.ordinal));
        }
    }

    let mut pos = 0usize;
    let mut groups_with_rows = 0usize;
    let mut k_cut = false;
    let mut filtered_some = false;
    for (ordinal, l) in &logical {
        let start = pos;
        while pos < out.len() && out[pos].ordinal == *ordinal {
            pos += 1;
        }
        let group = &out[start..pos];
        let ctx = |what: &str| format!("left row {ordinal} ({what}); group {group:?}");
        for r in group {
            if r.left_node != l.node.map(|n| ids[n].0) || r.payload != l.payload {
                return fail(
                    "c18/vector_join/left-columns-wrong",
                    format!("left row {ordinal} is (node {:?}, payload {:?}) but the output row carries ({:?}, {:?})", l.node.map(|n| ids[n].0), l.payload, r.left_node, r.payload),
                );
            }
        }
        let Some(q) = query_of(l) else {
            if !group.is_empty() {
                return fail("c18/vector_join/rows-for-a-row-without-query", ctx("no query vector"));
            }
            continue;
        };
        // common soundness
        if group.len() > c.k {
            return fail("c18/vector_join/more-than-k", ctx(&format!("k = {}", c.k)));
        }
        let mut seen = BTreeSet::new();
        for (j, r) in group.iter().enumerate() {
            let Some(v) = cands.get(&r.right) else {
                let n = ids.iter().position(|i| i.0 == r.right);
                let why = match n {
                    None => "unknown-id",
                    Some(n) if !alive[n] => "deleted-node",
                    Some(n) if emb[n].is_none() => "node-without-vector",
                    Some(_) if index.is_some() => "not-in-index",
                    Some(_) => "label-filter-ignored",
                };
                return fail(format!("c18/vector_join/foreign-right/{why}"), ctx(&format!("right {} is not a candidate", r.right)));
            };
            if !seen.insert(r.right) {
                return fail("c18/vector_join/duplicate-right", ctx("same right node twice"));
            }
            let (dr, sc) = ref_distance(c.metric, q, v);
            if !close(r.dist, dr, sc, c.dim) {
                let n = ids.iter().position(|i| i.0 == r.right).unwrap();
                let stale = c.overwrites.iter().any(|_| match c.nodes[n].emb {
                    Prop::Vector(i) => {
                        let (dp, sp) = ref_distance(c.metric, q, vec_of(i));
                        close(r.dist, dp, sp, c.dim)
                    }
                    _ => false,
                });
                let kind = if stale { "stale-vector-scored".to_string() } else { format!("distance-wrong/{}", c.metric.name()) };
                return fail(format!("c18/vector_join/{kind}"), ctx(&format!("right {}: reported {}, definition {dr}; q={q:?} v={v:?}", r.right, r.dist)));
            }
            if j > 0 && group[j - 1].dist > r.dist {
                return fail("c18/vector_join/not-sorted", ctx("distances not ascending"));
            }
            if let Some(t) = max_distance {
                if !(r.dist <= t) {
                    return fail("c18/vector_join/max-distance-ignored", ctx(&format!("distance {} > {t}", r.dist)));
                }
            }
            if let (Some(s), true) = (min_similarity, sim_applies) {
                if 1.0 - f64::from(r.dist) < f64::from(s) - 1e-6 {
                    return fail("c18/vector_join/min-similarity-ignored", ctx(&format!("similarity {} < {s}", 1.0 - r.dist)));
                }
            }
        }
        if let Some(ix) = &index {
            // differential: the same index, the same parameters, the documented filters
            let mut direct = guard("search_with_ef", || ix.search_with_ef(q, c.k, ef))?;
            let before = direct.len();
            direct.retain(|(_, d)| max_distance.is_none_or(|t| *d <= t) && (!sim_applies || min_similarity.is_none_or(|s| 1.0 - *d >= s)));
            filtered_some |= direct.len() < before;
            if direct.len() != group.len() || direct.iter().zip(group).any(|(a, b)| a.0.0 != b.right || a.1.to_bits() != b.dist.to_bits()) {
                return fail("c18/vector_join/index-path-differs", ctx(&format!("search_with_ef(k={}, ef={ef}) + filters = {direct:?}", c.k)));
            }
            k_cut |= c.k >= 1 && c.k < cand_list.len();
        } else {
            // exact path: a prefix of the true k nearest
            let mut refd: Vec<(f64, f64)> = cand_list.iter().map(|(_, v)| ref_distance(c.metric, q, v)).collect();
            refd.sort_by(|x, y| x.0.partial_cmp(&y.0).unwrap());
            refd.truncate(c.k);
            let (lo, hi) = match bound {
                None => (refd.len(), refd.len()),
                Some(b) => {
                    let slack = |d: f64, s: f64| tol(d, s, c.dim) + tol(b, s, c.dim) + 1e-6;
                    (refd.iter().filter(|(d, s)| *d < b - slack(*d, *s)).count(), refd.iter().filter(|(d, s)| *d <= b + slack(*d, *s)).count())
                }
            };
            if group.len() < lo || group.len() > hi {
                return fail(
                    if group.len() < lo { "c18/vector_join/too-few-results" } else { "c18/vector_join/too-many-results" },
                    ctx(&format!("{} rows, expected between {lo} and {hi}: k = {}, {} candidates, distance bound {bound:?}, reference distances {:?}", group.len(), c.k, cand_list.len(), refd.iter().map(|x| x.0).collect::<Vec<_>>())),
                );
            }
            for (j, r) in group.iter().enumerate() {
                let (dr, sc) = ref_distance(c.metric, q, cands[&r.right]);
                let (rj, sj) = refd[j];
                let slack = tol(rj, sj, c.dim) + tol(dr, sc, c.dim);
                if (dr - rj).abs() > slack && (f64::from(r.dist) - rj).abs() > slack {
                    return fail("c18/vector_join/not-the-nearest", ctx(&format!("rank {j}: right {} at {dr} but the reference's rank-{j} distance is {rj}", r.right)));
                }
            }
            filtered_some |= hi < c.k.min(cand_list.len());
            k_cut |= c.k >= 1 && c.k < cand_list.len();
        }
        if !group.is_empty() {
            groups_with_rows += 1;
        }
    }
    if pos != out.len() {
        return fail("c18/vector_join/left-order", format!("output row {pos} = {:?} does not continue the left order", out[pos]));
    }

    let class = format!(
        "{}/{}{}{}{}",
        if c.static_q.is_some() { "static" } else { "entity" },
        if index.is_some() { "hnsw" } else { "brute" },
        if selection_in_use { "+sel" } else { "" },
        if c.left.len() > 2048 { "+multichunk" } else { "" },
        if bound.is_some() { "+thr" } else { "" },
    );
    let _ = filtered_some;
    ok(groups_with_rows >= 2 && k_cut && out.len() >= 2, class, hash_dbg(c))
}

pub fn run(r: &mut Run) {
    r.subcheck("vector_join", r.cases(4_000, 200_000), join_case, check_join);
}
