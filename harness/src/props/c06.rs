//! C06 — a crash at any point loses at most the unsynced tail, and never corrupts.
//!
//! Fault enumeration over crash images *constructed* from a recorded C05 history:
//! every byte length of the log from its length at the last open to its end, checkpoint.meta / checkpoint.meta.tmp
//! variants, a freshly rotated empty file, single-bit flips, and the continuation
//! crash → reopen → more writes → close → reopen. `GrafeoDB::open` of a mutilated directory always runs in a child
//! worker process (16 GiB address-space limit, 20 s deadline, one retry at 60 s).

use std::path::{Path, PathBuf};
use std::sync::atomic::{AtomicU64, Ordering};
use std::time::Duration;

use proptest::prelude::*;
use serde::{Deserialize, Serialize};

use crate::driver::{CaseResult, Failure, Run, fail, guard, hash_dbg, ok, scratch_dir};
use crate::props::c05::{
    Dump, Effects, End, History, Mode, Model, Op, SessionSpec, apply_op, diff_dumps, dump_db, op_strategy, open_db,
    RecSpec, parse_log, record_text, session_strategy, to_record, value_strategy,
};
use crate::worker::{Reply, WorkerPool, unesc};

const LOG0: &str = "wal_00000000.log";
const META: &str = "checkpoint.meta";
const TMP: &str = "checkpoint.meta.tmp";

#[derive(Debug, Clone, PartialEq, Serialize, Deserialize)]
pub struct CrashCase {
    /// every session but the last is closed properly; the last one "crashes" after its last op
    pub history: History,
    /// writes issued after recovery (continuation)
    pub cont: Vec<Op>,
}

// ------------------------------------------------------------------------------------------------
// Worker side
// ------------------------------------------------------------------------------------------------

#[derive(Debug, Serialize, Deserialize)]
struct Req {
    dir: String,
    mode: Mode,
    cont: Option<Vec<Op>>,
    /// WalManager-level request: only run `WalRecovery::recover()` on `dir` and return the data records
    #[serde(default)]
    recover_only: bool,
}

#[derive(Debug, Default, Serialize, Deserialize)]
struct Rep {
    /// (signature, what) of a failure inside the worker
    err: Option<(String, String)>,
    /// dump right after recovery
    dump1: Option<Dump>,
    /// model(dump1) + continuation ops
    expect2: Option<Dump>,
    /// continuation ops applied to an empty model
    only_cont: Option<Dump>,
    /// dump after continuation, close, reopen
    dump2: Option<Dump>,
    /// recover_only: canonical texts of the recovered data records
    #[serde(default)]
    records: Option<Vec<String>>,
}

fn close_explicit(db: grafeo_engine::GrafeoDB) -> Result<(), Failure> {
    if let Err(e) = guard("close", || db.close())? {
        return fail("c06/close-error", format!("close after recovery failed: {e}"));
    }
    guard("drop", move || drop(db))
}

fn worker_inner(req: &Req, rep: &mut Rep) -> Result<(), Failure> {
    let path = PathBuf::from(&req.dir);
    if req.recover_only {
        let r = guard("recover", || grafeo_adapters::storage::wal::WalRecovery::new(&path).recover())?;
        return match r {
            Ok(recs) => {
                rep.records = Some(recs.iter().filter_map(record_text).collect());
                Ok(())
            }
            Err(e) => fail("c06/wal/recover-error", format!("WalRecovery::recover failed: {e}")),
        };
    }
    let db = open_db(&path, req.mode).map_err(|f| remap(f, "c06/open-error"))?;
    let d1 = guard("dump", || dump_db(&db))?;
    rep.dump1 = Some(d1.clone());
    let Some(cont) = &req.cont else {
        // leave without touching the log further than Drop does
        return guard("drop", move || drop(db));
    };
    let mut m = Model::from_dump(&d1);
    let mut only = Model::default();
    let mut fx = Effects::default();
    for op in cont {
        let mut models: [&mut Model; 1] = [&mut m];
        let cops = apply_op(&db, &mut models, op, &mut fx)?;
        for c in &cops {
            only.apply(c);
        }
    }
    rep.expect2 = Some(m.dump());
    rep.only_cont = Some(only.dump());
    close_explicit(db)?;
    let db = open_db(&path, req.mode).map_err(|f| remap(f, "c06/reopen-error"))?;
    let d2 = guard("dump", || dump_db(&db))?;
    rep.dump2 = Some(d2);
    guard("drop", move || drop(db))
}

fn remap(f: Failure, sig: &str) -> Failure {
    if f.signature == "c05/open-error" { Failure { signature: sig.to_string(), what: f.what } } else { f }
}

/// Handles one request line inside the child worker process; returns one reply line (JSON).
pub fn worker(request: &str) -> String {
    if let Some(rest) = request.strip_prefix("WALX ") {
        return crate::props::walx::worker(rest);
    }
    let req: Req = match serde_json::from_str(request) {
        Ok(r) => r,
        Err(e) => return format!("ERR bad request: {e}"),
    };
    let mut rep = Rep::default();
    if let Err(f) = worker_inner(&req, &mut rep) {
        rep.err = Some((f.signature, f.what));
    }
    serde_json::to_string(&rep).unwrap_or_else(|e| format!("ERR cannot serialise reply: {e}"))
}

// ------------------------------------------------------------------------------------------------
// Recording
// ------------------------------------------------------------------------------------------------

/// One point of the history: the abstract state after it and what the log looked like.
#[derive(Debug, Clone)]
struct Step {
    state: Dump,
    /// records (of any kind) logically appended to the log up to and including this step
    cum_records: u64,
    /// a commit marker closes this step (open of an existing db, wal_checkpoint, close)
    commit: bool,
    /// a durable point (explicit sync, checkpoint, close, or a mode that fsyncs every record)
    durable: bool,
    /// on-disk length of the log file after this step
    disk_len: usize,
    /// only for steps of the crash session: the whole wal directory
    files: Option<Vec<(String, Vec<u8>)>>,
    is_checkpoint: bool,
}

fn read_wal_dir(dir: &Path) -> Vec<(String, Vec<u8>)> {
    let mut v = Vec::new();
    if let Ok(rd) = std::fs::read_dir(dir) {
        for e in rd.flatten() {
            if e.path().is_file() {
                v.push((e.file_name().to_string_lossy().to_string(), std::fs::read(e.path()).unwrap_or_default()));
            }
        }
    }
    v.sort();
    v
}

fn log_of(files: &[(String, Vec<u8>)]) -> &[u8] {
    files.iter().find(|(n, _)| n == LOG0).map_or(&[][..], |(_, b)| b.as_slice())
}

struct Recording {
    steps: Vec<Step>,
    /// index of the step "crash session opened"
    crash_open: usize,
    crash_mode: Mode,
    multi_file: bool,
}

/// Time-dependent modes are replaced by deterministic ones (the on-disk length after each op must be a function
/// of the case).
fn deterministic(mode: Mode) -> Mode {
    match mode {
        Mode::Default => Mode::NoSync,
        Mode::Batch { max_delay_ms, max_records } if max_delay_ms != 0 && max_delay_ms < 3_600_000 => {
            Mode::Batch { max_delay_ms: 3_600_000, max_records: max_records.clamp(1, 8) }
        }
        m => m,
    }
}

fn every_record_synced(mode: Mode) -> bool {
    matches!(mode, Mode::Batch { max_delay_ms: 0, .. })
}

fn record(h: &History) -> Result<Recording, Failure> {
    let dir = scratch_dir();
    let path = dir.path().join("db");
    let wal_dir = path.join("wal");
    let mut m = Model::default();
    let mut fx = Effects::default();
    let mut steps = vec![Step {
        state: m.dump(),
        cum_records: 0,
        commit: true,
        durable: true,
        disk_len: 0,
        files: None,
        is_checkpoint: false,
    }];
    let mut crash_open = 0;
    let mut crash_mode = Mode::NoSync;
    let mut multi_file = false;
    let n = h.sessions.len();
    for (si, s) in h.sessions.iter().enumerate() {
        let last = si + 1 == n;
        let mode = deterministic(s.mode);
        // records in the log before this open (the open itself may append: recovery writes an abort marker)
        let base = parse_log(log_of(&read_wal_dir(&wal_dir))).len() as u64;
        let db = open_db(&path, mode)?;
        let d = guard("dump", || dump_db(&db))?;
        if d != m.dump() {
            return fail("c06/recording-reopen-mismatch", format!("clean reopen #{si}: {}", diff_dumps(&d, &m.dump())));
        }
        let files = read_wal_dir(&wal_dir);
        if last {
            crash_open = steps.len();
            crash_mode = mode;
        }
        steps.push(Step {
            state: m.dump(),
            cum_records: base + db.wal().map_or(0, |w| w.record_count()),
            commit: true,
            durable: true,
            disk_len: log_of(&files).len(),
            files: last.then_some(files),
            is_checkpoint: false,
        });
        for op in &s.ops {
            let mut models: [&mut Model; 1] = [&mut m];
            apply_op(&db, &mut models, op, &mut fx)?;
            let files = read_wal_dir(&wal_dir);
            if files.iter().any(|(n, _)| n.ends_with(".log") && n != LOG0) {
                multi_file = true;
            }
            let cum = base + db.wal().map_or(0, |w| w.record_count());
            let is_cp = matches!(op, Op::Checkpoint);
            steps.push(Step {
                state: m.dump(),
                cum_records: cum,
                commit: is_cp,
                durable: is_cp || matches!(op, Op::Sync) || every_record_synced(mode),
                disk_len: log_of(&files).len(),
                files: last.then_some(files),
                is_checkpoint: is_cp,
            });
        }
        if last {
            // the process "dies" here: the images are built from the recorded directory contents; what Drop
            // writes into the original directory afterwards is never looked at
            guard("drop", move || drop(db))?;
        } else {
            if let Err(e) = guard("close", || db.close())? {
                return fail("c06/close-error", format!("close failed: {e}"));
            }
            guard("drop", move || drop(db))?;
            let files = read_wal_dir(&wal_dir);
            steps.push(Step {
                state: m.dump(),
                cum_records: parse_log(log_of(&files)).len() as u64,
                commit: true,
                durable: true,
                disk_len: log_of(&files).len(),
                files: None,
                is_checkpoint: false,
            });
        }
    }
    Ok(Recording { steps, crash_open, crash_mode, multi_file })
}

// ------------------------------------------------------------------------------------------------
// Images and their evaluation
// ------------------------------------------------------------------------------------------------

#[derive(Debug, Clone)]
struct Image {
    kind: &'static str,
    log: Vec<u8>,
    meta: Option<Vec<u8>>,
    tmp: Option<Vec<u8>>,
    rotated_empty: bool,
    /// lower bound from the statement: last durable step whose bytes are inside the image
    durable: usize,
    /// true for media corruption (bit flip): no durability lower bound beyond the last intact commit marker
    corrupt: bool,
    cont: bool,
}

pub struct Counters {
    pub images: AtomicU64,
    pub torn: AtomicU64,
    pub flips: AtomicU64,
    pub conts: AtomicU64,
    pub mixes: AtomicU64,
    pub retries: AtomicU64,
}

fn call_worker(pool: &WorkerPool, req: &Req, ctr: &Counters) -> Result<Rep, Failure> {
    let line = serde_json::to_string(req).map_err(|e| Failure { signature: "c06/harness".into(), what: e.to_string() })?;
    let mut reply = pool.call(&line, Duration::from_secs(20));
    if reply == Reply::Timeout {
        ctr.retries.fetch_add(1, Ordering::Relaxed);
        reply = pool.call(&line, Duration::from_secs(60));
    }
    match reply {
        Reply::Timeout => fail("c06/open-hang", "open of the crash image did not return within 20 s nor, retried alone, within 60 s"),
        Reply::Died(st) => fail(format!("c06/open-died:{st}"), format!("worker process died while opening the crash image: {st}")),
        Reply::Line(l) => {
            if let Some(p) = l.strip_prefix("PANIC ") {
                let t = unesc(p);
                let (sig, msg) = t.split_once('\t').unwrap_or((t.as_str(), ""));
                return fail(sig.to_string(), format!("panic while opening / using the crash image: {msg}"));
            }
            if l.starts_with("ERR ") {
                return fail("c06/harness", l);
            }
            serde_json::from_str::<Rep>(&l).map_err(|e| Failure { signature: "c06/harness".into(), what: format!("bad reply: {e}") })
        }
    }
}

fn materialize(root: &Path, n: usize, img: &Image) -> PathBuf {
    let d = root.join(format!("img{n}"));
    let w = d.join("wal");
    let _ = std::fs::create_dir_all(&w);
    let _ = std::fs::write(w.join(LOG0), &img.log);
    if let Some(m) = &img.meta {
        let _ = std::fs::write(w.join(META), m);
    }
    if let Some(t) = &img.tmp {
        let _ = std::fs::write(w.join(TMP), t);
    }
    if img.rotated_empty {
        let _ = std::fs::write(w.join("wal_00000001.log"), b"");
    }
    d
}

/// Judges one image. `Ok(None)` = fine; `Ok(Some(f))` = a failure whose signature is a *specific* defect
/// signature (possibly a known finding: the caller keeps going); `Err(f)` = generic failure.
fn judge(rec: &Recording, img: &Image, rep: &Rep, cont_len: usize) -> Result<Option<Failure>, Failure> {
    if let Some((sig, what)) = &rep.err {
        return Err(Failure { signature: sig.clone(), what: format!("[{}] {what}", img.kind) });
    }
    let Some(got) = &rep.dump1 else {
        return fail("c06/harness", "no dump in reply");
    };
    let steps = &rec.steps;
    let parsed = parse_log(&img.log);
    let valid = parsed.len() as u64;
    let valid_end = parsed.last().map_or(0, |p| p.1);
    let torn = valid_end < img.log.len();
    // last step all of whose records are intact in the image
    let upper = (0..steps.len()).rev().find(|g| steps[*g].cum_records <= valid).unwrap_or(0);
    // last commit marker intact in the image
    let commit = (0..=upper).rev().find(|g| steps[*g].commit).unwrap_or(0);
    let lower = if img.corrupt { commit } else { img.durable.min(upper) };
    let mut specific: Option<Failure> = None;
    let in_allowed = (lower..=upper).any(|g| steps[g].state == *got);
    if !in_allowed {
        let pos = (0..steps.len()).find(|g| steps[*g].state == *got);
        let ctx = format!(
            "[{}] log {} bytes ({} intact records, torn tail: {torn}), allowed states = steps {lower}..={upper} of {}",
            img.kind,
            img.log.len(),
            valid,
            steps.len() - 1
        );
        match pos {
            Some(_) if !img.corrupt && commit < lower && steps[commit].state == *got => {
                let g = commit;
                specific = Some(Failure {
                    signature: "c06/synced-writes-lost-no-commit-marker".into(),
                    what: format!(
                        "{ctx}; recovered the state of step {g} (the last commit marker: open / wal_checkpoint): operations \
                         acknowledged before the later successful sync (step {lower}) are lost because the direct API writes no \
                         commit marker before close()/wal_checkpoint()"
                    ),
                });
            }
            Some(g) if g < lower => {
                return fail("c06/durable-writes-lost", format!("{ctx}; recovered the state of step {g}"));
            }
            Some(g) => {
                return fail(
                    "c06/torn-or-later-record-applied",
                    format!("{ctx}; recovered the state of step {g}, whose records are not all intact in the image"),
                );
            }
            None => {
                let near = &steps[upper].state;
                return fail("c06/not-a-prefix-state", format!("{ctx}; recovered state equals no prefix state; vs step {upper}: {}", diff_dumps(got, near)));
            }
        }
    }
    if img.cont {
        let (Some(d2), Some(e2), Some(oc)) = (&rep.dump2, &rep.expect2, &rep.only_cont) else {
            return fail("c06/harness", "continuation reply incomplete");
        };
        if d2 != e2 {
            let ctx = format!("[{}+continuation of {cont_len} ops] log {} bytes, torn tail: {torn}", img.kind, img.log.len());
            if img.rotated_empty && d2 == oc && e2 != oc {
                let f = Failure {
                    signature: "c06/rotation-checkpoint-skips-older-files".into(),
                    what: format!(
                        "{ctx}; after recovering from a crash right after a log rotation, writing, closing and reopening, only \
                         the post-recovery writes are present: the close checkpoints at sequence 1 and recovery then skips \
                         wal_00000000.log, the only copy of everything older"
                    ),
                };
                return Ok(Some(specific.unwrap_or(f)));
            }
            if torn && d2 == got && e2 != got {
                return Ok(Some(Failure {
                    signature: "c06/writes-after-torn-tail-lost".into(),
                    what: format!(
                        "{ctx}; everything written after the recovery is gone at the next open: the reopened log appends after \
                         the torn/corrupt bytes, and replay stops in front of them: {}",
                        diff_dumps(d2, e2)
                    ),
                }));
            }
            return fail("c06/continuation-mismatch", format!("{ctx}: {}", diff_dumps(d2, e2)));
        }
    }
    Ok(specific)
}

fn build_images(rec: &Recording, thorough: bool, want_cont: bool, rot_cont: bool) -> Vec<Image> {
    let steps = &rec.steps;
    let last = steps.len() - 1;
    let fin = steps[last].files.as_ref().unwrap();
    let full = log_of(fin).to_vec();
    let meta_of = |g: usize| -> Option<Vec<u8>> {
        steps[g].files.as_ref().and_then(|f| f.iter().find(|(n, _)| n == META).map(|(_, b)| b.clone()))
    };
    let meta_fin = meta_of(last);
    let open_len = steps[rec.crash_open].disk_len;
    let durable_for = |len: usize| -> usize {
        (0..steps.len()).rev().find(|g| steps[*g].durable && steps[*g].disk_len <= len).unwrap_or(0)
    };
    let meta_for_len = |len: usize| -> Option<Vec<u8>> {
        // the metadata file as it was when the log had this length
        let g = (rec.crash_open..steps.len()).rev().find(|g| steps[*g].disk_len <= len).unwrap_or(rec.crash_open);
        meta_of(g)
    };
    let mut v = Vec::new();
    // (a) every byte length from the length at open to the end
    let tail = full.len() - open_len;
    let max_exh = if thorough { 4096 } else { 1536 };
    let stride = if tail <= max_exh { 1 } else { tail.div_ceil(max_exh) };
    let n_trunc = tail / stride + 1;
    let cont_every = if thorough { 4 } else { (n_trunc / 48).max(1) };
    let mut i = 0usize;
    let mut len = open_len;
    loop {
        v.push(Image {
            kind: "truncate",
            log: full[..len].to_vec(),
            meta: meta_for_len(len),
            tmp: None,
            rotated_empty: false,
            durable: durable_for(len),
            corrupt: false,
            cont: want_cont && i % cont_every == 0,
        });
        if len == full.len() {
            break;
        }
        len = (len + stride).min(full.len());
        i += 1;
    }
    // record boundaries are always included when striding
    if stride > 1 {
        for (_, end, _) in parse_log(&full) {
            if end > open_len {
                for l in [end - 1, end] {
                    v.push(Image {
                        kind: "truncate",
                        log: full[..l].to_vec(),
                        meta: meta_for_len(l),
                        tmp: None,
                        rotated_empty: false,
                        durable: durable_for(l),
                        corrupt: false,
                        cont: false,
                    });
                }
            }
        }
    }
    // (b) checkpoint steps: log after step i with the metadata of before step i, temp file absent/empty/partial/full
    for g in rec.crash_open + 1..steps.len() {
        if !steps[g].is_checkpoint {
            continue;
        }
        let log = full[..steps[g].disk_len.min(full.len())].to_vec();
        let before = meta_of(g - 1);
        let after = meta_of(g).unwrap_or_default();
        let tmps: Vec<Option<Vec<u8>>> =
            vec![None, Some(Vec::new()), Some(after[..after.len() / 2].to_vec()), Some(after.clone())];
        for (k, t) in tmps.into_iter().enumerate() {
            v.push(Image {
                kind: "checkpoint-mix",
                log: log.clone(),
                meta: before.clone(),
                tmp: t,
                rotated_empty: false,
                durable: durable_for(log.len()),
                corrupt: false,
                cont: want_cont && k == 2,
            });
        }
    }
    // final image with stale temp file / without metadata
    v.push(Image {
        kind: "checkpoint-mix",
        log: full.clone(),
        meta: meta_fin.clone(),
        tmp: Some(vec![0xff; 7]),
        rotated_empty: false,
        durable: durable_for(full.len()),
        corrupt: false,
        cont: false,
    });
    // (c) freshly rotated empty file (crash between creating the new file and writing to it)
    for l in [full.len(), open_len + tail / 2] {
        v.push(Image {
            kind: "rotated-empty",
            log: full[..l].to_vec(),
            meta: meta_for_len(l),
            tmp: None,
            rotated_empty: true,
            durable: durable_for(l),
            corrupt: false,
            cont: want_cont && rot_cont && l == full.len(),
        });
    }
    // (d) single-bit flips over the whole log (all sessions)
    let bits = full.len() * 8;
    let budget = if thorough { 4096 } else { 160 };
    let fstride = if bits <= budget { 1 } else { bits.div_ceil(budget) };
    let mut positions: Vec<usize> = (0..bits).step_by(fstride.max(1)).map(|b| if fstride > 1 { b + (b / fstride) % 8.min(fstride) } else { b }).collect();
    // framing fields of every record: one bit in the length prefix and one in the checksum
    for (s, e, _) in parse_log(&full) {
        positions.push(s * 8 + (s % 8));
        positions.push((e - 4) * 8 + (e % 8));
    }
    positions.retain(|b| *b < bits);
    positions.sort_unstable();
    positions.dedup();
    let nflips = positions.len();
    for (k, b) in positions.into_iter().enumerate() {
        let mut log = full.clone();
        log[b / 8] ^= 1 << (b % 8);
        v.push(Image {
            kind: "bit-flip",
            log,
            meta: meta_fin.clone(),
            tmp: None,
            rotated_empty: false,
            durable: 0,
            corrupt: true,
            cont: want_cont && k % (nflips / 6).max(1) == 0,
        });
    }
    v
}

pub fn check_crash_case(c: &CrashCase, pool: &WorkerPool, ctr: &Counters, thorough: bool) -> CaseResult {
    let rec = record(&c.history)?;
    if rec.multi_file {
        return ok(false, "skipped/multi-file", hash_dbg(c));
    }
    // the continuation behind a freshly rotated file always runs into the known rotation+checkpoint defect:
    // it is exercised for a quarter of the cases only, so that the others stay in the strict region
    let rot_cont = hash_dbg(c) % 4 == 0;
    let images = build_images(&rec, thorough, !c.cont.is_empty(), rot_cont);
    let root = scratch_dir();
    let mut specific: Option<Failure> = None;
    let mut any_torn = false;
    let mut any_mix = false;
    for (n, img) in images.iter().enumerate() {
        let d = materialize(root.path(), n, img);
        let req = Req { dir: d.to_string_lossy().to_string(), mode: rec.crash_mode, cont: img.cont.then(|| c.cont.clone()), recover_only: false };
        let rep = call_worker(pool, &req, ctr);
        let _ = std::fs::remove_dir_all(&d);
        let rep = rep.map_err(|f| Failure { signature: f.signature, what: format!("[{} image, log {} bytes] {}", img.kind, img.log.len(), f.what) })?;
        ctr.images.fetch_add(1, Ordering::Relaxed);
        let parsed_end = parse_log(&img.log).last().map_or(0, |p| p.1);
        if img.kind == "truncate" && parsed_end < img.log.len() {
            any_torn = true;
            ctr.torn.fetch_add(1, Ordering::Relaxed);
        }
        if img.kind == "bit-flip" {
            ctr.flips.fetch_add(1, Ordering::Relaxed);
        }
        if img.kind == "checkpoint-mix" || img.kind == "rotated-empty" {
            any_mix = true;
            ctr.mixes.fetch_add(1, Ordering::Relaxed);
        }
        if img.cont {
            ctr.conts.fetch_add(1, Ordering::Relaxed);
        }
        match judge(&rec, img, &rep, c.cont.len())? {
            None => {}
            Some(f) => {
                // specific defect signatures: keep the first, keep enumerating so that a generic failure elsewhere
                // in the same history is still reported
                if specific.is_none() {
                    specific = Some(f);
                }
            }
        }
    }
    if let Some(f) = specific {
        return Err(f);
    }
    let class = match rec.crash_mode {
        Mode::Sync => "crash-in/sync",
        Mode::NoSync | Mode::Default => "crash-in/nosync",
        Mode::Adaptive { .. } => "crash-in/adaptive",
        Mode::Batch { max_delay_ms: 0, .. } => "crash-in/batch-every-record",
        Mode::Batch { .. } => "crash-in/batch-n-records",
    };
    ok(any_torn || any_mix, class, hash_dbg(c))
}

fn crash_case_strategy(max_ops: usize, max_cont: usize) -> impl Strategy<Value = CrashCase> {
    (
        proptest::collection::vec(session_strategy(max_ops, 0.0, true), 0..=2),
        session_strategy(max_ops, 0.0, true),
        proptest::collection::vec(op_strategy(false), 0..=max_cont),
    )
        .prop_map(|(mut before, crash, cont)| {
            before.push(SessionSpec { end: End::Drop, ..crash });
            CrashCase { history: History { sessions: before }, cont }
        })
}

// ------------------------------------------------------------------------------------------------
// Sub-check `wal_multi_file`: damage in a log that spans several files (WalManager level)
// ------------------------------------------------------------------------------------------------

#[derive(Debug, Clone, PartialEq, Serialize, Deserialize)]
pub enum MStep {
    Log(RecSpec),
    Commit,
}

#[derive(Debug, Clone, PartialEq, Serialize, Deserialize)]
pub enum Damage {
    /// flip one bit: file selector, bit selector
    Flip { file: u16, bit: u16 },
    /// cut the last file to a length
    CutLast { len: u16 },
    /// flip one bit of the last non-empty file (strict region: nothing follows the damage in replay order
    /// except later, empty files)
    FlipLast { bit: u16 },
}

#[derive(Debug, Clone, PartialEq, Serialize, Deserialize)]
pub struct MultiCase {
    pub max_log_size: u64,
    pub steps: Vec<MStep>,
    pub damage: Damage,
}

fn multi_case_strategy(max_steps: usize) -> impl Strategy<Value = MultiCase> {
    let rec = prop_oneof![
        3 => (0u8..8, proptest::collection::vec(0u8..3, 0..=2)).prop_map(|(id, labels)| RecSpec::CreateNode { id, labels }),
        3 => (0u8..8, 0u8..4, value_strategy()).prop_map(|(id, k, v)| RecSpec::SetNodeProp { id, k, v }),
        1 => (0u8..8).prop_map(|id| RecSpec::DeleteNode { id }),
        1 => (0u8..8, 0u8..8, 0u8..8, 0u8..2).prop_map(|(id, src, dst, ty)| RecSpec::CreateEdge { id, src, dst, ty }),
    ];
    let step = prop_oneof![5 => rec.prop_map(MStep::Log), 1 => Just(MStep::Commit)];
    let damage = prop_oneof![
        2 => (any::<u16>(), any::<u16>()).prop_map(|(file, bit)| Damage::Flip { file, bit }),
        2 => any::<u16>().prop_map(|bit| Damage::FlipLast { bit }),
        1 => any::<u16>().prop_map(|len| Damage::CutLast { len }),
    ];
    (prop_oneof![1 => Just(64u64), 2 => 64u64..400, 1 => Just(1u64 << 20)], proptest::collection::vec(step, 2..=max_steps), damage)
        .prop_map(|(max_log_size, steps, damage)| MultiCase { max_log_size, steps, damage })
}

/// Data-record texts and commit markers of a log image, in order (`None` = commit marker).
fn stream_of(bytes: &[u8]) -> Vec<Option<String>> {
    parse_log(bytes)
        .into_iter()
        .filter_map(|(_, _, r)| match &r {
            grafeo_adapters::storage::wal::WalRecord::TxCommit { .. } => Some(None),
            other => record_text(other).map(Some),
        })
        .collect()
}

/// The data records in front of the last commit marker of a stream.
fn committed_of(stream: &[Option<String>]) -> Vec<String> {
    let last = stream.iter().rposition(Option::is_none).unwrap_or(0);
    stream[..last].iter().flatten().cloned().collect()
}

pub fn check_multi_case(c: &MultiCase, pool: &WorkerPool, ctr: &Counters) -> CaseResult {
    use grafeo_adapters::storage::wal::{DurabilityMode as WD, WalConfig, WalManager, WalRecord};
    let dir = scratch_dir();
    let wdir = dir.path().join("wal");
    let cfg = WalConfig { durability: WD::NoSync, max_log_size: c.max_log_size, ..WalConfig::default() };
    let wal = match guard("WalManager::with_config", || WalManager::with_config(&wdir, cfg))? {
        Ok(w) => w,
        Err(e) => return fail("c06/wal/open-error", format!("{e}")),
    };
    let tx = grafeo_common::types::TxId::new(1);
    let mut steps = c.steps.clone();
    steps.push(MStep::Commit);
    for st in &steps {
        let rec = match st {
            MStep::Log(r) => to_record(r),
            MStep::Commit => WalRecord::TxCommit { tx_id: tx },
        };
        if let Err(e) = guard("log", || wal.log(&rec))? {
            return fail("c06/wal/log-error", format!("{e}"));
        }
    }
    if let Err(e) = guard("sync", || wal.sync())? {
        return fail("c06/wal/sync-error", format!("{e}"));
    }
    guard("drop", move || drop(wal))?;
    // read the files (no checkpoint was taken: recovery replays every file)
    let mut files: Vec<(String, Vec<u8>)> = read_wal_dir(&wdir).into_iter().filter(|(n, _)| n.ends_with(".log")).collect();
    files.sort();
    let nfiles = files.len();
    let intact: Vec<Vec<Option<String>>> = files.iter().map(|(_, b)| stream_of(b)).collect();
    let all: Vec<Option<String>> = intact.iter().flatten().cloned().collect();
    let expected = committed_of(&all);
    // apply the damage
    let (f, what) = match c.damage {
        Damage::Flip { file, bit } => {
            // prefer a non-last, non-empty file
            let cands: Vec<usize> = (0..nfiles).filter(|i| !files[*i].1.is_empty()).collect();
            if cands.is_empty() {
                return ok(false, "skipped/empty-log", hash_dbg(c));
            }
            let f = cands[crate::driver::pick(file, cands.len())];
            let bits = files[f].1.len() * 8;
            let b = crate::driver::pick(bit, bits);
            files[f].1[b / 8] ^= 1 << (b % 8);
            (f, format!("bit {b} of {} flipped", files[f].0))
        }
        Damage::FlipLast { bit } => {
            let Some(f) = (0..nfiles).rev().find(|i| !files[*i].1.is_empty()) else {
                return ok(false, "skipped/empty-log", hash_dbg(c));
            };
            let bits = files[f].1.len() * 8;
            let b = crate::driver::pick(bit, bits);
            files[f].1[b / 8] ^= 1 << (b % 8);
            (f, format!("bit {b} of {} flipped", files[f].0))
        }
        Damage::CutLast { len } => {
            let f = nfiles - 1;
            let l = crate::driver::pick(len, files[f].1.len() + 1);
            files[f].1.truncate(l);
            (f, format!("{} cut to {l} bytes", files[f].0))
        }
    };
    std::fs::write(wdir.join(&files[f].0), &files[f].1).map_err(|e| Failure { signature: "c06/harness".into(), what: e.to_string() })?;
    let req = Req { dir: wdir.to_string_lossy().to_string(), mode: Mode::NoSync, cont: None, recover_only: true };
    let rep = call_worker(pool, &req, ctr)?;
    ctr.images.fetch_add(1, Ordering::Relaxed);
    if let Some((sig, w)) = rep.err {
        return fail(sig, format!("[{what}] {w}"));
    }
    let got = rep.records.unwrap_or_default();
    // what must survive: everything committed in front of the damage
    let damaged = stream_of(&files[f].1);
    let before: Vec<Option<String>> = intact[..f].iter().flatten().cloned().chain(damaged.iter().cloned()).collect();
    let must = committed_of(&before);
    let is_prefix = got.len() <= expected.len() && got[..] == expected[..got.len()];
    if is_prefix && got.len() >= must.len() {
        let class = if nfiles == 1 {
            "single-file"
        } else if f + 1 == nfiles {
            "multi-file/damage-in-last"
        } else {
            "multi-file/damage-in-earlier"
        };
        return ok(nfiles > 1 || !matches!(c.damage, Damage::CutLast { .. }), class, hash_dbg(c));
    }
    // Known defect: a corrupt record ends the reading of *that file only*; the following files are still
    // replayed, and their commit markers commit the pending records read so far. Predicted answer:
    let skipping: Vec<Option<String>> = before.iter().cloned().chain(intact[f + 1..].iter().flatten().cloned()).collect();
    let predicted = committed_of(&skipping);
    if f + 1 < nfiles && got == predicted && !is_prefix {
        return fail(
            "c06/wal/records-behind-a-corrupt-file-replayed",
            format!(
                "[{what}; {nfiles} log files] recovery returned {} records that are not a prefix of the {} logged ones: the rest of \
                 the damaged file is dropped but the later files are replayed on top",
                got.len(),
                expected.len()
            ),
        );
    }
    if !is_prefix {
        return fail("c06/wal/not-a-prefix", format!("[{what}; {nfiles} files] got {} records, logged {}: {:?} vs {:?}", got.len(), expected.len(), got.iter().take(6).collect::<Vec<_>>(), expected.iter().take(6).collect::<Vec<_>>()));
    }
    fail("c06/wal/committed-records-lost", format!("[{what}; {nfiles} files] got {} records, {} were committed in front of the damage", got.len(), must.len()))
}

pub fn run(r: &mut Run) {
    r.level = "fault_enumeration";
    r.rule = "per generated history (0-2 closed sessions, then a session that crashes after its last op; direct-API ops of C05 incl. \
              wal_checkpoint and wal().sync(); deterministic durability modes) the enumerated crash images are: every byte \
              length of the log from its length at the last open to its end (exhaustive up to 1.5 KiB quick / 4 KiB thorough, \
              strided beyond, record boundaries always), checkpoint steps with old metadata and absent/empty/partial/full \
              checkpoint.meta.tmp, a freshly rotated empty file, single-bit \
              flips over the whole log (one bit in every record's length and checksum field + a stride of ~160 positions quick / 4096 thorough, i.e. exhaustive for logs up to 512 bytes in thorough), \
              and the continuation (reopen, write, close, reopen) on a strided subset (behind the rotated-empty image only for a quarter of the cases: known finding). Non-trivial history = at least one cut \
              strictly inside a record or a checkpoint/rotation mix was evaluated. Distinct by hash of the case."
        .into();
    r.assumptions.push("durable points are the explicit ones (open of a closed db, wal_checkpoint, wal().sync(), and every op under Batch{max_delay_ms:0}); fsyncs triggered by Batch{max_records} are not counted (weaker lower bound than the statement, never stronger)".into());
    r.assumptions.push("a crash is modelled by file contents only: append-only log prefixes, atomically renamed checkpoint.meta; directory-entry reordering is not modelled".into());
    r.assumptions.push("bit flips: lower bound is the last commit marker intact in front of the damage (media corruption is not covered by the sync guarantee)".into());
    r.assumptions.push("statements are excluded (they are not logged at all: C05 finding)".into());
    r.assumptions.push("the database level never rotates below 64 MiB; multi-file logs are covered by the 'freshly rotated empty file' image and by wal_multi_file (WalManager level: records + commit markers over files of 64..400 bytes, one bit flipped in any file or the last file cut; oracle: recovered records are a prefix of the logged ones and contain everything committed in front of the damage)".into());

    let thorough = r.is_thorough();
    let pool = WorkerPool::new("c06", 16 * 1024 * 1024 * 1024);
    let ctr = Counters {
        images: AtomicU64::new(0),
        torn: AtomicU64::new(0),
        flips: AtomicU64::new(0),
        conts: AtomicU64::new(0),
        mixes: AtomicU64::new(0),
        retries: AtomicU64::new(0),
    };
    let (max_ops, max_cont) = if thorough { (24, 8) } else { (10, 4) };
    r.subcheck("crash_images", r.cases(64, 800), move || crash_case_strategy(max_ops, max_cont), |c: &CrashCase| {
        check_crash_case(c, &pool, &ctr, thorough)
    });
    let max_steps = if thorough { 60 } else { 24 };
    r.subcheck("wal_multi_file", r.cases(1500, 60_000), move || multi_case_strategy(max_steps), |c: &MultiCase| {
        check_multi_case(c, &pool, &ctr)
    });
    // crash images of an AsyncWalManager directory (walx.rs)
    crate::props::walx::run_c06(r, &pool, &ctr);
    r.note(format!(
        "crash images opened in worker processes: {} (cut strictly inside a record: {}, bit flips: {}, checkpoint/rotation mixes: {}, with continuation: {}, deadline retries: {})",
        ctr.images.load(Ordering::Relaxed),
        ctr.torn.load(Ordering::Relaxed),
        ctr.flips.load(Ordering::Relaxed),
        ctr.mixes.load(Ordering::Relaxed),
        ctr.conts.load(Ordering::Relaxed),
        ctr.retries.load(Ordering::Relaxed)
    ));
    println!(
        "  images={} torn={} flips={} mixes={} continuations={} retries={}",
        ctr.images.load(Ordering::Relaxed),
        ctr.torn.load(Ordering::Relaxed),
        ctr.flips.load(Ordering::Relaxed),
        ctr.mixes.load(Ordering::Relaxed),
        ctr.conts.load(Ordering::Relaxed),
        ctr.retries.load(Ordering::Relaxed)
    );
}
