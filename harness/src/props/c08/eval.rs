//! Reference evaluator: nested-loop enumeration of all bindings (homomorphism), three-valued
//! logic, clauses applied in order, aggregates with NULLs skipped. Shares no code with grafeo.
//!
//! Conventions adopted from the engine where the property text leaves them open (each was read
//! from the code and is stated in C08's assumptions):
//! * `=`/`<>` between values of different kinds are false/true (not unknown); `<,<=,>,>=` between
//!   different kinds (other than Int/Float) are unknown; booleans order false < true;
//! * Int/Float compare by value; Int arithmetic stays Int (`/` truncates), mixed is Float;
//! * ORDER BY treats NULL as the largest value (last ascending, first descending);
//! * `sum` over no non-NULL input is 0 (Cypher), `min/max/avg` NULL, `count` 0, `collect` [].

use std::cmp::Ordering;
use std::collections::BTreeMap;

use super::ast::*;

/// Variations of the semantics used to *recognise* known defects (never to judge correctness).
#[derive(Debug, Clone, Copy, Default, PartialEq, Eq)]
pub struct Mode {
    /// AND/OR with an unknown operand is unknown (strict NULL propagation instead of Kleene logic)
    pub strict_connectives: bool,
    /// DISTINCT is not applied
    pub ignore_distinct: bool,
    /// only the first label of a multi-label node pattern is checked
    pub first_label_only: bool,
    /// count(expr) counts NULLs too
    pub count_counts_nulls: bool,
    /// an undirected hop over a self-loop binds it twice
    pub selfloop_twice: bool,
    /// the second comma pattern does not join on the shared variable (Cartesian product; the
    /// shared name refers to the second pattern's binding)
    pub comma_no_join: bool,
    /// inline property maps on relationship patterns and on their target nodes are ignored
    pub ignore_step_props: bool,
    /// properties of an edge variable read after a cross join (second comma pattern) or after a WITH
    /// pass-through are NULL (the edge column degrades to a plain integer and is looked up as a node;
    /// edge keys are disjoint from node keys here, so the lookup finds nothing)
    pub edge_props_lost: bool,
    /// variant of `edge_props_lost` for the comma case: the WHERE was pushed below the point where the
    /// edge column degrades, so only RETURN sees NULLs
    pub edge_props_lost_return_only: bool,
    /// variant of `edge_props_lost` for the WITH case: a sort planned after the WITH re-materialises the
    /// columns once more and `type(r)` works again, only the properties stay lost
    pub edge_types_kept: bool,
    /// variant of `edge_props_lost` for the comma case whose second pattern has a variable-length hop: the rows
    /// are re-materialised below the WHERE, which then reads every edge property of the first pattern as NULL
    /// (whether or not a node shares the edge's id)
    pub edge_props_lost_where_too: bool,
    /// a WITH alias returned by name goes through a node-id typed column: integers survive, NULL
    /// survives, every other value comes back as integer 0
    pub with_alias_as_nodeid: bool,
    /// a WITH alias that holds NULL is a present-but-null value: `alias <> x` is true and
    /// `alias = x` false instead of unknown
    pub null_alias_cmp_two_valued: bool,
    /// factorized execution of two consecutive plain hops: a first-level row whose second level is
    /// empty still yields one row, with the second hop's edge and node unbound (NULL)
    pub factorized_phantom: bool,
    /// the WHERE of an OPTIONAL MATCH is applied to the joined table as an ordinary filter (rows whose
    /// optional part fails the predicate disappear instead of keeping NULLs)
    pub optional_where_global: bool,
}

#[derive(Debug, Clone, PartialEq)]
pub enum Bound {
    Node(usize),
    Edge(usize),
    Val(Val),
}

pub type Binding = BTreeMap<String, Bound>;

#[derive(Debug, Clone, PartialEq)]
pub struct Rows {
    pub rows: Vec<Vec<Val>>,
}

/// What the evaluator observed while evaluating (used by the defect classifiers).
#[derive(Debug, Clone, Default)]
pub struct Trace {
    /// some candidate row evaluated an AND/OR with an unknown operand
    pub connective_with_unknown: bool,
    /// number of bindings after WHERE (before projection)
    pub n_filtered: usize,
}

pub struct Evaluator<'a> {
    pub g: &'a GraphSpec,
    pub mode: Mode,
    pub trace: std::cell::RefCell<Trace>,
    /// edge variables whose properties read as NULL (see `Mode::edge_props_lost`)
    lost_edges: std::cell::RefCell<Vec<String>>,
    /// ... and whose type() reads as NULL as well (degraded through a Node-typed projection)
    lost_types: std::cell::RefCell<bool>,
    /// the degraded column is Node-typed (WITH / pre-sort projection): every edge loses its properties,
    /// not only those whose id is also a node id (cross join: plain integer column)
    lost_always: std::cell::RefCell<bool>,
    /// the chain being matched is one the engine runs factorized (>= 2 single hops)
    /// evaluating a WHERE predicate (the filter's property lookup falls back to the edge when no node
    /// has the id; the projection's lookup does not)
    in_where: std::cell::Cell<bool>,
    /// number of steps of that chain (0 = not factorized); only levels below the first get phantoms
    phantom_ok: std::cell::Cell<usize>,
}

fn num_cmp(a: &Val, b: &Val) -> Option<Ordering> {
    match (a, b) {
        (Val::Int(x), Val::Int(y)) => Some(x.cmp(y)),
        _ => a.as_f64()?.partial_cmp(&b.as_f64()?),
    }
}

/// Equality as the engine defines it for `=`: same kind and equal, Int/Float by value.
pub fn vals_equal(a: &Val, b: &Val) -> bool {
    match (a, b) {
        (Val::Bool(x), Val::Bool(y)) => x == y,
        (Val::Str(x), Val::Str(y)) => x == y,
        (x, y) if x.is_num() && y.is_num() => num_cmp(x, y) == Some(Ordering::Equal),
        (Val::List(x), Val::List(y)) => x.len() == y.len() && x.iter().zip(y).all(|(p, q)| vals_equal(p, q)),
        _ => false,
    }
}

/// Ordering for `<` etc.: numbers by value, strings lexicographically (bytes), booleans false < true (the
/// engine's filter orders them since the repair "filter expressions order booleans", as its range path and
/// zone maps always did), else unknown.
pub fn vals_order(a: &Val, b: &Val) -> Option<Ordering> {
    match (a, b) {
        (Val::Bool(x), Val::Bool(y)) => Some(x.cmp(y)),
        (Val::Str(x), Val::Str(y)) => Some(x.as_bytes().cmp(y.as_bytes())),
        (x, y) if x.is_num() && y.is_num() => num_cmp(x, y),
        _ => None,
    }
}

/// ORDER BY comparator on one key: NULL largest; numbers by value; strings; booleans false<true;
/// values of different kinds compare Equal (the generator never orders by a heterogeneous key).
pub fn sort_cmp(a: &Val, b: &Val) -> Ordering {
    match (a, b) {
        (Val::Null, Val::Null) => Ordering::Equal,
        (Val::Null, _) => Ordering::Greater,
        (_, Val::Null) => Ordering::Less,
        (Val::Bool(x), Val::Bool(y)) => x.cmp(y),
        _ => vals_order(a, b).unwrap_or(Ordering::Equal),
    }
}

pub fn key_cmp(order: &[OrderKey], a: &[Val], b: &[Val]) -> Ordering {
    for k in order {
        let c = sort_cmp(&a[k.item], &b[k.item]);
        let c = if k.desc { c.reverse() } else { c };
        if c != Ordering::Equal {
            return c;
        }
    }
    Ordering::Equal
}

fn and3(a: Option<bool>, b: Option<bool>) -> Option<bool> {
    match (a, b) {
        (Some(false), _) | (_, Some(false)) => Some(false),
        (Some(true), Some(true)) => Some(true),
        _ => None,
    }
}
fn or3(a: Option<bool>, b: Option<bool>) -> Option<bool> {
    match (a, b) {
        (Some(true), _) | (_, Some(true)) => Some(true),
        (Some(false), Some(false)) => Some(false),
        _ => None,
    }
}

impl<'a> Evaluator<'a> {
    pub fn new(g: &'a GraphSpec, mode: Mode) -> Self {
        Evaluator { g, mode, trace: std::cell::RefCell::new(Trace::default()), lost_edges: std::cell::RefCell::new(Vec::new()), lost_types: std::cell::RefCell::new(false), lost_always: std::cell::RefCell::new(false), phantom_ok: std::cell::Cell::new(0), in_where: std::cell::Cell::new(false) }
    }

    // ---- pattern matching ---------------------------------------------------------------------

    fn node_ok(&self, n: usize, p: &NodePat, check_props: bool) -> bool {
        let node = &self.g.nodes[n];
        let labels: &[String] = if self.mode.first_label_only && !p.labels.is_empty() { &p.labels[..1] } else { &p.labels };
        if !labels.iter().all(|l| node.labels.contains(l)) {
            return false;
        }
        if !check_props {
            return true;
        }
        p.props.iter().all(|(k, v)| {
            let have = self.g.node_prop(n, k);
            !have.is_null() && vals_equal(&have, v)
        })
    }

    /// (edge index, far end) pairs leaving `n` in direction `dir` with type `ty`.
    fn hops_from(&self, n: usize, dir: Dir, ty: Option<&String>) -> Vec<(usize, usize)> {
        let mut out = Vec::new();
        for e in 0..self.g.n_edges() {
            if let Some(t) = ty
                && &self.g.edges[e].ty != t
            {
                continue;
            }
            let (s, d) = self.g.ends(e);
            match dir {
                Dir::Out => {
                    if s == n {
                        out.push((e, d));
                    }
                }
                Dir::In => {
                    if d == n {
                        out.push((e, s));
                    }
                }
                Dir::Both => {
                    if s == n {
                        out.push((e, d));
                    }
                    if d == n && (s != n || self.mode.selfloop_twice) {
                        out.push((e, s));
                    }
                }
            }
        }
        out
    }

    fn match_steps(&self, cur: usize, steps: &[(EdgePat, NodePat)], b: &Binding, out: &mut Vec<Binding>) {
        let Some(((ep, np), rest)) = steps.split_first() else {
            out.push(b.clone());
            return;
        };
        let check_props = !self.mode.ignore_step_props;
        // enumerate (last edge, end node) for every walk of an admissible length
        let mut ends: Vec<(Option<usize>, usize)> = Vec::new();
        match ep.hops {
            None => {
                for (e, t) in self.hops_from(cur, ep.dir, ep.ty.as_ref()) {
                    let props_ok = !check_props
                        || ep.props.iter().all(|(k, v)| {
                            let have = self.g.edge_prop(e, k);
                            !have.is_null() && vals_equal(&have, v)
                        });
                    if props_ok {
                        ends.push((Some(e), t));
                    }
                }
            }
            Some((lo, hi)) => {
                let mut frontier = vec![cur];
                for depth in 1..=hi {
                    let mut next = Vec::new();
                    for n in &frontier {
                        for (_, t) in self.hops_from(*n, ep.dir, ep.ty.as_ref()) {
                            next.push(t);
                        }
                    }
                    if depth >= lo {
                        ends.extend(next.iter().map(|t| (None, *t)));
                    }
                    frontier = next;
                }
            }
        }
        for (e, t) in ends {
            if !self.node_ok(t, np, check_props) {
                continue;
            }
            if let Some(Bound::Node(prev)) = b.get(&np.var)
                && *prev != t
            {
                continue; // repeated node variable must bind the same node
            }
            let mut b2 = b.clone();
            b2.insert(np.var.clone(), Bound::Node(t));
            if let (Some(ev), Some(e)) = (&ep.var, e) {
                b2.insert(ev.clone(), Bound::Edge(e));
            }
            self.match_steps(t, rest, &b2, out);
        }
    }

    pub fn bindings(&self, q: &Query) -> Vec<Binding> {
        let mut cur: Vec<Binding> = vec![Binding::new()];
        for (ci, chain) in q.chains.iter().enumerate() {
            self.phantom_ok.set(if chain.steps.len() >= 2 && chain.steps.iter().all(|(e, _)| e.hops.is_none()) { chain.steps.len() } else { 0 });
            let mut next = Vec::new();
            for b in &cur {
                if self.mode.comma_no_join
                    && ci > 0
                    && let Some(Bound::Node(first)) = b.get(&chain.start.var)
                {
                    // observed engine behaviour: the shared variable is scanned again (all nodes that
                    // satisfy the second pattern's start), the hops start from the *first* binding, and
                    // the name afterwards refers to the *second* binding
                    let first = *first;
                    let mut expanded = Vec::new();
                    self.match_steps(first, &chain.steps, b, &mut expanded);
                    for again in 0..self.g.n_nodes() {
                        if !self.node_ok(again, &chain.start, true) {
                            continue;
                        }
                        for e in &expanded {
                            let mut e2 = e.clone();
                            e2.insert(chain.start.var.clone(), Bound::Node(again));
                            next.push(e2);
                        }
                    }
                    continue;
                }
                let bound = match b.get(&chain.start.var) {
                    Some(Bound::Node(n)) => Some(*n),
                    _ => None,
                };
                let starts: Vec<usize> = match bound {
                    Some(n) => vec![n],
                    None => (0..self.g.n_nodes()).collect(),
                };
                for s in starts {
                    if !self.node_ok(s, &chain.start, true) {
                        continue;
                    }
                    let mut b2 = b.clone();
                    b2.insert(chain.start.var.clone(), Bound::Node(s));
                    self.match_steps(s, &chain.steps, &b2, &mut next);
                }
            }
            if self.mode.factorized_phantom && self.phantom_ok.get() >= 2 && chain.steps.len() == 2 {
                // Factorized execution of two consecutive plain hops (observed): when a whole level of the
                // chain is empty for the entire input, the rows of the last non-empty level are emitted
                // once each, with the deeper edge/node columns NULL.
                let mut level0: Vec<Binding> = Vec::new();
                for b in &cur {
                    let bound = match b.get(&chain.start.var) {
                        Some(Bound::Node(n)) => Some(*n),
                        _ => None,
                    };
                    let starts: Vec<usize> = match bound {
                        Some(n) => vec![n],
                        None => (0..self.g.n_nodes()).collect(),
                    };
                    for s in starts {
                        if self.node_ok(s, &chain.start, true) {
                            let mut b2 = b.clone();
                            b2.insert(chain.start.var.clone(), Bound::Node(s));
                            level0.push(b2);
                        }
                    }
                }
                let (e0, n0) = &chain.steps[0];
                let (e1, _) = &chain.steps[1];
                let mut level1: Vec<Binding> = Vec::new();
                let mut level2_nonempty = false;
                for b in &level0 {
                    let Some(Bound::Node(s)) = b.get(&chain.start.var) else { continue };
                    for (e, t) in self.hops_from(*s, e0.dir, e0.ty.as_ref()) {
                        let mut b2 = b.clone();
                        b2.insert(n0.var.clone(), Bound::Node(t));
                        if let Some(ev) = &e0.var {
                            b2.insert(ev.clone(), Bound::Edge(e));
                        }
                        level1.push(b2);
                        if !self.hops_from(t, e1.dir, e1.ty.as_ref()).is_empty() {
                            level2_nonempty = true;
                        }
                    }
                }
                if level1.is_empty() {
                    next.extend(level0);
                } else if !level2_nonempty {
                    next.extend(level1);
                }
            }
            cur = next;
        }
        cur
    }

    // ---- expressions --------------------------------------------------------------------------

    pub fn expr(&self, e: &Expr, b: &Binding) -> Val {
        match e {
            Expr::Lit(v) => v.clone(),
            Expr::Prop(var, key) => match b.get(var) {
                Some(Bound::Node(n)) => self.g.node_prop(*n, key),
                Some(Bound::Edge(x)) => {
                    // the degraded column is looked up as a node first: the edge's own properties are
                    // still found when no node has the same id
                    if self.lost_edges.borrow().contains(var) && (*self.lost_always.borrow() || !self.in_where.get() || *x < self.g.n_nodes()) {
                        Val::Null
                    } else {
                        self.g.edge_prop(*x, key)
                    }
                }
                _ => Val::Null,
            },
            Expr::Var(v) => match b.get(v) {
                Some(Bound::Val(x)) => x.clone(),
                Some(Bound::Node(n)) => Val::Int(*n as i64),
                Some(Bound::Edge(x)) => Val::Int(*x as i64),
                None => Val::Null,
            },
            Expr::Id(v) => match b.get(v) {
                Some(Bound::Node(n)) => Val::Int(*n as i64),
                Some(Bound::Edge(x)) => Val::Int(*x as i64),
                _ => Val::Null,
            },
            Expr::Type(v) => match b.get(v) {
                Some(Bound::Edge(_)) if *self.lost_types.borrow() && self.lost_edges.borrow().contains(v) => Val::Null,
                Some(Bound::Edge(x)) => Val::Str(self.g.edges[*x].ty.clone()),
                _ => Val::Null,
            },
            Expr::Labels(v) => match b.get(v) {
                Some(Bound::Node(n)) => Val::List(self.g.nodes[*n].labels.iter().cloned().map(Val::Str).collect()),
                _ => Val::Null,
            },
            Expr::Arith(l, op, r) => {
                let (a, c) = (self.expr(l, b), self.expr(r, b));
                match (&a, &c) {
                    (Val::Int(x), Val::Int(y)) => {
                        let r = match op {
                            ArithOp::Add => x.checked_add(*y),
                            ArithOp::Sub => x.checked_sub(*y),
                            ArithOp::Mul => x.checked_mul(*y),
                            ArithOp::Div => x.checked_div(*y),
                            ArithOp::Mod => x.checked_rem(*y),
                        };
                        r.map_or(Val::Null, Val::Int)
                    }
                    _ => match (a.as_f64(), c.as_f64()) {
                        (Some(x), Some(y)) => Val::Float(match op {
                            ArithOp::Add => x + y,
                            ArithOp::Sub => x - y,
                            ArithOp::Mul => x * y,
                            ArithOp::Div => x / y,
                            ArithOp::Mod => x % y,
                        }),
                        _ => Val::Null,
                    },
                }
            }
        }
    }

    pub fn pred(&self, p: &Pred, b: &Binding) -> Option<bool> {
        match p {
            Pred::Cmp(l, op, r) => {
                let (a, c) = (self.expr(l, b), self.expr(r, b));
                if a.is_null() || c.is_null() {
                    let alias_null = |e: &Expr, v: &Val| v.is_null() && matches!(e, Expr::Var(n) if matches!(b.get(n), Some(Bound::Val(_))));
                    if self.mode.null_alias_cmp_two_valued && (alias_null(l, &a) || alias_null(r, &c)) {
                        let both_missing = !(alias_null(l, &a) || !a.is_null()) || !(alias_null(r, &c) || !c.is_null());
                        if !both_missing {
                            match op {
                                CmpOp::Eq => return Some(a.is_null() && c.is_null()),
                                CmpOp::Ne => return Some(!(a.is_null() && c.is_null())),
                                _ => return None,
                            }
                        }
                    }
                    return None;
                }
                match op {
                    CmpOp::Eq => Some(vals_equal(&a, &c)),
                    CmpOp::Ne => Some(!vals_equal(&a, &c)),
                    CmpOp::Lt => vals_order(&a, &c).map(|o| o == Ordering::Less),
                    CmpOp::Le => vals_order(&a, &c).map(|o| o != Ordering::Greater),
                    CmpOp::Gt => vals_order(&a, &c).map(|o| o == Ordering::Greater),
                    CmpOp::Ge => vals_order(&a, &c).map(|o| o != Ordering::Less),
                }
            }
            Pred::And(l, r) | Pred::Or(l, r) => {
                let (a, c) = (self.pred(l, b), self.pred(r, b));
                if a.is_none() || c.is_none() {
                    self.trace.borrow_mut().connective_with_unknown = true;
                    if self.mode.strict_connectives {
                        return None;
                    }
                }
                if matches!(p, Pred::And(..)) { and3(a, c) } else { or3(a, c) }
            }
            Pred::Not(x) => self.pred(x, b).map(|v| !v),
            Pred::IsNull(e, neg) => Some(self.expr(e, b).is_null() != *neg),
            Pred::In(e, list) => {
                let v = self.expr(e, b);
                if v.is_null() {
                    return None;
                }
                Some(list.iter().any(|x| vals_equal(&v, x)))
            }
            Pred::Str(e, op, s) => match self.expr(e, b) {
                Val::Str(v) => Some(match op {
                    StrOp::StartsWith => v.starts_with(s.as_str()),
                    StrOp::EndsWith => v.ends_with(s.as_str()),
                    StrOp::Contains => v.contains(s.as_str()),
                }),
                _ => None,
            },
        }
    }

    // ---- clauses ------------------------------------------------------------------------------

    /// Bindings after MATCH, WHERE and WITH (the table RETURN projects from).
    pub fn table(&self, q: &Query) -> Vec<Binding> {
        if self.mode.edge_props_lost {
            let mut lost = Vec::new();
            if q.chains.len() > 1 && !self.mode.edge_props_lost_return_only {
                lost.extend(q.chains[0].steps.iter().filter_map(|(e, _)| e.var.clone()));
            }
            *self.lost_edges.borrow_mut() = lost;
            if self.mode.edge_props_lost_where_too {
                *self.lost_always.borrow_mut() = true;
            }
            // a variable-length hop in the second pattern re-materialises its input rows: type() of the
            // first pattern's edges is lost as well (`*1..1` is planned as a plain single hop and does not)
            if q.chains.len() > 1 && q.chains[1].steps.iter().any(|(e, _)| e.hops.is_some_and(|h| h != (1, 1))) {
                *self.lost_types.borrow_mut() = true;
            }
        }
        let mut rows = self.bindings(q);
        if let Some(f) = &q.filter {
            self.in_where.set(true);
            rows.retain(|b| self.pred(f, b) == Some(true));
            self.in_where.set(false);
        }
        self.trace.borrow_mut().n_filtered = rows.len();
        if let Some(o) = &q.opt {
            // OPTIONAL MATCH: all extensions that satisfy the clause's WHERE, or the row itself once
            self.phantom_ok.set(0);
            if self.mode.edge_props_lost {
                // the left join's output columns are untyped: every edge variable is degraded from here on
                *self.lost_edges.borrow_mut() = q.edge_vars();
            }
            let global = self.mode.optional_where_global;
            let mut out = Vec::new();
            for b in rows {
                let mut ext = Vec::new();
                let starts: Vec<usize> = match b.get(&o.chain.start.var) {
                    Some(Bound::Node(n)) => vec![*n],
                    _ => (0..self.g.n_nodes()).collect(),
                };
                for s in starts {
                    if !self.node_ok(s, &o.chain.start, true) {
                        continue;
                    }
                    let mut b2 = b.clone();
                    b2.insert(o.chain.start.var.clone(), Bound::Node(s));
                    self.match_steps(s, &o.chain.steps, &b2, &mut ext);
                }
                if let Some(f) = &o.filter
                    && !global
                {
                    ext.retain(|x| self.pred(f, x) == Some(true));
                }
                if ext.is_empty() {
                    out.push(b);
                } else {
                    out.extend(ext);
                }
            }
            if let Some(f) = &o.filter
                && global
            {
                self.in_where.set(true);
                out.retain(|x| self.pred(f, x) == Some(true));
                self.in_where.set(false);
            }
            rows = out;
        }
        if let Some(w) = &q.with {
            rows = rows
                .into_iter()
                .map(|b| {
                    let mut nb = Binding::new();
                    for (e, alias) in &w.items {
                        let bound = match e {
                            Expr::Var(v) if matches!(b.get(v), Some(Bound::Node(_) | Bound::Edge(_))) => b[v].clone(),
                            _ => Bound::Val(self.expr(e, &b)),
                        };
                        nb.insert(alias.clone(), bound);
                    }
                    nb
                })
                .collect();
            if let Some(f) = &w.filter {
                rows.retain(|b| self.pred(f, b) == Some(true));
            }
            if self.mode.edge_props_lost {
                // after WITH every passed-through edge variable is degraded
                *self.lost_edges.borrow_mut() = q.edge_vars();
                *self.lost_types.borrow_mut() = !self.mode.edge_types_kept;
                *self.lost_always.borrow_mut() = true;
            }
        }
        if self.mode.edge_props_lost && !q.has_agg() && q.order.iter().any(|k| !k.alt_form && matches!(q.ret[k.item], RetItem::Expr(Expr::Prop(..)))) {
            // GQL sorts before projecting and materialises `var.prop` sort keys with a projection that
            // re-types every existing column as Node: edge variables are degraded for RETURN
            *self.lost_edges.borrow_mut() = q.edge_vars();
            *self.lost_always.borrow_mut() = true;
        }
        rows
    }

    fn aggregate(&self, f: AggFn, arg: Option<&Expr>, group: &[&Binding]) -> Val {
        if f == AggFn::CountStar {
            return Val::Int(group.len() as i64);
        }
        let arg = arg.expect("aggregate argument");
        let all: Vec<Val> = group.iter().map(|b| self.expr(arg, b)).collect();
        let vals: Vec<Val> = all.iter().filter(|v| !v.is_null()).cloned().collect();
        match f {
            AggFn::CountStar => unreachable!(),
            AggFn::Count => Val::Int(if self.mode.count_counts_nulls { all.len() } else { vals.len() } as i64),
            AggFn::Collect => Val::List(vals),
            AggFn::Sum => {
                if vals.iter().all(|v| matches!(v, Val::Int(_))) {
                    Val::Int(vals.iter().map(|v| if let Val::Int(i) = v { *i } else { 0 }).sum())
                } else {
                    Val::Float(vals.iter().filter_map(Val::as_f64).sum())
                }
            }
            AggFn::Avg => {
                let nums: Vec<f64> = vals.iter().filter_map(Val::as_f64).collect();
                if nums.is_empty() { Val::Null } else { Val::Float(nums.iter().sum::<f64>() / nums.len() as f64) }
            }
            AggFn::Min | AggFn::Max => {
                let mut best: Option<Val> = None;
                for v in vals {
                    best = Some(match best {
                        None => v,
                        Some(b) => {
                            let better = match vals_order(&v, &b) {
                                Some(Ordering::Less) => f == AggFn::Min,
                                Some(Ordering::Greater) => f == AggFn::Max,
                                _ => false,
                            };
                            if better { v } else { b }
                        }
                    });
                }
                best.unwrap_or(Val::Null)
            }
        }
    }

    /// Rows after RETURN (projection / grouping) and DISTINCT, before ORDER BY / SKIP / LIMIT.
    pub fn projected(&self, q: &Query) -> Vec<Vec<Val>> {
        let table = self.table(q);
        let mut rows: Vec<Vec<Val>> = if q.has_agg() {
            let key_items: Vec<&Expr> =
                q.ret.iter().filter_map(|r| if let RetItem::Expr(e) = r { Some(e) } else { None }).collect();
            // group by the normalised key, keeping first-seen order
            let mut groups: Vec<(Vec<Val>, Vec<&Binding>)> = Vec::new();
            for b in &table {
                let key: Vec<Val> = key_items.iter().map(|e| self.expr(e, b)).collect();
                match groups.iter_mut().find(|(k, _)| group_key_eq(k, &key)) {
                    Some((_, members)) => members.push(b),
                    None => groups.push((key, vec![b])),
                }
            }
            if key_items.is_empty() && groups.is_empty() {
                groups.push((vec![], vec![]));
            }
            groups
                .iter()
                .map(|(key, members)| {
                    let mut ki = key.iter();
                    q.ret
                        .iter()
                        .map(|r| match r {
                            RetItem::Expr(_) => ki.next().unwrap().clone(),
                            RetItem::Agg(f, arg) => self.aggregate(*f, arg.as_ref(), members),
                        })
                        .collect()
                })
                .collect()
        } else {
            table
                .iter()
                .map(|b| {
                    q.ret
                        .iter()
                        .map(|r| match r {
                            RetItem::Expr(e) => {
                                let v = self.expr(e, b);
                                let degraded = self.mode.with_alias_as_nodeid
                                    && matches!(e, Expr::Var(name) if matches!(b.get(name), Some(Bound::Val(_))));
                                if degraded && !matches!(v, Val::Int(_) | Val::Null) { Val::Int(0) } else { v }
                            }
                            RetItem::Agg(..) => Val::Null,
                        })
                        .collect()
                })
                .collect()
        };
        if q.distinct && !self.mode.ignore_distinct {
            let mut seen: Vec<String> = Vec::new();
            rows.retain(|r| {
                let k = super::norm_row_key(r);
                if seen.contains(&k) {
                    false
                } else {
                    seen.push(k);
                    true
                }
            });
        }
        rows
    }

    /// One fully determined answer: projected rows, stably sorted, then SKIP/LIMIT. (When the order is
    /// not total, other answers are valid too: judge with `super::compare`, not with equality.)
    pub fn eval(&self, q: &Query) -> Rows {
        let mut rows = self.projected(q);
        if !q.order.is_empty() {
            rows.sort_by(|a, b| key_cmp(&q.order, a, b));
        }
        let skip = q.skip.unwrap_or(0) as usize;
        let rows: Vec<Vec<Val>> = rows.into_iter().skip(skip).take(q.limit.map_or(usize::MAX, |l| l as usize)).collect();
        Rows { rows }
    }
}

/// Group keys: NULLs group together, numbers by value, otherwise by kind and value.
fn group_key_eq(a: &[Val], b: &[Val]) -> bool {
    a.len() == b.len()
        && a.iter().zip(b).all(|(x, y)| match (x, y) {
            (Val::Null, Val::Null) => true,
            _ => vals_equal(x, y),
        })
}

/// `eval(&GraphSpec, &Query) -> Rows` with the reference semantics.
pub fn eval(g: &GraphSpec, q: &Query) -> Rows {
    Evaluator::new(g, Mode::default()).eval(q)
}
