//! Plain-data graph specification and the core-grammar query AST shared by C08–C11, with their
//! proptest strategies.
//!
//! Conventions (all are *generator* decisions, stated in `r.rule` / `r.assumptions` of C08):
//! * node property keys `x` (Int), `y` (Int|Float, halves), `s` (short ASCII strings), `b` (Bool),
//!   `h` (heterogeneous: Int|Str|Bool|Float); edge property keys `w` (Int), `v` (Int|Float), `t` (Str).
//!   Edge keys are disjoint from node keys (the zone-map pre-check that consults the *node* column
//!   for an edge predicate belongs to C10).
//! * labels `A`,`B`,`C` (capitalised: GraphQL capitalises the root field); edge types `R`,`S`.
//! * variables: nodes `a`,`b`,`c` (first chain), `d`,`e` (second chain), edges `r1`..; every pattern
//!   element is named in GQL/Cypher renderings (Cypher names every anonymous node `_anon`).
//! * node index == NodeId, edge index == EdgeId on a fresh database (`build_db` checks it).

use proptest::prelude::*;
use serde::{Deserialize, Serialize};

use crate::driver::pick;

// ------------------------------------------------------------------------------------------------
// Values
// ------------------------------------------------------------------------------------------------

#[derive(Debug, Clone, PartialEq, Serialize, Deserialize)]
pub enum Val {
    Null,
    Bool(bool),
    Int(i64),
    Float(f64),
    Str(String),
    List(Vec<Val>),
}

impl Val {
    pub fn is_null(&self) -> bool {
        matches!(self, Val::Null)
    }
    pub fn as_f64(&self) -> Option<f64> {
        match self {
            Val::Int(i) => Some(*i as f64),
            Val::Float(f) => Some(*f),
            _ => None,
        }
    }
    pub fn is_num(&self) -> bool {
        matches!(self, Val::Int(_) | Val::Float(_))
    }
}

// ------------------------------------------------------------------------------------------------
// Graph
// ------------------------------------------------------------------------------------------------

#[derive(Debug, Clone, PartialEq, Serialize, Deserialize)]
pub struct NodeSpec {
    pub labels: Vec<String>,
    pub props: Vec<(String, Val)>,
}

#[derive(Debug, Clone, PartialEq, Serialize, Deserialize)]
pub struct EdgeSpec {
    /// selectors into the node list (`pick(sel, n_nodes)`); edges are dropped when there are no nodes
    pub src: u16,
    pub dst: u16,
    pub ty: String,
    pub props: Vec<(String, Val)>,
}

#[derive(Debug, Clone, PartialEq, Serialize, Deserialize)]
pub struct GraphSpec {
    pub nodes: Vec<NodeSpec>,
    pub edges: Vec<EdgeSpec>,
}

impl GraphSpec {
    pub fn n_nodes(&self) -> usize {
        self.nodes.len()
    }
    pub fn n_edges(&self) -> usize {
        if self.nodes.is_empty() { 0 } else { self.edges.len() }
    }
    /// (src, dst) node indices of edge `i`.
    pub fn ends(&self, i: usize) -> (usize, usize) {
        let e = &self.edges[i];
        (pick(e.src, self.nodes.len()), pick(e.dst, self.nodes.len()))
    }
    pub fn node_prop(&self, n: usize, key: &str) -> Val {
        self.nodes[n].props.iter().find(|(k, _)| k == key).map_or(Val::Null, |(_, v)| v.clone())
    }
    pub fn edge_prop(&self, e: usize, key: &str) -> Val {
        self.edges[e].props.iter().find(|(k, _)| k == key).map_or(Val::Null, |(_, v)| v.clone())
    }
}

pub const LABELS: [&str; 3] = ["A", "B", "C"];
pub const ETYPES: [&str; 2] = ["R", "S"];
pub const STRS: [&str; 8] = ["", "a", "ab", "abc", "b", "ba", "B", "cab"];

pub fn int_val() -> impl Strategy<Value = i64> {
    prop_oneof![4 => -2i64..6, 1 => Just(0i64), 1 => Just(3i64), 1 => -20i64..40]
}

/// Float that is an exact multiple of 0.5 (so rendering/parsing and arithmetic are exact).
pub fn half_float() -> impl Strategy<Value = f64> {
    (-6i32..14).prop_map(|i| f64::from(i) * 0.5)
}

/// Stored floats are never integral (k + 0.5), so that an Int and a Float never denote the same
/// number inside one result column (DISTINCT / grouping would otherwise depend on an unstated
/// equivalence); integral float *literals* still exercise Int = Float comparison.
pub fn stored_float() -> impl Strategy<Value = f64> {
    (-4i32..8).prop_map(|i| f64::from(i) + 0.5)
}

pub fn num_val() -> impl Strategy<Value = Val> {
    prop_oneof![3 => int_val().prop_map(Val::Int), 2 => stored_float().prop_map(Val::Float)]
}

pub fn num_lit() -> impl Strategy<Value = Val> {
    prop_oneof![3 => int_val().prop_map(Val::Int), 2 => half_float().prop_map(Val::Float)]
}

pub fn str_val() -> impl Strategy<Value = String> {
    (0usize..STRS.len()).prop_map(|i| STRS[i].to_string())
}

pub fn hetero_val() -> impl Strategy<Value = Val> {
    prop_oneof![
        3 => int_val().prop_map(Val::Int),
        3 => str_val().prop_map(Val::Str),
        1 => any::<bool>().prop_map(Val::Bool),
        1 => stored_float().prop_map(Val::Float),
    ]
}

/// Value strategy for a node property key.
pub fn node_prop_val(key: &str) -> BoxedStrategy<Val> {
    match key {
        "x" => int_val().prop_map(Val::Int).boxed(),
        "y" => num_val().boxed(),
        "s" => str_val().prop_map(Val::Str).boxed(),
        "b" => any::<bool>().prop_map(Val::Bool).boxed(),
        _ => hetero_val().boxed(),
    }
}

pub fn edge_prop_val(key: &str) -> BoxedStrategy<Val> {
    match key {
        "w" => int_val().prop_map(Val::Int).boxed(),
        "v" => num_val().boxed(),
        _ => str_val().prop_map(Val::Str).boxed(),
    }
}

pub const NODE_KEYS: [&str; 5] = ["x", "y", "s", "b", "h"];
pub const EDGE_KEYS: [&str; 3] = ["w", "v", "t"];

fn node_spec() -> impl Strategy<Value = NodeSpec> {
    let labels = prop_oneof![
        1 => Just(vec![]),
        5 => (0usize..3).prop_map(|i| vec![LABELS[i].to_string()]),
        2 => (0usize..3, 1usize..3).prop_map(|(i, d)| vec![LABELS[i].to_string(), LABELS[(i + d) % 3].to_string()]),
    ];
    // each key present with its own probability (missing properties are the NULLs of the queries)
    let props = (
        proptest::option::weighted(0.75, node_prop_val("x")),
        proptest::option::weighted(0.6, node_prop_val("y")),
        proptest::option::weighted(0.6, node_prop_val("s")),
        proptest::option::weighted(0.3, node_prop_val("b")),
        proptest::option::weighted(0.3, node_prop_val("h")),
    )
        .prop_map(|(x, y, s, b, h)| {
            let mut v = Vec::new();
            for (k, o) in [("x", x), ("y", y), ("s", s), ("b", b), ("h", h)] {
                if let Some(val) = o {
                    v.push((k.to_string(), val));
                }
            }
            v
        });
    (labels, props).prop_map(|(labels, props)| NodeSpec { labels, props })
}

fn edge_spec() -> impl Strategy<Value = EdgeSpec> {
    let ends = prop_oneof![
        8 => (any::<u16>(), any::<u16>()),
        1 => any::<u16>().prop_map(|a| (a, a)), // forced self-loop
    ];
    let props = (
        proptest::option::weighted(0.6, edge_prop_val("w")),
        proptest::option::weighted(0.4, edge_prop_val("v")),
        proptest::option::weighted(0.3, edge_prop_val("t")),
    )
        .prop_map(|(w, v, t)| {
            let mut out = Vec::new();
            for (k, o) in [("w", w), ("v", v), ("t", t)] {
                if let Some(val) = o {
                    out.push((k.to_string(), val));
                }
            }
            out
        });
    (ends, 0usize..5, props).prop_map(|((src, dst), t, props)| EdgeSpec {
        src,
        dst,
        ty: ETYPES[usize::from(t >= 3)].to_string(),
        props,
    })
}

/// Graphs with up to `max_nodes` nodes / `max_edges` edges: empty graphs, isolated nodes, self-loops,
/// parallel edges (forced by duplicating an edge's endpoints in a share of cases), missing and
/// heterogeneous properties.
pub fn graph_spec(max_nodes: usize, max_edges: usize) -> impl Strategy<Value = GraphSpec> {
    let n = prop_oneof![1 => Just(0usize), 1 => Just(1usize), 10 => 2usize..=max_nodes.max(2)];
    let m = prop_oneof![1 => Just(0usize), 10 => 0usize..=max_edges];
    (n, m)
        .prop_flat_map(|(n, m)| {
            (
                proptest::collection::vec(node_spec(), n),
                proptest::collection::vec(edge_spec(), m),
                proptest::option::weighted(0.3, (any::<u16>(), any::<u16>())),
            )
        })
        .prop_map(|(nodes, mut edges, par)| {
            // forced parallel edge: copy the endpoints of one edge onto another
            if let Some((i, j)) = par
                && edges.len() >= 2
            {
                let (i, j) = (pick(i, edges.len()), pick(j, edges.len()));
                if i != j {
                    let (s, d) = (edges[i].src, edges[i].dst);
                    edges[j].src = s;
                    edges[j].dst = d;
                }
            }
            GraphSpec { nodes, edges }
        })
}

// ------------------------------------------------------------------------------------------------
// Query AST
// ------------------------------------------------------------------------------------------------

#[derive(Debug, Clone, PartialEq, Serialize, Deserialize)]
pub struct NodePat {
    pub var: String,
    pub labels: Vec<String>,
    pub props: Vec<(String, Val)>,
}

#[derive(Debug, Clone, Copy, PartialEq, Eq, Serialize, Deserialize)]
pub enum Dir {
    Out,
    In,
    Both,
}

#[derive(Debug, Clone, PartialEq, Serialize, Deserialize)]
pub struct EdgePat {
    /// named only for single-hop patterns
    pub var: Option<String>,
    pub ty: Option<String>,
    pub dir: Dir,
    /// `*a..b` (1 <= a <= b <= 3); None = exactly one hop
    pub hops: Option<(u8, u8)>,
    pub props: Vec<(String, Val)>,
}

#[derive(Debug, Clone, PartialEq, Serialize, Deserialize)]
pub struct Chain {
    pub start: NodePat,
    pub steps: Vec<(EdgePat, NodePat)>,
}

#[derive(Debug, Clone, Copy, PartialEq, Eq, Serialize, Deserialize)]
pub enum ArithOp {
    Add,
    Sub,
    Mul,
    Div,
    Mod,
}

#[derive(Debug, Clone, PartialEq, Serialize, Deserialize)]
pub enum Expr {
    /// `var.key` (node or edge variable)
    Prop(String, String),
    Lit(Val),
    /// a WITH alias (a plain value column)
    Var(String),
    Arith(Box<Expr>, ArithOp, Box<Expr>),
    /// `id(var)`
    Id(String),
    /// `type(edgevar)`
    Type(String),
    /// `labels(nodevar)`
    Labels(String),
}

#[derive(Debug, Clone, Copy, PartialEq, Eq, Serialize, Deserialize)]
pub enum CmpOp {
    Eq,
    Ne,
    Lt,
    Le,
    Gt,
    Ge,
}

#[derive(Debug, Clone, Copy, PartialEq, Eq, Serialize, Deserialize)]
pub enum StrOp {
    StartsWith,
    EndsWith,
    Contains,
}

#[derive(Debug, Clone, PartialEq, Serialize, Deserialize)]
pub enum Pred {
    Cmp(Expr, CmpOp, Expr),
    And(Box<Pred>, Box<Pred>),
    Or(Box<Pred>, Box<Pred>),
    Not(Box<Pred>),
    /// (expr, negated): `IS NULL` / `IS NOT NULL`
    IsNull(Expr, bool),
    In(Expr, Vec<Val>),
    Str(Expr, StrOp, String),
}

#[derive(Debug, Clone, Copy, PartialEq, Eq, Serialize, Deserialize)]
pub enum AggFn {
    CountStar,
    Count,
    Sum,
    Min,
    Max,
    Avg,
    Collect,
}

#[derive(Debug, Clone, PartialEq, Serialize, Deserialize)]
pub enum RetItem {
    Expr(Expr),
    /// aggregate over an expression (None only for CountStar)
    Agg(AggFn, Option<Expr>),
}

impl RetItem {
    pub fn is_agg(&self) -> bool {
        matches!(self, RetItem::Agg(..))
    }
}

#[derive(Debug, Clone, PartialEq, Serialize, Deserialize)]
pub struct OrderKey {
    /// index into `Query::ret`
    pub item: usize,
    pub desc: bool,
    /// render the key in the form the language's front end does *not* handle natively (see render.rs)
    pub alt_form: bool,
}

#[derive(Debug, Clone, PartialEq, Serialize, Deserialize)]
pub struct WithClause {
    /// `expr AS alias`; a pass-through of a pattern variable is `Expr::Var(v) AS v`
    pub items: Vec<(Expr, String)>,
    pub filter: Option<Pred>,
}

/// `OPTIONAL MATCH chain [WHERE filter]` following the MATCH ... WHERE of the query: every row of the
/// table so far is extended by all matches of `chain` (joined on the variables already bound) that satisfy
/// `filter`; a row without such a match is kept once, with the clause's new variables unbound (NULL).
#[derive(Debug, Clone, PartialEq, Serialize, Deserialize)]
pub struct OptMatch {
    pub chain: Chain,
    pub filter: Option<Pred>,
}

#[derive(Debug, Clone, PartialEq, Serialize, Deserialize)]
pub struct Query {
    /// 1–2 comma-separated pattern chains of one MATCH
    pub chains: Vec<Chain>,
    pub filter: Option<Pred>,
    /// optional pattern after MATCH ... WHERE (absent in replay files written before it existed)
    #[serde(default)]
    pub opt: Option<OptMatch>,
    pub with: Option<WithClause>,
    /// non-aggregate items (group keys) come first
    pub ret: Vec<RetItem>,
    pub distinct: bool,
    pub order: Vec<OrderKey>,
    pub skip: Option<u32>,
    pub limit: Option<u32>,
}

#[derive(Debug, Clone, Copy, PartialEq, Eq, Hash, PartialOrd, Ord, Serialize, Deserialize)]
pub enum Lang {
    Gql,
    Cypher,
    Gremlin,
    GraphQl,
}

pub const LANGS: [Lang; 4] = [Lang::Gql, Lang::Cypher, Lang::Gremlin, Lang::GraphQl];

impl Lang {
    pub fn name(self) -> &'static str {
        match self {
            Lang::Gql => "gql",
            Lang::Cypher => "cypher",
            Lang::Gremlin => "gremlin",
            Lang::GraphQl => "graphql",
        }
    }
}

// ---- structural helpers -----------------------------------------------------------------------

impl Chain {
    pub fn node_pats(&self) -> Vec<&NodePat> {
        let mut v = vec![&self.start];
        v.extend(self.steps.iter().map(|(_, n)| n));
        v
    }
}

impl Query {
    /// The MATCH's chains followed by the OPTIONAL MATCH's chain (if any).
    pub fn all_chains(&self) -> impl Iterator<Item = &Chain> {
        self.chains.iter().chain(self.opt.iter().map(|o| &o.chain))
    }
    pub fn has_agg(&self) -> bool {
        self.ret.iter().any(RetItem::is_agg)
    }
    pub fn n_edge_pats(&self) -> usize {
        self.all_chains().map(|c| c.steps.len()).sum()
    }
    pub fn has_varlen(&self) -> bool {
        self.all_chains().any(|c| c.steps.iter().any(|(e, _)| e.hops.is_some()))
    }
    pub fn has_predicate(&self) -> bool {
        self.filter.is_some()
            || self.opt.as_ref().is_some_and(|o| o.filter.is_some())
            || self.with.as_ref().is_some_and(|w| w.filter.is_some())
            || self.all_chains().any(|c| {
                c.node_pats().iter().any(|n| !n.props.is_empty()) || c.steps.iter().any(|(e, _)| !e.props.is_empty())
            })
    }
    /// Node variables in binding order (a shared variable appears once).
    pub fn node_vars(&self) -> Vec<String> {
        let mut v: Vec<String> = Vec::new();
        for c in self.chains.iter().chain(self.opt.iter().map(|o| &o.chain)) {
            for n in c.node_pats() {
                if !v.contains(&n.var) {
                    v.push(n.var.clone());
                }
            }
        }
        v
    }
    pub fn edge_vars(&self) -> Vec<String> {
        self.chains.iter().chain(self.opt.iter().map(|o| &o.chain)).flat_map(|c| c.steps.iter().filter_map(|(e, _)| e.var.clone())).collect()
    }
    /// Feature tags (used for the class histogram / error matrix).
    pub fn features(&self) -> Vec<&'static str> {
        let mut f = Vec::new();
        if self.n_edge_pats() > 0 {
            f.push("edge");
        }
        if self.n_edge_pats() > 1 {
            f.push("multihop");
        }
        if self.has_varlen() {
            f.push("varlen");
        }
        if self.chains.len() > 1 {
            f.push("comma");
        }
        if self.all_chains().any(|c| c.steps.iter().any(|(e, _)| e.dir == Dir::Both)) {
            f.push("undirected");
        }
        if self.all_chains().any(|c| c.node_pats().iter().any(|n| n.labels.len() > 1)) {
            f.push("multilabel");
        }
        if self.all_chains().any(|c| c.node_pats().iter().any(|n| !n.props.is_empty())) {
            f.push("inlineprops");
        }
        if self.all_chains().any(|c| c.steps.iter().any(|(e, _)| !e.props.is_empty())) {
            f.push("edgeprops");
        }
        if let Some(p) = &self.filter {
            f.push("where");
            pred_features(p, &mut f);
        }
        if let Some(o) = &self.opt {
            f.push("optional");
            if o.filter.is_some() {
                f.push("optional-where");
            }
        }
        if self.with.is_some() {
            f.push("with");
        }
        if self.has_agg() {
            f.push("agg");
            if self.ret.iter().any(|r| !r.is_agg()) {
                f.push("groupby");
            }
        }
        if self.distinct {
            f.push("distinct");
        }
        if !self.order.is_empty() {
            f.push(if self.order.iter().any(|k| k.alt_form) { "orderby-altform" } else { "orderby" });
        }
        if self.skip.is_some() || self.limit.is_some() {
            f.push("skiplimit");
        }
        for r in &self.ret {
            match r {
                RetItem::Expr(Expr::Id(_)) => f.push("ret-id"),
                RetItem::Expr(Expr::Type(_)) => f.push("ret-type"),
                RetItem::Expr(Expr::Labels(_)) => f.push("ret-labels"),
                RetItem::Expr(Expr::Arith(..)) => f.push("ret-arith"),
                _ => {}
            }
        }
        f.sort_unstable();
        f.dedup();
        f
    }
}

fn pred_features(p: &Pred, f: &mut Vec<&'static str>) {
    match p {
        Pred::Cmp(l, _, r) => {
            if matches!(l, Expr::Arith(..)) || matches!(r, Expr::Arith(..)) {
                f.push("arith");
            }
            if matches!((l, r), (Expr::Prop(..), Expr::Prop(..))) {
                f.push("cmp-propprop");
            }
        }
        Pred::And(a, b) => {
            f.push("and");
            pred_features(a, f);
            pred_features(b, f);
        }
        Pred::Or(a, b) => {
            f.push("or");
            pred_features(a, f);
            pred_features(b, f);
        }
        Pred::Not(a) => {
            f.push("not");
            pred_features(a, f);
        }
        Pred::IsNull(..) => f.push("isnull"),
        Pred::In(..) => f.push("in"),
        Pred::Str(..) => f.push("strop"),
    }
}

// ------------------------------------------------------------------------------------------------
// Query strategies
// ------------------------------------------------------------------------------------------------

/// Knobs for the query generator. C08's defaults keep the shares of features with known
/// systematic defects bounded so that most cases stay in the strict region.
#[derive(Debug, Clone)]
pub struct QueryCfg {
    /// probability weights out of 100
    pub p_multilabel: u32,
    pub p_distinct: u32,
    pub p_or_not: u32,
    pub p_with: u32,
    pub p_second_chain: u32,
    pub p_varlen: u32,
    pub p_undirected: u32,
    pub p_agg: u32,
    pub p_order: u32,
    pub p_skiplimit: u32,
    /// restrict to ASTs that Gremlin / GraphQL can express (used by the cross-language sub-check)
    pub simple_only: bool,
    /// share (percent) of queries drawn from the generators shaped after what the Gremlin and GraphQL
    /// front ends can express (45 % of them for both, 30 % GraphQL only, 25 % Gremlin only)
    pub p_shaped: u32,
    /// share (percent) of queries that carry an OPTIONAL MATCH clause
    pub p_optional: u32,
}

impl Default for QueryCfg {
    fn default() -> Self {
        QueryCfg {
            p_multilabel: 4,
            p_distinct: 12,
            p_or_not: 30,
            p_with: 5,
            p_second_chain: 8,
            p_varlen: 12,
            p_undirected: 15,
            p_agg: 30,
            p_order: 30,
            p_skiplimit: 25,
            simple_only: false,
            p_shaped: 0,
            p_optional: 0,
        }
    }
}

fn w(p: u32) -> impl Strategy<Value = bool> {
    (0u32..100).prop_map(move |v| v < p)
}

fn node_pat(var: &'static str, cfg: &QueryCfg) -> impl Strategy<Value = NodePat> + use<> {
    let labels = prop_oneof![
        (45 - cfg.p_multilabel.min(40)) => Just(Vec::<String>::new()),
        55 => (0usize..3).prop_map(|i| vec![LABELS[i].to_string()]),
        cfg.p_multilabel.max(1) => (0usize..3, 1usize..3)
            .prop_map(|(i, d)| vec![LABELS[i].to_string(), LABELS[(i + d) % 3].to_string()]),
    ];
    let props = prop_oneof![
        80 => Just(Vec::<(String, Val)>::new()),
        12 => node_prop_val("x").prop_map(|v| vec![("x".to_string(), v)]),
        4 => node_prop_val("s").prop_map(|v| vec![("s".to_string(), v)]),
        2 => node_prop_val("y").prop_map(|v| vec![("y".to_string(), v)]),
        2 => (node_prop_val("x"), node_prop_val("b")).prop_map(|(x, b)| vec![("x".to_string(), x), ("b".to_string(), b)]),
    ];
    (labels, props).prop_map(move |(labels, props)| NodePat { var: var.to_string(), labels, props })
}

fn edge_pat(var: &'static str, cfg: &QueryCfg) -> impl Strategy<Value = EdgePat> + use<> {
    let dir = prop_oneof![
        50 => Just(Dir::Out),
        (35 - cfg.p_undirected.min(30)) => Just(Dir::In),
        cfg.p_undirected.max(1) => Just(Dir::Both),
    ];
    let ty = prop_oneof![2 => Just(None), 2 => Just(Some("R".to_string())), 1 => Just(Some("S".to_string()))];
    let hops = prop_oneof![
        (100 - cfg.p_varlen).max(1) => Just(None),
        cfg.p_varlen.max(1) => (1u8..=2, 0u8..=2).prop_map(|(a, d)| Some((a, (a + d).min(3)))),
    ];
    let props = prop_oneof![
        88 => Just(Vec::<(String, Val)>::new()),
        8 => edge_prop_val("w").prop_map(|v| vec![("w".to_string(), v)]),
        4 => edge_prop_val("t").prop_map(|v| vec![("t".to_string(), v)]),
    ];
    (dir, ty, hops, props).prop_map(move |(dir, ty, hops, props)| {
        if hops.is_some() {
            EdgePat { var: None, ty, dir, hops, props: vec![] }
        } else {
            EdgePat { var: Some(var.to_string()), ty, dir, hops, props }
        }
    })
}

fn chain(vars: [&'static str; 3], evars: [&'static str; 2], cfg: &QueryCfg) -> impl Strategy<Value = Chain> + use<> {
    let len = prop_oneof![3 => Just(0usize), 5 => Just(1usize), 3 => Just(2usize)];
    (
        len,
        node_pat(vars[0], cfg),
        edge_pat(evars[0], cfg),
        node_pat(vars[1], cfg),
        edge_pat(evars[1], cfg),
        node_pat(vars[2], cfg),
    )
        .prop_map(|(len, n0, e0, n1, e1, n2)| {
            let mut steps = Vec::new();
            if len >= 1 {
                steps.push((e0, n1));
            }
            if len >= 2 {
                steps.push((e1, n2));
            }
            Chain { start: n0, steps }
        })
}

/// Which variables are in scope and of what kind, for expression generation.
#[derive(Debug, Clone)]
struct Scope {
    nodes: Vec<String>,
    edges: Vec<String>,
}

fn prop_ref(scope: &Scope) -> BoxedStrategy<(Expr, &'static str)> {
    // returns the property expression and its key (for type-directed literal choice)
    let nodes = scope.nodes.clone();
    let edges = scope.edges.clone();
    let node_ref = (any::<u16>(), prop_oneof![5 => Just("x"), 3 => Just("y"), 3 => Just("s"), 1 => Just("b"), 2 => Just("h")])
        .prop_map(move |(i, k)| (Expr::Prop(nodes[pick(i, nodes.len())].clone(), k.to_string()), k));
    if edges.is_empty() {
        node_ref.boxed()
    } else {
        let edge_ref = (any::<u16>(), prop_oneof![4 => Just("w"), 2 => Just("v"), 2 => Just("t")])
            .prop_map(move |(i, k)| (Expr::Prop(edges[pick(i, edges.len())].clone(), k.to_string()), k));
        prop_oneof![4 => node_ref, 1 => edge_ref].boxed()
    }
}

fn is_str_key(k: &str) -> bool {
    k == "s" || k == "t"
}
fn is_num_key(k: &str) -> bool {
    matches!(k, "x" | "y" | "w" | "v")
}

fn literal_for(key: &'static str) -> BoxedStrategy<Val> {
    match key {
        "x" | "w" => prop_oneof![4 => int_val().prop_map(Val::Int), 1 => half_float().prop_map(Val::Float)].boxed(),
        "y" | "v" => num_lit().boxed(),
        "s" | "t" => str_val().prop_map(Val::Str).boxed(),
        "b" => any::<bool>().prop_map(Val::Bool).boxed(),
        _ => prop_oneof![2 => int_val().prop_map(Val::Int), 2 => str_val().prop_map(Val::Str)].boxed(),
    }
}

fn cmp_op() -> impl Strategy<Value = CmpOp> {
    prop_oneof![
        3 => Just(CmpOp::Eq),
        2 => Just(CmpOp::Ne),
        2 => Just(CmpOp::Lt),
        1 => Just(CmpOp::Le),
        2 => Just(CmpOp::Gt),
        1 => Just(CmpOp::Ge),
    ]
}

fn atom(scope: &Scope, simple: bool) -> BoxedStrategy<Pred> {
    let sc = scope.clone();
    let cmp_lit = prop_ref(scope).prop_flat_map(|(e, k)| {
        let ops = if k == "b" { prop_oneof![Just(CmpOp::Eq), Just(CmpOp::Ne)].boxed() } else { cmp_op().boxed() };
        (Just(e), ops, literal_for(k)).prop_map(|(e, op, l)| Pred::Cmp(e, op, Expr::Lit(l)))
    });
    let isnull = (prop_ref(scope), any::<bool>()).prop_map(|((e, _), neg)| Pred::IsNull(e, neg));
    let inlist = prop_ref(scope).prop_flat_map(|(e, k)| {
        (Just(e), proptest::collection::vec(literal_for(k), 1..4)).prop_map(|(e, l)| Pred::In(e, l))
    });
    let strop = (
        prop_ref(scope),
        prop_oneof![Just(StrOp::StartsWith), Just(StrOp::EndsWith), Just(StrOp::Contains)],
        prop_oneof![Just("a"), Just("b"), Just("ab"), Just(""), Just("c")],
    )
        .prop_filter_map("string op on a string-capable key", |((e, k), op, s)| {
            if is_str_key(k) || k == "h" { Some(Pred::Str(e, op, s.to_string())) } else { None }
        });
    // two-sided range on one property, bounds in either textual order and of either strictness, literals from the
    // same small domain as the data (so a stored value often sits exactly on a bound): the shape the planner's
    // BETWEEN / range path recognises
    let range2 = prop_ref(scope).prop_flat_map(|(e, k)| {
        (
            Just(e),
            prop_oneof![Just(CmpOp::Lt), Just(CmpOp::Le)],
            prop_oneof![Just(CmpOp::Gt), Just(CmpOp::Ge)],
            literal_for(k),
            literal_for(k),
            any::<bool>(),
            any::<bool>(),
        )
            .prop_filter_map("ordered key", move |(e, up, lo, a, b, upper_first, lit_left)| {
                if k == "b" {
                    // booleans have no ranges: a plain equality keeps the strategy rejection-free
                    return Some(Pred::Cmp(e, CmpOp::Eq, Expr::Lit(a)));
                }
                let flip = |op: CmpOp| match op {
                    CmpOp::Lt => CmpOp::Gt,
                    CmpOp::Le => CmpOp::Ge,
                    CmpOp::Gt => CmpOp::Lt,
                    CmpOp::Ge => CmpOp::Le,
                    o => o,
                };
                let mk = |e: Expr, op: CmpOp, l: Val| if lit_left { Pred::Cmp(Expr::Lit(l), flip(op), e) } else { Pred::Cmp(e, op, Expr::Lit(l)) };
                let u = mk(e.clone(), up, a);
                let l = mk(e, lo, b);
                Some(if upper_first { Pred::And(Box::new(u), Box::new(l)) } else { Pred::And(Box::new(l), Box::new(u)) })
            })
    });
    if simple {
        return prop_oneof![8 => cmp_lit, 2 => isnull, 2 => inlist, 2 => strop, 3 => range2].boxed();
    }
    // literal on the left (reversed operands)
    let cmp_rev = prop_ref(scope).prop_flat_map(|(e, k)| {
        let ops = if k == "b" { prop_oneof![Just(CmpOp::Eq), Just(CmpOp::Ne)].boxed() } else { cmp_op().boxed() };
        (Just(e), ops, literal_for(k)).prop_map(|(e, op, l)| Pred::Cmp(Expr::Lit(l), op, e))
    });
    // property vs property
    let cmp_pp = (prop_ref(scope), cmp_op(), prop_ref(&sc)).prop_filter_map("comparable keys", |((l, lk), op, (r, rk))| {
        let ok = (is_num_key(lk) && is_num_key(rk)) || (is_str_key(lk) && is_str_key(rk)) || lk == "h" || rk == "h";
        let ord = matches!(op, CmpOp::Eq | CmpOp::Ne) || (lk != "b" && rk != "b");
        if ok && ord { Some(Pred::Cmp(l, op, r)) } else { None }
    });
    // arithmetic inside a comparison: (prop op lit) cmp lit  /  (prop op prop) cmp lit
    let arith = (
        prop_ref(scope),
        prop_oneof![3 => Just(ArithOp::Add), 3 => Just(ArithOp::Sub), 2 => Just(ArithOp::Mul), 1 => Just(ArithOp::Div), 1 => Just(ArithOp::Mod)],
        prop_oneof![3 => (1i64..4).prop_map(Val::Int), 1 => prop_oneof![Just(0.5f64), Just(2.0), Just(1.5)].prop_map(Val::Float)],
        prop_ref(&sc),
        any::<bool>(),
        cmp_op(),
        num_lit(),
    )
        .prop_filter_map("numeric keys", |((l, lk), aop, lit, (r, rk), use_prop, op, rhs)| {
            if !(is_num_key(lk) || lk == "h") {
                return None;
            }
            // the right operand of / and % is always a non-zero literal (integer division by zero
            // panics in the engine: that is C12's finding, not C08's)
            let right = if use_prop && is_num_key(rk) && !matches!(aop, ArithOp::Div | ArithOp::Mod) { r } else { Expr::Lit(lit) };
            Some(Pred::Cmp(Expr::Arith(Box::new(l), aop, Box::new(right)), op, Expr::Lit(rhs)))
        });
    prop_oneof![8 => cmp_lit, 2 => cmp_rev, 2 => cmp_pp, 3 => arith, 3 => isnull, 2 => inlist, 2 => strop, 4 => range2].boxed()
}

fn pred(scope: &Scope, cfg: &QueryCfg) -> BoxedStrategy<Pred> {
    let a = atom(scope, cfg.simple_only);
    if cfg.simple_only {
        // conjunctions of atoms only
        return prop_oneof![
            3 => a.clone(),
            1 => (a.clone(), a).prop_map(|(l, r)| Pred::And(Box::new(l), Box::new(r))),
        ]
        .boxed();
    }
    let p_bool = cfg.p_or_not;
    let leaf = a.clone();
    let conj = (a.clone(), a.clone()).prop_map(|(l, r)| Pred::And(Box::new(l), Box::new(r)));
    let tree = a.prop_recursive(3, 8, 2, |inner| {
        prop_oneof![
            2 => (inner.clone(), inner.clone()).prop_map(|(l, r)| Pred::And(Box::new(l), Box::new(r))),
            3 => (inner.clone(), inner.clone()).prop_map(|(l, r)| Pred::Or(Box::new(l), Box::new(r))),
            2 => inner.prop_map(|p| Pred::Not(Box::new(p))),
        ]
    });
    prop_oneof![
        ((100 - p_bool) * 2 / 3).max(1) => leaf,
        ((100 - p_bool) / 3).max(1) => conj,
        p_bool.max(1) => tree,
    ]
    .boxed()
}

fn ret_expr(scope: &Scope) -> BoxedStrategy<Expr> {
    let nodes = scope.nodes.clone();
    let nodes2 = scope.nodes.clone();
    let edges = scope.edges.clone();
    let base = prop_ref(scope).prop_map(|(e, _)| e);
    let id = any::<u16>().prop_map(move |i| Expr::Id(nodes[pick(i, nodes.len())].clone()));
    let labels = any::<u16>().prop_map(move |i| Expr::Labels(nodes2[pick(i, nodes2.len())].clone()));
    if edges.is_empty() {
        prop_oneof![10 => base, 3 => id, 1 => labels].boxed()
    } else {
        let edges2 = edges.clone();
        let ty = any::<u16>().prop_map(move |i| Expr::Type(edges[pick(i, edges.len())].clone()));
        let eid = any::<u16>().prop_map(move |i| Expr::Id(edges2[pick(i, edges2.len())].clone()));
        prop_oneof![10 => base, 3 => id, 1 => labels, 2 => ty, 1 => eid].boxed()
    }
}

fn agg_item(scope: &Scope) -> BoxedStrategy<RetItem> {
    let nodes = scope.nodes.clone();
    let over_prop = prop_ref(scope).prop_flat_map(|(e, k)| {
        let fns = if is_num_key(k) {
            prop_oneof![Just(AggFn::Count), Just(AggFn::Sum), Just(AggFn::Min), Just(AggFn::Max), Just(AggFn::Avg), Just(AggFn::Collect)]
                .boxed()
        } else if is_str_key(k) {
            prop_oneof![Just(AggFn::Count), Just(AggFn::Min), Just(AggFn::Max), Just(AggFn::Collect)].boxed()
        } else {
            prop_oneof![Just(AggFn::Count), Just(AggFn::Collect)].boxed()
        };
        (fns, Just(e)).prop_map(|(f, e)| RetItem::Agg(f, Some(e)))
    });
    let count_var = any::<u16>().prop_map(move |i| RetItem::Agg(AggFn::Count, Some(Expr::Var(nodes[pick(i, nodes.len())].clone()))));
    prop_oneof![3 => Just(RetItem::Agg(AggFn::CountStar, None)), 8 => over_prop, 1 => count_var].boxed()
}

/// The query strategy. `simple_only` restricts to the Gremlin/GraphQL-expressible shapes.
pub fn query(cfg: QueryCfg) -> BoxedStrategy<Query> {
    if cfg.p_shaped == 0 {
        return generic_query(cfg);
    }
    let p = cfg.p_shaped.min(99);
    prop_oneof![
        (100 - p) * 20 => generic_query(cfg.clone()),
        p * 9 => shaped_query(Shape::Both, &cfg),
        p * 6 => shaped_query(Shape::GraphQl, &cfg),
        p * 5 => shaped_query(Shape::Gremlin, &cfg),
    ]
    .boxed()
}

// ---- queries shaped after the Gremlin / GraphQL front ends --------------------------------------

#[derive(Debug, Clone, Copy, PartialEq, Eq)]
enum Shape {
    /// expressible in all four languages
    Both,
    /// GraphQL's fragment (several returned properties, nested selections, multi-key orderBy)
    GraphQl,
    /// Gremlin's fragment (any direction, labels anywhere, edge elements, aggregates, dedup)
    Gremlin,
}

fn inline_props() -> impl Strategy<Value = Vec<(String, Val)>> {
    prop_oneof![
        80 => Just(Vec::<(String, Val)>::new()),
        12 => node_prop_val("x").prop_map(|v| vec![("x".to_string(), v)]),
        4 => node_prop_val("s").prop_map(|v| vec![("s".to_string(), v)]),
        2 => node_prop_val("y").prop_map(|v| vec![("y".to_string(), v)]),
        2 => (node_prop_val("x"), node_prop_val("b")).prop_map(|(x, b)| vec![("x".to_string(), x), ("b".to_string(), b)]),
    ]
}

/// A chain GraphQL can read: one end (the root) carries exactly one label, 0–2 typed hops lead away from
/// it to unlabelled nodes. In a quarter of the cases the chain is written from the other end (all hops
/// incoming), which is the same pattern.
fn rooted_chain() -> impl Strategy<Value = Chain> {
    (
        0usize..3,
        prop_oneof![3 => Just(0usize), 5 => Just(1usize), 3 => Just(2usize)],
        [inline_props(), inline_props(), inline_props()],
        [0usize..5, 0usize..5],
        w(25),
    )
        .prop_map(|(l, len, props, tys, mirrored)| {
            let names = ["a", "b", "c"];
            let mut nodes: Vec<(Vec<String>, Vec<(String, Val)>)> =
                (0..=len).map(|i| (if i == 0 { vec![LABELS[l].to_string()] } else { vec![] }, props[i].clone())).collect();
            let mut tys: Vec<String> = tys[..len].iter().map(|t| ETYPES[usize::from(*t >= 3)].to_string()).collect();
            let dir = if mirrored && len > 0 {
                nodes.reverse();
                tys.reverse();
                Dir::In
            } else {
                Dir::Out
            };
            let mk = |i: usize| NodePat { var: names[i].to_string(), labels: nodes[i].0.clone(), props: nodes[i].1.clone() };
            Chain {
                start: mk(0),
                steps: (0..len).map(|i| (EdgePat { var: None, ty: Some(tys[i].clone()), dir, hops: None, props: vec![] }, mk(i + 1))).collect(),
            }
        })
}

/// Atoms of the shaped generators: one property against literals. `for_gremlin` adds IS [NOT] NULL and
/// NOT IN (hasNot / has(k) / without), which GraphQL's filter objects cannot say.
fn shaped_atom(scope: &Scope, for_gremlin: bool) -> BoxedStrategy<Pred> {
    let cmp_lit = prop_ref(scope).prop_flat_map(|(e, k)| {
        let ops = if k == "b" { prop_oneof![Just(CmpOp::Eq), Just(CmpOp::Ne)].boxed() } else { cmp_op().boxed() };
        (Just(e), ops, literal_for(k), w(15)).prop_map(|(e, op, l, lit_left)| {
            if lit_left { Pred::Cmp(Expr::Lit(l), op, e) } else { Pred::Cmp(e, op, Expr::Lit(l)) }
        })
    });
    let inlist = prop_ref(scope)
        .prop_flat_map(|(e, k)| (Just(e), proptest::collection::vec(literal_for(k), 1..4)).prop_map(|(e, l)| Pred::In(e, l)));
    let strop = (
        prop_ref(scope),
        prop_oneof![Just(StrOp::StartsWith), Just(StrOp::EndsWith), Just(StrOp::Contains)],
        prop_oneof![Just("a"), Just("b"), Just("ab"), Just(""), Just("c")],
    )
        .prop_map(|((e, k), op, s)| {
            if is_str_key(k) || k == "h" { Pred::Str(e, op, s.to_string()) } else { Pred::Cmp(e, CmpOp::Ne, Expr::Lit(Val::Int(0))) }
        });
    let mut alts: Vec<(u32, BoxedStrategy<Pred>)> = vec![(8, cmp_lit.boxed()), (2, inlist.clone().boxed()), (2, strop.boxed())];
    if for_gremlin {
        let isnull = (prop_ref(scope), any::<bool>()).prop_map(|((e, _), neg)| Pred::IsNull(e, neg));
        alts.push((2, isnull.boxed()));
        alts.push((1, inlist.prop_map(|p| Pred::Not(Box::new(p))).boxed()));
    }
    proptest::strategy::Union::new_weighted(alts).boxed()
}

fn agg_fns_for(key: &str) -> &'static [AggFn] {
    if is_num_key(key) {
        &[AggFn::Count, AggFn::Sum, AggFn::Min, AggFn::Max, AggFn::Avg, AggFn::Collect]
    } else if is_str_key(key) {
        &[AggFn::Count, AggFn::Min, AggFn::Max, AggFn::Collect]
    } else {
        &[AggFn::Count, AggFn::Collect]
    }
}

fn shaped_query(kind: Shape, cfg: &QueryCfg) -> BoxedStrategy<Query> {
    let cfg = cfg.clone();
    let chain_s: BoxedStrategy<Chain> = match kind {
        Shape::Gremlin => chain(["a", "b", "c"], ["r1", "r2"], &cfg).boxed(),
        _ => rooted_chain().boxed(),
    };
    // where a Gremlin walk ends: 0 = last node, 1 = first node (walked backwards), 2 = last edge, 3 = first edge
    let focus_sel = prop_oneof![4 => Just(0u8), 3 => Just(1u8), 2 => Just(2u8), 1 => Just(3u8)];
    (chain_s, focus_sel)
        .prop_flat_map(move |(mut c, fsel)| {
            let k = c.steps.len();
            let evars = ["r1", "r2"];
            // (focus variable, is an edge, variables predicates may talk about)
            let (focus, focus_is_edge, scope) = match kind {
                Shape::Gremlin => {
                    for (i, (e, _)) in c.steps.iter_mut().enumerate() {
                        e.hops = None;
                        e.var = Some(evars[i].to_string());
                    }
                    let edge_at = match fsel {
                        2 if k > 0 => Some(k - 1),
                        3 if k > 0 => Some(0),
                        _ => None,
                    };
                    match edge_at {
                        Some(i) => {
                            // the node beyond the final edge is never visited: it stays unconstrained
                            let far = if fsel == 2 { &mut c.steps[k - 1].1 } else { &mut c.start };
                            far.labels.clear();
                            far.props.clear();
                            let far_var = far.var.clone();
                            let nodes: Vec<String> = c.node_pats().iter().map(|n| n.var.clone()).filter(|v| *v != far_var).collect();
                            let ev = evars[i].to_string();
                            let edges: Vec<String> = (0..k).map(|j| evars[j].to_string()).collect();
                            (ev, true, Scope { nodes, edges })
                        }
                        None => {
                            let f = if fsel % 2 == 1 { c.start.var.clone() } else { c.node_pats()[k].var.clone() };
                            let edges: Vec<String> = (0..k).map(|j| evars[j].to_string()).collect();
                            (f, false, Scope { nodes: c.node_pats().iter().map(|n| n.var.clone()).collect(), edges })
                        }
                    }
                }
                _ => {
                    let mirrored = k > 0 && c.start.labels.is_empty();
                    let innermost = if mirrored { c.start.var.clone() } else { c.node_pats()[k].var.clone() };
                    (innermost, false, Scope { nodes: c.node_pats().iter().map(|n| n.var.clone()).collect(), edges: vec![] })
                }
            };
            let a = shaped_atom(&scope, kind == Shape::Gremlin);
            let filter = prop_oneof![
                2 => Just(None),
                3 => a.clone().prop_map(Some),
                1 => (a.clone(), a).prop_map(|(l, r)| Some(Pred::And(Box::new(l), Box::new(r)))),
            ];
            let node_key = prop_oneof![5 => Just("x"), 3 => Just("y"), 3 => Just("s"), 1 => Just("b"), 2 => Just("h")];
            let edge_key = prop_oneof![4 => Just("w"), 2 => Just("v"), 2 => Just("t")];
            let key_s: BoxedStrategy<&'static str> = if focus_is_edge { edge_key.boxed() } else { node_key.clone().boxed() };
            let node_names: Vec<String> = c.node_pats().iter().map(|n| n.var.clone()).collect();
            (
                Just(c),
                Just((focus, focus_is_edge)),
                filter,
                // returned items: (kind selector, key of the focus element, aggregate selector) and, for GraphQL, up to three (node, key)
                (0u32..100, key_s, any::<u16>()),
                proptest::collection::vec((any::<u16>(), node_key), 1..=3),
                any::<bool>(),
                (w(cfg.p_distinct), w(cfg.p_order), any::<bool>(), prop_oneof![3 => Just(false), 1 => Just(true)]),
                (w(cfg.p_skiplimit), proptest::option::weighted(0.6, 0u32..4), proptest::option::weighted(0.7, 0u32..6)),
                Just(node_names),
            )
        })
        .prop_map(move |(c, (focus, focus_is_edge), filter, (rsel, key, asel), gitems, deep_first, (distinct, do_order, desc, alt_form), (do_sl, skip, limit), names)| {
            let k = c.steps.len();
            let mirrored = kind != Shape::Gremlin && k > 0 && c.start.labels.is_empty();
            let root = if mirrored { names[k].clone() } else { names[0].clone() };
            let depth_of = |v: &String| {
                let pos = names.iter().position(|n| n == v).unwrap_or(0);
                if mirrored { k - pos } else { pos }
            };
            let mut q = Query { chains: vec![c], filter, opt: None, with: None, ret: vec![], distinct: false, order: vec![], skip: None, limit: None };
            match kind {
                Shape::Both => q.ret = vec![RetItem::Expr(Expr::Prop(focus.clone(), key.to_string()))],
                Shape::GraphQl => {
                    let mut items: Vec<(String, &str)> = gitems.iter().map(|(sel, key)| (names[pick(*sel, names.len())].clone(), *key)).collect();
                    // the innermost node must select something
                    if !items.iter().any(|(v, _)| *v == focus) {
                        items[0].0 = focus.clone();
                    }
                    // nested selections are contiguous: order the items by depth (either way round)
                    items.sort_by_key(|(v, _)| depth_of(v));
                    if deep_first {
                        items.reverse();
                    }
                    q.ret = items.into_iter().map(|(v, key)| RetItem::Expr(Expr::Prop(v, key.to_string()))).collect();
                }
                Shape::Gremlin => {
                    let prop = Expr::Prop(focus.clone(), key.to_string());
                    q.ret = vec![match rsel {
                        0..45 => RetItem::Expr(prop),
                        // returning the element itself keeps the traversal free of projections: filter steps are
                        // then followed directly by dedup / skip / limit
                        45..66 => RetItem::Expr(Expr::Id(focus.clone())),
                        66..70 if !focus_is_edge => RetItem::Expr(Expr::Labels(focus.clone())),
                        66..85 => {
                            let fns = agg_fns_for(key);
                            RetItem::Agg(fns[pick(asel, fns.len())], Some(prop))
                        }
                        85..95 => RetItem::Agg(AggFn::CountStar, None),
                        _ => RetItem::Agg(AggFn::Count, Some(Expr::Var(focus.clone()))),
                    }];
                }
            }
            let plain = !q.has_agg() && !q.ret.iter().any(|r| matches!(r, RetItem::Expr(Expr::Labels(_))));
            q.distinct = distinct && plain && kind != Shape::GraphQl && kind != Shape::Both;
            if do_order && plain {
                match kind {
                    Shape::Gremlin => {
                        // one key: the returned property (homogeneous keys only)
                        match &q.ret[0] {
                            RetItem::Expr(Expr::Prop(_, key)) if key != "h" => q.order.push(OrderKey { item: 0, desc, alt_form }),
                            _ => {}
                        }
                    }
                    _ => {
                        // root properties among the returned items (GraphQL's orderBy); for `Both` that is
                        // only possible when the chain is a single node
                        for (i, r) in q.ret.iter().enumerate() {
                            if let RetItem::Expr(Expr::Prop(v, key)) = r
                                && *v == root
                                && key != "h"
                                && q.order.len() < 2
                                && !q.order.iter().any(|o: &OrderKey| matches!(&q.ret[o.item], RetItem::Expr(Expr::Prop(_, k2)) if k2 == key))
                            {
                                q.order.push(OrderKey { item: i, desc: desc ^ (q.order.len() == 1), alt_form: false });
                            }
                        }
                    }
                }
            }
            if do_sl && plain {
                q.skip = skip;
                q.limit = limit;
                if q.skip.is_none() && q.limit.is_none() {
                    q.limit = Some(2);
                }
            }
            q
        })
        .boxed()
}

fn generic_query(cfg: QueryCfg) -> BoxedStrategy<Query> {
    let cfg2 = cfg.clone();
    let chains = (chain(["a", "b", "c"], ["r1", "r2"], &cfg), w(if cfg.simple_only { 0 } else { cfg.p_second_chain }), chain(["d", "e", "f"], ["r3", "r4"], &cfg), any::<u16>(), any::<bool>())
        .prop_map(|(c1, second, mut c2, share, do_share)| {
            if !second {
                return vec![c1];
            }
            c2.steps.truncate(1);
            if do_share {
                // join on a shared variable: the second chain starts at a node of the first
                let names: Vec<String> = c1.node_pats().iter().map(|n| n.var.clone()).collect();
                let v = names[pick(share, names.len())].clone();
                c2.start = NodePat { var: v, labels: vec![], props: vec![] };
            }
            vec![c1, c2]
        });
    // OPTIONAL MATCH: a chain of new variables `o`, `p`, `u` / `q1`, `q2` that starts at a node of the MATCH
    // (the usual case) or stands alone (Cartesian); only after a single-chain MATCH, so that the comma-pattern
    // defects do not mix in
    let opt_chain = (w(cfg.p_optional), chain(["o", "p", "u"], ["q1", "q2"], &cfg), any::<u16>(), w(85));
    (chains, opt_chain)
        .prop_map(|(chains, (optional, mut oc, share, do_share))| {
            if !optional || chains.len() != 1 {
                return (chains, None);
            }
            if do_share && !oc.steps.is_empty() {
                let names: Vec<String> = chains[0].node_pats().iter().map(|n| n.var.clone()).collect();
                oc.start = NodePat { var: names[pick(share, names.len())].clone(), labels: vec![], props: vec![] };
            }
            (chains, Some(oc))
        })
        .prop_flat_map(move |(chains, oc)| {
            let cfg = cfg2.clone();
            let q0 = Query { chains: chains.clone(), filter: None, opt: None, with: None, ret: vec![], distinct: false, order: vec![], skip: None, limit: None };
            // the MATCH's WHERE sees the MATCH's variables only
            let scope0 = Scope { nodes: q0.node_vars(), edges: q0.edge_vars() };
            // (GQL has no place for the MATCH's own WHERE when an OPTIONAL MATCH follows: generated less often then)
            let filter = if oc.is_some() {
                prop_oneof![5 => Just(None), 2 => pred(&scope0, &cfg).prop_map(Some)].boxed()
            } else {
                prop_oneof![2 => Just(None), 5 => pred(&scope0, &cfg).prop_map(Some)].boxed()
            };
            let q1 = Query { opt: oc.clone().map(|chain| OptMatch { chain, filter: None }), ..q0 };
            let scope = Scope { nodes: q1.node_vars(), edges: q1.edge_vars() };
            // the optional clause's WHERE talks about the clause's own variables (and the node it starts from)
            let opt_filter: BoxedStrategy<Option<Pred>> = match &oc {
                Some(c) => {
                    let so = Scope {
                        nodes: c.node_pats().iter().map(|n| n.var.clone()).collect(),
                        edges: c.steps.iter().filter_map(|(e, _)| e.var.clone()).collect(),
                    };
                    prop_oneof![3 => Just(None), 2 => pred(&so, &cfg).prop_map(Some)].boxed()
                }
                None => Just(None).boxed(),
            };
            let chains = (Just(chains), Just(oc), opt_filter);
            let plain_ret = proptest::collection::vec(ret_expr(&scope).prop_map(RetItem::Expr), 1..=3);
            let agg_ret = (proptest::collection::vec(prop_ref(&scope).prop_map(|(e, _)| RetItem::Expr(e)), 0..=2), proptest::collection::vec(agg_item(&scope), 1..=2))
                .prop_map(|(mut g, a)| {
                    g.extend(a);
                    g
                });
            let ret = if cfg.simple_only {
                prop_oneof![3 => plain_ret.boxed(), 1 => proptest::collection::vec(agg_item(&scope), 1..=1).boxed()].boxed()
            } else {
                prop_oneof![(100 - cfg.p_agg) => plain_ret.boxed(), cfg.p_agg.max(1) => agg_ret.boxed()].boxed()
            };
            let with = (w(if cfg.simple_only { 0 } else { cfg.p_with }), prop_ref(&scope), any::<bool>(), cmp_op(), int_val());
            (
                chains,
                filter,
                ret,
                w(cfg.p_distinct),
                w(cfg.p_order),
                proptest::collection::vec((any::<u16>(), any::<bool>()), 1..=2),
                prop_oneof![7 => Just(false), 1 => Just(true)],
                w(cfg.p_skiplimit),
                (proptest::option::weighted(0.4, 0u32..4), proptest::option::weighted(0.8, 0u32..6)),
                with,
            )
        })
        .prop_map(|((chains, oc, ofilter), filter, ret, distinct, do_order, okeys, alt_form, do_sl, (skip, limit), with)| {
            let opt = oc.map(|chain| OptMatch { chain, filter: ofilter });
            let mut q = Query { chains, filter, opt, with: None, ret, distinct, order: vec![], skip: None, limit: None };
            let (do_with, (wexpr, wkey), wfilter, wop, wlit) = with;
            if do_with && !q.has_agg() && q.opt.is_none() {
                // WITH passes every node variable through and adds one computed alias `v0`;
                // RETURN then refers to pass-through variables and to `v0`.
                let mut items: Vec<(Expr, String)> = q.node_vars().into_iter().map(|v| (Expr::Var(v.clone()), v)).collect();
                for ev in q.edge_vars() {
                    items.push((Expr::Var(ev.clone()), ev));
                }
                items.push((wexpr, "v0".to_string()));
                let filt = if wfilter && (is_num_key(wkey) || wkey == "h") {
                    Some(Pred::Cmp(Expr::Var("v0".into()), wop, Expr::Lit(Val::Int(wlit))))
                } else {
                    None
                };
                q.with = Some(WithClause { items, filter: filt });
                q.ret.insert(0, RetItem::Expr(Expr::Var("v0".into())));
            }
            // DISTINCT together with aggregates is outside the core the engine implements coherently
            if q.has_agg() {
                q.distinct = false;
            }
            // labels() lists are compared as multisets (their order is storage order), so DISTINCT over
            // them would depend on an order the property does not define
            if q.ret.iter().any(|r| matches!(r, RetItem::Expr(Expr::Labels(_)))) {
                q.distinct = false;
            }
            if do_order {
                let n = q.ret.len();
                let mut seen = Vec::new();
                for (sel, desc) in okeys {
                    let item = pick(sel, n);
                    // order keys: scalars of a homogeneous type only (no labels()/collect()/h)
                    let sortable = match &q.ret[item] {
                        RetItem::Expr(Expr::Prop(_, k)) => k != "h",
                        RetItem::Expr(Expr::Labels(_)) => false,
                        RetItem::Expr(_) => true,
                        RetItem::Agg(AggFn::Collect, _) => false,
                        RetItem::Agg(_, Some(Expr::Prop(_, k))) => k != "h",
                        RetItem::Agg(..) => true,
                    };
                    let via_with_h = matches!(&q.ret[item], RetItem::Expr(Expr::Var(_)))
                        && q.with.as_ref().is_some_and(|w| matches!(w.items.last(), Some((Expr::Prop(_, k), _)) if k == "h"));
                    if sortable && !via_with_h && !seen.contains(&item) {
                        seen.push(item);
                        q.order.push(OrderKey { item, desc, alt_form });
                    }
                }
            }
            if do_sl {
                q.skip = skip;
                q.limit = limit;
                if q.skip.is_none() && q.limit.is_none() {
                    q.limit = Some(2);
                }
            }
            q
        })
        .boxed()
}
