//! Building a database from a `GraphSpec`, running query text, converting results.

use grafeo_common::types::{EdgeId, NodeId, Value};
use grafeo_engine::GrafeoDB;

use super::ast::*;

pub fn to_value(v: &Val) -> Value {
    match v {
        Val::Null => Value::Null,
        Val::Bool(b) => Value::Bool(*b),
        Val::Int(i) => Value::Int64(*i),
        Val::Float(f) => Value::Float64(*f),
        Val::Str(s) => Value::from(s.as_str()),
        Val::List(l) => Value::List(l.iter().map(to_value).collect::<Vec<_>>().into()),
    }
}

/// Engine value → plain value. Anything outside the core kinds is kept visible as a tagged string so
/// that it can never compare equal to a reference value by accident.
pub fn from_value(v: &Value) -> Val {
    match v {
        Value::Null => Val::Null,
        Value::Bool(b) => Val::Bool(*b),
        Value::Int64(i) => Val::Int(*i),
        Value::Float64(f) => Val::Float(*f),
        Value::String(s) => Val::Str(s.to_string()),
        Value::List(l) => Val::List(l.iter().map(from_value).collect()),
        other => Val::Str(format!("<<{other:?}>>")),
    }
}

/// Fresh in-memory database holding exactly `g`, built through the direct API without any explicit
/// transaction (everything at epoch 0). Node index == NodeId and edge index == EdgeId (checked).
pub fn build_db(g: &GraphSpec) -> GrafeoDB {
    let db = GrafeoDB::new_in_memory();
    for (i, n) in g.nodes.iter().enumerate() {
        let labels: Vec<&str> = n.labels.iter().map(String::as_str).collect();
        let props: Vec<(String, Value)> = n.props.iter().map(|(k, v)| (k.clone(), to_value(v))).collect();
        let id = db.create_node_with_props(&labels, props);
        assert_eq!(id, NodeId(i as u64), "harness assumption: node ids are assigned 0,1,2,… on a fresh database");
    }
    for i in 0..g.n_edges() {
        let (s, d) = g.ends(i);
        let e = &g.edges[i];
        let props: Vec<(String, Value)> = e.props.iter().map(|(k, v)| (k.clone(), to_value(v))).collect();
        let id = db.create_edge_with_props(NodeId(s as u64), NodeId(d as u64), &e.ty, props);
        assert_eq!(id, EdgeId(i as u64), "harness assumption: edge ids are assigned 0,1,2,… on a fresh database");
    }
    db
}

#[derive(Debug, Clone, PartialEq)]
pub struct EngineRows {
    pub columns: Vec<String>,
    pub rows: Vec<Vec<Val>>,
}

/// Runs `text` in `lang` on a new session of `db`. `Err` carries the engine's error text.
pub fn run_query(db: &GrafeoDB, lang: Lang, text: &str) -> Result<EngineRows, String> {
    let session = db.session();
    let res = match lang {
        Lang::Gql => session.execute(text),
        Lang::Cypher => session.execute_cypher(text),
        Lang::Gremlin => session.execute_gremlin(text),
        Lang::GraphQl => session.execute_graphql(text),
    };
    match res {
        Ok(r) => Ok(EngineRows {
            columns: r.columns.clone(),
            rows: r.rows.iter().map(|row| row.iter().map(from_value).collect()).collect(),
        }),
        Err(e) => Err(e.to_string()),
    }
}
