//! Renderers: one query AST → text in each language that can express it (`None` otherwise).
//!
//! GQL and Cypher express the whole AST (textually almost identical here; they differ in the
//! parsers/translators behind them). Gremlin expresses single-chain traversals whose predicates
//! are conjunctions of one-property atoms and whose RETURN is one scalar of the last element (or one
//! aggregate of it). GraphQL expresses a labelled root type, outgoing typed nested hops, equality /
//! suffix-operator filters, property selections and first/offset.

use super::ast::*;

pub fn lit(v: &Val) -> String {
    match v {
        Val::Null => "null".into(),
        Val::Bool(b) => b.to_string(),
        Val::Int(i) => i.to_string(),
        Val::Float(f) => {
            // always with a fractional part so that the lexers produce a Float token
            if f.fract() == 0.0 { format!("{f:.1}") } else { format!("{f}") }
        }
        Val::Str(s) => format!("'{s}'"),
        Val::List(l) => format!("[{}]", l.iter().map(lit).collect::<Vec<_>>().join(", ")),
    }
}

/// A negative literal is parenthesised where it follows a binary operator.
fn lit_operand(v: &Val) -> String {
    let s = lit(v);
    if s.starts_with('-') { format!("({s})") } else { s }
}

// ------------------------------------------------------------------------------------------------
// GQL / Cypher
// ------------------------------------------------------------------------------------------------

fn props_map(props: &[(String, Val)]) -> String {
    if props.is_empty() {
        return String::new();
    }
    format!(" {{{}}}", props.iter().map(|(k, v)| format!("{k}: {}", lit(v))).collect::<Vec<_>>().join(", "))
}

fn node_text(n: &NodePat) -> String {
    let labels: String = n.labels.iter().map(|l| format!(":{l}")).collect();
    format!("({}{}{})", n.var, labels, props_map(&n.props))
}

fn edge_text(e: &EdgePat) -> String {
    let mut inner = String::new();
    if let Some(v) = &e.var {
        inner.push_str(v);
    }
    if let Some(t) = &e.ty {
        inner.push(':');
        inner.push_str(t);
    }
    if let Some((a, b)) = e.hops {
        inner.push_str(&format!("*{a}..{b}"));
    }
    inner.push_str(&props_map(&e.props));
    match e.dir {
        Dir::Out => format!("-[{inner}]->"),
        Dir::In => format!("<-[{inner}]-"),
        Dir::Both => format!("-[{inner}]-"),
    }
}

fn chain_text(c: &Chain) -> String {
    let mut s = node_text(&c.start);
    for (e, n) in &c.steps {
        s.push_str(&edge_text(e));
        s.push_str(&node_text(n));
    }
    s
}

pub fn expr_text(e: &Expr) -> String {
    match e {
        Expr::Prop(v, k) => format!("{v}.{k}"),
        Expr::Lit(v) => lit_operand(v),
        Expr::Var(v) => v.clone(),
        Expr::Arith(l, op, r) => {
            let o = match op {
                ArithOp::Add => "+",
                ArithOp::Sub => "-",
                ArithOp::Mul => "*",
                ArithOp::Div => "/",
                ArithOp::Mod => "%",
            };
            format!("({} {o} {})", expr_text(l), expr_text(r))
        }
        Expr::Id(v) => format!("id({v})"),
        Expr::Type(v) => format!("type({v})"),
        Expr::Labels(v) => format!("labels({v})"),
    }
}

/// Boolean connectives are always fully parenthesised (so no precedence question arises).
pub fn pred_text(p: &Pred) -> String {
    match p {
        Pred::Cmp(l, op, r) => {
            let o = match op {
                CmpOp::Eq => "=",
                CmpOp::Ne => "<>",
                CmpOp::Lt => "<",
                CmpOp::Le => "<=",
                CmpOp::Gt => ">",
                CmpOp::Ge => ">=",
            };
            format!("{} {o} {}", expr_text(l), expr_text(r))
        }
        Pred::And(l, r) => format!("(({}) AND ({}))", pred_text(l), pred_text(r)),
        Pred::Or(l, r) => format!("(({}) OR ({}))", pred_text(l), pred_text(r)),
        Pred::Not(x) => format!("(NOT ({}))", pred_text(x)),
        Pred::IsNull(e, neg) => format!("{} IS {}NULL", expr_text(e), if *neg { "NOT " } else { "" }),
        Pred::In(e, l) => format!("{} IN [{}]", expr_text(e), l.iter().map(lit).collect::<Vec<_>>().join(", ")),
        Pred::Str(e, op, s) => {
            let o = match op {
                StrOp::StartsWith => "STARTS WITH",
                StrOp::EndsWith => "ENDS WITH",
                StrOp::Contains => "CONTAINS",
            };
            format!("{} {o} '{s}'", expr_text(e))
        }
    }
}

/// `count(*)` is a syntax error in both the GQL and the Cypher parser; it is rendered as
/// `count(<first node variable>)`, which is never NULL and therefore counts rows.
fn ret_item_text(r: &RetItem, star_var: &str) -> String {
    match r {
        RetItem::Expr(e) => expr_text(e),
        RetItem::Agg(f, arg) => {
            let name = match f {
                AggFn::CountStar => return format!("count({star_var})"),
                AggFn::Count => "count",
                AggFn::Sum => "sum",
                AggFn::Min => "min",
                AggFn::Max => "max",
                AggFn::Avg => "avg",
                AggFn::Collect => "collect",
            };
            format!("{name}({})", arg.as_ref().map_or(String::new(), expr_text))
        }
    }
}

fn render_gql_like(q: &Query, lang: Lang) -> String {
    let star_var = q.chains[0].start.var.clone();
    let star_var = star_var.as_str();
    let mut s = String::from("MATCH ");
    s.push_str(&q.chains.iter().map(chain_text).collect::<Vec<_>>().join(", "));
    if let Some(f) = &q.filter {
        s.push_str(" WHERE ");
        s.push_str(&pred_text(f));
    }
    if let Some(w) = &q.with {
        s.push_str(" WITH ");
        s.push_str(
            &w.items
                .iter()
                .map(|(e, a)| if matches!(e, Expr::Var(v) if v == a) { a.clone() } else { format!("{} AS {a}", expr_text(e)) })
                .collect::<Vec<_>>()
                .join(", "),
        );
        if let Some(f) = &w.filter {
            s.push_str(" WHERE ");
            s.push_str(&pred_text(f));
        }
    }
    s.push_str(" RETURN ");
    if q.distinct {
        s.push_str("DISTINCT ");
    }
    s.push_str(&q.ret.iter().enumerate().map(|(i, r)| format!("{} AS c{i}", ret_item_text(r, star_var))).collect::<Vec<_>>().join(", "));
    if !q.order.is_empty() {
        s.push_str(" ORDER BY ");
        s.push_str(
            &q.order
                .iter()
                .map(|k| {
                    // the form each front end accepts best: GQL sorts before projecting (expression of a
                    // pattern variable) except after aggregation (output alias); Cypher sorts the
                    // projected rows (alias). `alt_form` swaps the two.
                    let native_alias = match lang {
                        Lang::Gql => q.ret[k.item].is_agg(),
                        _ => true,
                    };
                    let e = if native_alias != k.alt_form { format!("c{}", k.item) } else { ret_item_text(&q.ret[k.item], star_var) };
                    format!("{e}{}", if k.desc { " DESC" } else { " ASC" })
                })
                .collect::<Vec<_>>()
                .join(", "),
        );
    }
    if let Some(n) = q.skip {
        s.push_str(&format!(" SKIP {n}"));
    }
    if let Some(n) = q.limit {
        s.push_str(&format!(" LIMIT {n}"));
    }
    s
}

// ------------------------------------------------------------------------------------------------
// Gremlin
// ------------------------------------------------------------------------------------------------

fn conjuncts<'a>(p: &'a Pred, out: &mut Vec<&'a Pred>) -> bool {
    match p {
        Pred::And(l, r) => conjuncts(l, out) && conjuncts(r, out),
        Pred::Or(..) | Pred::Not(..) => false,
        _ => {
            out.push(p);
            true
        }
    }
}

/// (variable, gremlin step) for an atom `var.key <op> literal`.
fn gremlin_atom(p: &Pred) -> Option<(String, String)> {
    match p {
        Pred::Cmp(Expr::Prop(v, k), op, Expr::Lit(l)) => {
            let f = match op {
                CmpOp::Eq => "eq",
                CmpOp::Ne => "neq",
                CmpOp::Lt => "lt",
                CmpOp::Le => "lte",
                CmpOp::Gt => "gt",
                CmpOp::Ge => "gte",
            };
            Some((v.clone(), format!(".has('{k}', {f}({}))", lit(l))))
        }
        Pred::IsNull(Expr::Prop(v, k), neg) => {
            Some((v.clone(), if *neg { format!(".has('{k}')") } else { format!(".hasNot('{k}')") }))
        }
        Pred::In(Expr::Prop(v, k), l) => {
            Some((v.clone(), format!(".has('{k}', within({}))", l.iter().map(lit).collect::<Vec<_>>().join(", "))))
        }
        Pred::Str(Expr::Prop(v, k), op, s) => {
            let f = match op {
                StrOp::StartsWith => "startingWith",
                StrOp::EndsWith => "endingWith",
                StrOp::Contains => "containing",
            };
            Some((v.clone(), format!(".has('{k}', {f}('{s}'))")))
        }
        _ => None,
    }
}

fn render_gremlin(q: &Query) -> Option<String> {
    if q.chains.len() != 1 || q.with.is_some() || q.ret.len() != 1 || q.has_varlen() {
        return None;
    }
    let c = &q.chains[0];
    if c.steps.iter().any(|(e, _)| !e.props.is_empty()) {
        return None;
    }
    let mut atoms = Vec::new();
    if let Some(f) = &q.filter {
        let mut cs = Vec::new();
        if !conjuncts(f, &mut cs) {
            return None;
        }
        for p in cs {
            atoms.push(gremlin_atom(p)?);
        }
    }
    let node_vars: Vec<&str> = c.node_pats().iter().map(|n| n.var.as_str()).collect();
    if atoms.iter().any(|(v, _)| !node_vars.contains(&v.as_str())) {
        return None; // predicates on edge variables are not rendered
    }
    let last = *node_vars.last().unwrap();
    let mut s = String::from("g.V()");
    let node_steps = |n: &NodePat, s: &mut String| {
        for l in &n.labels {
            s.push_str(&format!(".hasLabel('{l}')"));
        }
        for (k, v) in &n.props {
            s.push_str(&format!(".has('{k}', {})", lit(v)));
        }
        for (v, step) in &atoms {
            if *v == n.var {
                s.push_str(step);
            }
        }
    };
    node_steps(&c.start, &mut s);
    for (e, n) in &c.steps {
        let step = match e.dir {
            Dir::Out => "out",
            Dir::In => "in",
            Dir::Both => "both",
        };
        match &e.ty {
            Some(t) => s.push_str(&format!(".{step}('{t}')")),
            None => s.push_str(&format!(".{step}()")),
        }
        node_steps(n, &mut s);
    }
    // ORDER BY the returned property of the last element, before projecting it
    let order_step = |s: &mut String| -> Option<()> {
        match q.order.as_slice() {
            [] => Some(()),
            [k] => {
                if let RetItem::Expr(Expr::Prop(v, key)) = &q.ret[k.item]
                    && v == last
                {
                    s.push_str(&format!(".order().by('{key}', {})", if k.desc { "desc" } else { "asc" }));
                    Some(())
                } else {
                    None
                }
            }
            _ => None,
        }
    };
    match &q.ret[0] {
        RetItem::Expr(Expr::Prop(v, k)) if v == last => {
            // values() drops elements without the key; the AST's RETURN keeps a NULL row, so the
            // shapes only agree when the key is required to exist
            s.push_str(&format!(".has('{k}')"));
            order_step(&mut s)?;
            s.push_str(&format!(".values('{k}')"));
            if q.distinct {
                s.push_str(".dedup()");
            }
        }
        RetItem::Expr(Expr::Id(v)) if v == last => {
            if !q.order.is_empty() || q.distinct {
                return None;
            }
            // paging must precede id() (which ends the traversal with a projection)
            if let Some(n) = q.skip {
                s.push_str(&format!(".skip({n})"));
            }
            if let Some(n) = q.limit {
                s.push_str(&format!(".limit({n})"));
            }
            // the traversal ends on the vertex itself, which the engine returns as its id
            // (`.id()` is rejected by the planner: "Unsupported RETURN expression: Id")
            return Some(s);
        }
        RetItem::Agg(f, arg) => {
            if !q.order.is_empty() || q.skip.is_some() || q.limit.is_some() {
                return None;
            }
            match (f, arg) {
                (AggFn::CountStar, None) => s.push_str(".count()"),
                (f, Some(Expr::Prop(v, k))) if v == last => {
                    let step = match f {
                        AggFn::Count => "count",
                        AggFn::Sum => "sum",
                        AggFn::Min => "min",
                        AggFn::Max => "max",
                        AggFn::Avg => "mean",
                        AggFn::Collect => "fold",
                        AggFn::CountStar => return None,
                    };
                    // values() of a missing key: Gremlin drops the traverser, this engine keeps a NULL;
                    // requiring the key keeps the rendering neutral (aggregates skip NULLs anyway)
                    s.push_str(&format!(".has('{k}').values('{k}').{step}()"));
                }
                _ => return None,
            }
            return Some(s);
        }
        _ => return None,
    }
    if let Some(n) = q.skip {
        s.push_str(&format!(".skip({n})"));
    }
    if let Some(n) = q.limit {
        s.push_str(&format!(".limit({n})"));
    }
    Some(s)
}

/// True when the Gremlin rendering adds a `has(key)` existence requirement for the returned key
/// (the reference must then be evaluated on the AST with that conjunct added).
pub fn gremlin_adjusted(q: &Query) -> Query {
    let mut q2 = q.clone();
    if let Some(RetItem::Expr(Expr::Prop(v, k))) = q.ret.first() {
        let extra = Pred::IsNull(Expr::Prop(v.clone(), k.clone()), true);
        q2.filter = Some(match q2.filter.take() {
            Some(f) => Pred::And(Box::new(f), Box::new(extra)),
            None => extra,
        });
    }
    q2
}

// ------------------------------------------------------------------------------------------------
// GraphQL
// ------------------------------------------------------------------------------------------------

fn graphql_value(v: &Val) -> Option<String> {
    Some(match v {
        Val::Str(s) => format!("\"{s}\""),
        Val::List(l) => format!("[{}]", l.iter().map(graphql_value).collect::<Option<Vec<_>>>()?.join(", ")),
        Val::Null => return None,
        other => lit(other),
    })
}

fn graphql_atom(p: &Pred) -> Option<(String, String)> {
    match p {
        Pred::Cmp(Expr::Prop(v, k), op, Expr::Lit(l)) => {
            let suffix = match op {
                CmpOp::Eq => "",
                CmpOp::Ne => "_ne",
                CmpOp::Lt => "_lt",
                CmpOp::Le => "_lte",
                CmpOp::Gt => "_gt",
                CmpOp::Ge => "_gte",
            };
            Some((v.clone(), format!("{k}{suffix}: {}", graphql_value(l)?)))
        }
        Pred::In(Expr::Prop(v, k), l) => Some((v.clone(), format!("{k}_in: {}", graphql_value(&Val::List(l.clone()))?))),
        Pred::Str(Expr::Prop(v, k), op, s) => {
            let suffix = match op {
                StrOp::StartsWith => "_starts_with",
                StrOp::EndsWith => "_ends_with",
                StrOp::Contains => "_contains",
            };
            Some((v.clone(), format!("{k}{suffix}: \"{s}\"")))
        }
        _ => None,
    }
}

fn render_graphql(q: &Query) -> Option<String> {
    if q.chains.len() != 1 || q.with.is_some() || q.has_agg() || q.distinct || q.has_varlen() {
        return None;
    }
    let c = &q.chains[0];
    if c.start.labels.len() != 1 {
        return None;
    }
    for (e, n) in &c.steps {
        if e.dir != Dir::Out || e.ty.is_none() || !e.props.is_empty() || !n.labels.is_empty() {
            return None;
        }
    }
    let pats = c.node_pats();
    let mut atoms: Vec<(String, String)> = Vec::new();
    for n in &pats {
        for (k, v) in &n.props {
            atoms.push((n.var.clone(), format!("{k}: {}", graphql_value(v)?)));
        }
    }
    if let Some(f) = &q.filter {
        let mut cs = Vec::new();
        if !conjuncts(f, &mut cs) {
            return None;
        }
        for p in cs {
            atoms.push(graphql_atom(p)?);
        }
    }
    let vars: Vec<&str> = pats.iter().map(|n| n.var.as_str()).collect();
    if atoms.iter().any(|(v, _)| !vars.contains(&v.as_str())) {
        return None;
    }
    // RETURN: properties only, in chain order (root fields first, then nested), every chain node at
    // or above the deepest selected one is traversed anyway
    let mut per_var: Vec<Vec<String>> = vec![Vec::new(); pats.len()];
    let mut last_pos = 0usize;
    for r in &q.ret {
        let RetItem::Expr(Expr::Prop(v, k)) = r else { return None };
        let pos = vars.iter().position(|x| x == v)?;
        if pos < last_pos {
            return None; // selection order is chain order
        }
        last_pos = pos;
        per_var[pos].push(k.clone());
    }
    // the innermost node must select something (a nested field without selection returns the node)
    if per_var.last().is_some_and(Vec::is_empty) {
        return None;
    }
    // ORDER BY: root properties only
    let mut order_arg = String::new();
    if !q.order.is_empty() {
        let mut parts = Vec::new();
        for k in &q.order {
            let RetItem::Expr(Expr::Prop(v, key)) = &q.ret[k.item] else { return None };
            if v != vars[0] {
                return None;
            }
            parts.push(format!("{key}: {}", if k.desc { "DESC" } else { "ASC" }));
        }
        order_arg = format!("orderBy: {{{}}}", parts.join(", "));
    }
    let args_for = |var: &str, root: bool| -> String {
        let mine: Vec<&String> = atoms.iter().filter(|(v, _)| v == var).map(|(_, a)| a).collect();
        let mut args = Vec::new();
        if !mine.is_empty() {
            args.push(format!("filter: {{{}}}", mine.iter().map(|s| s.as_str()).collect::<Vec<_>>().join(", ")));
        }
        if root {
            if !order_arg.is_empty() {
                args.push(order_arg.clone());
            }
            if let Some(n) = q.limit {
                args.push(format!("first: {n}"));
            }
            if let Some(n) = q.skip {
                args.push(format!("offset: {n}"));
            }
        }
        if args.is_empty() { String::new() } else { format!("({})", args.join(", ")) }
    };
    // build inside-out
    let mut body = String::new();
    for i in (0..pats.len()).rev() {
        let mut sel = per_var[i].join(" ");
        if !body.is_empty() {
            if !sel.is_empty() {
                sel.push(' ');
            }
            sel.push_str(&body);
        }
        let (name, root) = if i == 0 {
            (c.start.labels[0].to_lowercase(), true)
        } else {
            (c.steps[i - 1].0.ty.clone().unwrap(), false)
        };
        body = format!("{name}{} {{ {sel} }}", args_for(vars[i], root));
    }
    Some(format!("query {{ {body} }}"))
}

/// Text of `q` in `lang`, or None when the language cannot express it.
pub fn render(q: &Query, lang: Lang) -> Option<String> {
    match lang {
        Lang::Gql | Lang::Cypher => Some(render_gql_like(q, lang)),
        Lang::Gremlin => render_gremlin(q),
        Lang::GraphQl => render_graphql(q),
    }
}

/// The AST whose reference answer corresponds to the rendering in `lang` (identical to `q` except
/// where a language's projection step necessarily adds an existence requirement).
pub fn effective_query(q: &Query, lang: Lang) -> Query {
    match lang {
        Lang::Gremlin if matches!(q.ret.first(), Some(RetItem::Expr(Expr::Prop(..)))) => gremlin_adjusted(q),
        _ => q.clone(),
    }
}
