//! Renderers: one query AST → text in each language that can express it (`None` otherwise).
//!
//! GQL and Cypher express the whole AST (textually almost identical here; they differ in the
//! parsers/translators behind them). Gremlin expresses single-chain traversals whose predicates
//! are conjunctions of one-property atoms and whose RETURN is one scalar of the last element (or one
//! aggregate of it). GraphQL expresses a labelled root type, outgoing typed nested hops, equality /
//! suffix-operator filters, property selections and first/offset.

use super::ast::*;

pub fn lit(v: &Val) -> String {
    match v {
        Val::Null => "null".into(),
        Val::Bool(b) => b.to_string(),
        Val::Int(i) => i.to_string(),
        Val::Float(f) => {
            // always with a fractional part so that the lexers produce a Float token
            if f.fract() == 0.0 { format!("{f:.1}") } else { format!("{f}") }
        }
        Val::Str(s) => format!("'{s}'"),
        Val::List(l) => format!("[{}]", l.iter().map(lit).collect::<Vec<_>>().join(", ")),
    }
}

/// A negative literal is parenthesised where it follows a binary operator.
fn lit_operand(v: &Val) -> String {
    let s = lit(v);
    if s.starts_with('-') { format!("({s})") } else { s }
}

// ------------------------------------------------------------------------------------------------
// GQL / Cypher
// ------------------------------------------------------------------------------------------------

fn props_map(props: &[(String, Val)]) -> String {
    if props.is_empty() {
        return String::new();
    }
    format!(" {{{}}}", props.iter().map(|(k, v)| format!("{k}: {}", lit(v))).collect::<Vec<_>>().join(", "))
}

fn node_text(n: &NodePat) -> String {
    let labels: String = n.labels.iter().map(|l| format!(":{l}")).collect();
    format!("({}{}{})", n.var, labels, props_map(&n.props))
}

fn edge_text(e: &EdgePat) -> String {
    let mut inner = String::new();
    if let Some(v) = &e.var {
        inner.push_str(v);
    }
    if let Some(t) = &e.ty {
        inner.push(':');
        inner.push_str(t);
    }
    if let Some((a, b)) = e.hops {
        inner.push_str(&format!("*{a}..{b}"));
    }
    inner.push_str(&props_map(&e.props));
    match e.dir {
        Dir::Out => format!("-[{inner}]->"),
        Dir::In => format!("<-[{inner}]-"),
        Dir::Both => format!("-[{inner}]-"),
    }
}

fn chain_text(c: &Chain) -> String {
    let mut s = node_text(&c.start);
    for (e, n) in &c.steps {
        s.push_str(&edge_text(e));
        s.push_str(&node_text(n));
    }
    s
}

pub fn expr_text(e: &Expr) -> String {
    match e {
        Expr::Prop(v, k) => format!("{v}.{k}"),
        Expr::Lit(v) => lit_operand(v),
        Expr::Var(v) => v.clone(),
        Expr::Arith(l, op, r) => {
            let o = match op {
                ArithOp::Add => "+",
                ArithOp::Sub => "-",
                ArithOp::Mul => "*",
                ArithOp::Div => "/",
                ArithOp::Mod => "%",
            };
            format!("({} {o} {})", expr_text(l), expr_text(r))
        }
        Expr::Id(v) => format!("id({v})"),
        Expr::Type(v) => format!("type({v})"),
        Expr::Labels(v) => format!("labels({v})"),
    }
}

/// Boolean connectives are always fully parenthesised (so no precedence question arises).
pub fn pred_text(p: &Pred) -> String {
    match p {
        Pred::Cmp(l, op, r) => {
            let o = match op {
                CmpOp::Eq => "=",
                CmpOp::Ne => "<>",
                CmpOp::Lt => "<",
                CmpOp::Le => "<=",
                CmpOp::Gt => ">",
                CmpOp::Ge => ">=",
            };
            format!("{} {o} {}", expr_text(l), expr_text(r))
        }
        Pred::And(l, r) => format!("(({}) AND ({}))", pred_text(l), pred_text(r)),
        Pred::Or(l, r) => format!("(({}) OR ({}))", pred_text(l), pred_text(r)),
        Pred::Not(x) => format!("(NOT ({}))", pred_text(x)),
        Pred::IsNull(e, neg) => format!("{} IS {}NULL", expr_text(e), if *neg { "NOT " } else { "" }),
        Pred::In(e, l) => format!("{} IN [{}]", expr_text(e), l.iter().map(lit).collect::<Vec<_>>().join(", ")),
        Pred::Str(e, op, s) => {
            let o = match op {
                StrOp::StartsWith => "STARTS WITH",
                StrOp::EndsWith => "ENDS WITH",
                StrOp::Contains => "CONTAINS",
            };
            format!("{} {o} '{s}'", expr_text(e))
        }
    }
}

/// `count(*)` is a syntax error in both the GQL and the Cypher parser; it is rendered as
/// `count(<first node variable>)`, which is never NULL and therefore counts rows.
fn ret_item_text(r: &RetItem, star_var: &str) -> String {
    match r {
        RetItem::Expr(e) => expr_text(e),
        RetItem::Agg(f, arg) => {
            let name = match f {
                AggFn::CountStar => return format!("count({star_var})"),
                AggFn::Count => "count",
                AggFn::Sum => "sum",
                AggFn::Min => "min",
                AggFn::Max => "max",
                AggFn::Avg => "avg",
                AggFn::Collect => "collect",
            };
            format!("{name}({})", arg.as_ref().map_or(String::new(), expr_text))
        }
    }
}

fn render_gql_like(q: &Query, lang: Lang) -> Option<String> {
    let star_var = q.chains[0].start.var.clone();
    let star_var = star_var.as_str();
    let mut s = String::from("MATCH ");
    s.push_str(&q.chains.iter().map(chain_text).collect::<Vec<_>>().join(", "));
    if let Some(f) = &q.filter {
        // GQL (this parser): one WHERE after *all* MATCH clauses; `MATCH .. WHERE .. OPTIONAL MATCH` is a
        // syntax error, and a WHERE placed after the OPTIONAL MATCH belongs to the optional pattern
        if lang == Lang::Gql && q.opt.is_some() {
            return None;
        }
        s.push_str(" WHERE ");
        s.push_str(&pred_text(f));
    }
    if let Some(o) = &q.opt {
        s.push_str(" OPTIONAL MATCH ");
        s.push_str(&chain_text(&o.chain));
        if let Some(f) = &o.filter {
            s.push_str(" WHERE ");
            s.push_str(&pred_text(f));
        }
    }
    if let Some(w) = &q.with {
        s.push_str(" WITH ");
        s.push_str(
            &w.items
                .iter()
                .map(|(e, a)| if matches!(e, Expr::Var(v) if v == a) { a.clone() } else { format!("{} AS {a}", expr_text(e)) })
                .collect::<Vec<_>>()
                .join(", "),
        );
        if let Some(f) = &w.filter {
            s.push_str(" WHERE ");
            s.push_str(&pred_text(f));
        }
    }
    s.push_str(" RETURN ");
    if q.distinct {
        s.push_str("DISTINCT ");
    }
    s.push_str(&q.ret.iter().enumerate().map(|(i, r)| format!("{} AS c{i}", ret_item_text(r, star_var))).collect::<Vec<_>>().join(", "));
    if !q.order.is_empty() {
        s.push_str(" ORDER BY ");
        s.push_str(
            &q.order
                .iter()
                .map(|k| {
                    // the form each front end accepts best: GQL sorts before projecting (expression of a
                    // pattern variable) except after aggregation (output alias); Cypher sorts the
                    // projected rows (alias). `alt_form` swaps the two.
                    let native_alias = match lang {
                        Lang::Gql => q.ret[k.item].is_agg(),
                        _ => true,
                    };
                    let e = if native_alias != k.alt_form { format!("c{}", k.item) } else { ret_item_text(&q.ret[k.item], star_var) };
                    format!("{e}{}", if k.desc { " DESC" } else { " ASC" })
                })
                .collect::<Vec<_>>()
                .join(", "),
        );
    }
    if let Some(n) = q.skip {
        s.push_str(&format!(" SKIP {n}"));
    }
    if let Some(n) = q.limit {
        s.push_str(&format!(" LIMIT {n}"));
    }
    Some(s)
}

// ------------------------------------------------------------------------------------------------
// Gremlin
// ------------------------------------------------------------------------------------------------
//
// What the engine's Gremlin front end implements (read from gremlin/parser.rs + gremlin_translator.rs):
// V(), hasLabel, has(k) / has(k, v) / has(k, pred) with eq neq lt lte gt gte within without between
// containing startingWith endingWith, hasNot, out/in/both(type), outE/inE/bothE(type) (the traversal then
// stands on the edge; inV/outV/otherV lead on to a vertex), values(k) (first key only), the element itself
// (returned as its id) or id(), label(), count/sum/min/max/mean/fold,
// dedup(), order().by(k, asc|desc) (one key), skip/limit. There is no where()/and()/or()/not()/select():
// a traversal can only talk about the element it stands on, so the RETURN must refer to one element at an
// end of the chain (the chain is walked towards it, reversing the directions if it is the start).

fn conjuncts<'a>(p: &'a Pred, out: &mut Vec<&'a Pred>) -> bool {
    match p {
        Pred::And(l, r) => conjuncts(l, out) && conjuncts(r, out),
        Pred::Or(..) => false,
        // NOT over a single IN / IS NULL atom is itself an atom (without(...) / has / hasNot)
        Pred::Not(x) if matches!(**x, Pred::In(..) | Pred::IsNull(..)) => {
            out.push(p);
            true
        }
        Pred::Not(..) => false,
        _ => {
            out.push(p);
            true
        }
    }
}

fn flip(op: CmpOp) -> CmpOp {
    match op {
        CmpOp::Lt => CmpOp::Gt,
        CmpOp::Le => CmpOp::Ge,
        CmpOp::Gt => CmpOp::Lt,
        CmpOp::Ge => CmpOp::Le,
        o => o,
    }
}

/// (variable, gremlin step) for an atom `var.key <op> literal` (either operand order).
fn gremlin_atom(p: &Pred) -> Option<(String, String)> {
    let cmp = |v: &String, k: &String, op: CmpOp, l: &Val| {
        let f = match op {
            CmpOp::Eq => "eq",
            CmpOp::Ne => "neq",
            CmpOp::Lt => "lt",
            CmpOp::Le => "lte",
            CmpOp::Gt => "gt",
            CmpOp::Ge => "gte",
        };
        (v.clone(), format!(".has('{k}', {f}({}))", lit(l)))
    };
    match p {
        Pred::Cmp(Expr::Prop(v, k), op, Expr::Lit(l)) => Some(cmp(v, k, *op, l)),
        Pred::Cmp(Expr::Lit(l), op, Expr::Prop(v, k)) => Some(cmp(v, k, flip(*op), l)),
        Pred::IsNull(Expr::Prop(v, k), neg) => {
            Some((v.clone(), if *neg { format!(".has('{k}')") } else { format!(".hasNot('{k}')") }))
        }
        Pred::In(Expr::Prop(v, k), l) => {
            Some((v.clone(), format!(".has('{k}', within({}))", l.iter().map(lit).collect::<Vec<_>>().join(", "))))
        }
        Pred::Not(x) => match &**x {
            Pred::In(Expr::Prop(v, k), l) => {
                Some((v.clone(), format!(".has('{k}', without({}))", l.iter().map(lit).collect::<Vec<_>>().join(", "))))
            }
            Pred::IsNull(Expr::Prop(v, k), neg) => {
                Some((v.clone(), if *neg { format!(".hasNot('{k}')") } else { format!(".has('{k}')") }))
            }
            _ => None,
        },
        Pred::Str(Expr::Prop(v, k), op, s) => {
            let f = match op {
                StrOp::StartsWith => "startingWith",
                StrOp::EndsWith => "endingWith",
                StrOp::Contains => "containing",
            };
            Some((v.clone(), format!(".has('{k}', {f}('{s}'))")))
        }
        _ => None,
    }
}

fn rev_dir(d: Dir) -> Dir {
    match d {
        Dir::Out => Dir::In,
        Dir::In => Dir::Out,
        Dir::Both => Dir::Both,
    }
}

fn node_unconstrained(n: &NodePat, atoms: &[(String, String)]) -> bool {
    n.labels.is_empty() && n.props.is_empty() && !atoms.iter().any(|(v, _)| *v == n.var)
}

fn render_gremlin(q: &Query) -> Option<String> {
    if q.chains.len() != 1 || q.with.is_some() || q.opt.is_some() || q.ret.len() != 1 || q.has_varlen() {
        return None;
    }
    let c = &q.chains[0];
    let mut atoms = Vec::new();
    if let Some(f) = &q.filter {
        let mut cs = Vec::new();
        if !conjuncts(f, &mut cs) {
            return None;
        }
        for p in cs {
            atoms.push(gremlin_atom(p)?);
        }
    }
    // the element the RETURN talks about (None: count(*) — any element will do)
    let focus: Option<&String> = match &q.ret[0] {
        RetItem::Expr(Expr::Prop(v, _) | Expr::Id(v) | Expr::Labels(v)) => Some(v),
        RetItem::Agg(AggFn::CountStar, None) => None,
        RetItem::Agg(AggFn::Count, Some(Expr::Var(_))) => None, // a pattern variable is never NULL: counts rows
        RetItem::Agg(_, Some(Expr::Prop(v, _))) => Some(v),
        _ => return None,
    };
    let k = c.steps.len();
    let pats = c.node_pats();
    // orientation and whether the walk ends on an edge
    let mut reversed = false;
    let mut edge_focus = false;
    match focus {
        None => {}
        Some(f) if *f == pats[k].var => {}
        Some(f) if *f == pats[0].var => reversed = true,
        Some(f) => {
            if k == 0 {
                return None;
            }
            edge_focus = true;
            if c.steps[k - 1].0.var.as_ref() == Some(f) && node_unconstrained(pats[k], &atoms) {
                // forward, last step is outE/inE/bothE
            } else if c.steps[0].0.var.as_ref() == Some(f) && node_unconstrained(pats[0], &atoms) {
                reversed = true;
            } else {
                return None;
            }
        }
    }
    // walking order: nodes w[0..=k], steps s[0..k] with s[i] leading from w[i] to w[i+1]
    let walk_nodes: Vec<&NodePat> = if reversed { pats.iter().rev().copied().collect() } else { pats.clone() };
    let walk_steps: Vec<(&EdgePat, Dir)> = if reversed {
        c.steps.iter().rev().map(|(e, _)| (e, rev_dir(e.dir))).collect()
    } else {
        c.steps.iter().map(|(e, _)| (e, e.dir)).collect()
    };
    let mut s = String::from("g.V()");
    let elem_steps = |var: Option<&String>, labels: &[String], props: &[(String, Val)], s: &mut String| {
        for l in labels {
            s.push_str(&format!(".hasLabel('{l}')"));
        }
        for (k, v) in props {
            s.push_str(&format!(".has('{k}', {})", lit(v)));
        }
        if let Some(var) = var {
            for (v, step) in &atoms {
                if v == var {
                    s.push_str(step);
                }
            }
        }
    };
    elem_steps(Some(&walk_nodes[0].var), &walk_nodes[0].labels, &walk_nodes[0].props, &mut s);
    for (i, (e, dir)) in walk_steps.iter().enumerate() {
        let on_edge = edge_focus && i + 1 == k;
        // an edge that carries an inline map or a predicate is visited (outE .. inV), a plain hop is not
        let has_atoms = e.var.as_ref().is_some_and(|v| atoms.iter().any(|(av, _)| av == v));
        let via_edge = on_edge || !e.props.is_empty() || has_atoms;
        let step = match (dir, via_edge) {
            (Dir::Out, false) => "out",
            (Dir::In, false) => "in",
            (Dir::Both, false) => "both",
            (Dir::Out, true) => "outE",
            (Dir::In, true) => "inE",
            (Dir::Both, true) => "bothE",
        };
        match &e.ty {
            Some(t) => s.push_str(&format!(".{step}('{t}')")),
            None => s.push_str(&format!(".{step}()")),
        }
        if via_edge {
            elem_steps(e.var.as_ref(), &[], &e.props, &mut s);
        }
        if !on_edge {
            if via_edge {
                s.push_str(match dir {
                    Dir::Out => ".inV()",
                    Dir::In => ".outV()",
                    Dir::Both => ".otherV()",
                });
            }
            let n = walk_nodes[i + 1];
            elem_steps(Some(&n.var), &n.labels, &n.props, &mut s);
        }
    }
    let paging = |s: &mut String| {
        if let Some(n) = q.skip {
            s.push_str(&format!(".skip({n})"));
        }
        if let Some(n) = q.limit {
            s.push_str(&format!(".limit({n})"));
        }
    };
    match &q.ret[0] {
        RetItem::Expr(Expr::Prop(_, key)) => {
            // values() drops elements without the key; the AST's RETURN keeps a NULL row, so the
            // shapes only agree when the key is required to exist
            s.push_str(&format!(".has('{key}')"));
            match q.order.as_slice() {
                [] => {
                    s.push_str(&format!(".values('{key}')"));
                    if q.distinct {
                        s.push_str(".dedup()");
                    }
                }
                [o] if !o.alt_form => {
                    // ORDER BY the returned property of the element, before projecting it
                    s.push_str(&format!(".order().by('{key}', {}).values('{key}')", if o.desc { "desc" } else { "asc" }));
                    if q.distinct {
                        s.push_str(".dedup()");
                    }
                }
                [o] => {
                    // ... or the projected values themselves
                    s.push_str(&format!(".values('{key}')"));
                    if q.distinct {
                        s.push_str(".dedup()");
                    }
                    s.push_str(&format!(".order().by({})", if o.desc { "desc" } else { "asc" }));
                }
                _ => return None,
            }
            paging(&mut s);
        }
        RetItem::Expr(Expr::Id(_)) => {
            // the traversal ends on the element itself, which the engine returns as its id
            // (`.id()` is rejected by the planner: "Unsupported RETURN expression: Id")
            // (ORDER BY id is rejected by every front end: "Unsupported ORDER BY expression")
            if !q.order.is_empty() {
                return None;
            }
            if q.distinct {
                s.push_str(".dedup()");
            }
            paging(&mut s);
            // the explicit projection ends the traversal (nothing may follow it): used where nothing does
            if !q.distinct && q.skip.is_none() && q.limit.is_none() && k % 2 == 1 {
                s.push_str(".id()");
            }
        }
        RetItem::Expr(Expr::Labels(_)) => {
            if edge_focus || !q.order.is_empty() || q.distinct || q.skip.is_some() || q.limit.is_some() {
                return None;
            }
            s.push_str(".label()");
        }
        RetItem::Agg(f, arg) => {
            if !q.order.is_empty() || q.skip.is_some() || q.limit.is_some() || q.distinct {
                return None;
            }
            match (f, arg) {
                (AggFn::CountStar, None) | (AggFn::Count, Some(Expr::Var(_))) => s.push_str(".count()"),
                (f, Some(Expr::Prop(_, key))) => {
                    let step = match f {
                        AggFn::Count => "count",
                        AggFn::Sum => "sum",
                        AggFn::Min => "min",
                        AggFn::Max => "max",
                        AggFn::Avg => "mean",
                        AggFn::Collect => "fold",
                        AggFn::CountStar => return None,
                    };
                    // values() of a missing key: Gremlin drops the traverser, this engine keeps a NULL;
                    // requiring the key keeps the rendering neutral (aggregates skip NULLs anyway)
                    s.push_str(&format!(".has('{key}').values('{key}').{step}()"));
                }
                _ => return None,
            }
        }
        _ => return None,
    }
    Some(s)
}

/// True when the Gremlin rendering adds a `has(key)` existence requirement for the returned key
/// (the reference must then be evaluated on the AST with that conjunct added).
pub fn gremlin_adjusted(q: &Query) -> Query {
    let mut q2 = q.clone();
    if let Some(RetItem::Expr(Expr::Prop(v, k))) = q.ret.first() {
        // `v.k = v.k` is true exactly when the property exists (unknown, hence filtered, when it is NULL); unlike
        // IS NOT NULL every front end parses it, so the cross-language sub-check can ask GQL the same question
        let extra = Pred::Cmp(Expr::Prop(v.clone(), k.clone()), CmpOp::Eq, Expr::Prop(v.clone(), k.clone()));
        q2.filter = Some(match q2.filter.take() {
            Some(f) => Pred::And(Box::new(f), Box::new(extra)),
            None => extra,
        });
    }
    q2
}

// ------------------------------------------------------------------------------------------------
// GraphQL
// ------------------------------------------------------------------------------------------------
//
// What the engine's GraphQL front end implements (graphql/parser.rs + graphql_translator.rs): the root field
// is a label scan (first letter capitalised), a nested field with a selection set is an *outgoing* hop over
// the edge type of that name to an unlabelled node, scalar fields are property projections (in selection
// order, nested ones where the nested field stands), `filter:`/`where:` objects with operator suffixes
// (_gt _gte _lt _lte _ne _in _contains _starts_with _ends_with) or direct `key: value` equality on every
// level, and on the root `orderBy: {key: ASC|DESC, ...}`, `first`/`limit`, `offset`/`skip`. No aggregates,
// DISTINCT, IS NULL, id(), incoming hops — but a chain of incoming hops whose far end carries the one label
// is the same pattern read from that end.

fn graphql_value(v: &Val) -> Option<String> {
    Some(match v {
        Val::Str(s) => format!("\"{s}\""),
        Val::List(l) => format!("[{}]", l.iter().map(graphql_value).collect::<Option<Vec<_>>>()?.join(", ")),
        Val::Null => return None,
        other => lit(other),
    })
}

fn graphql_atom(p: &Pred) -> Option<(String, String)> {
    let cmp = |v: &String, k: &String, op: CmpOp, l: &Val| -> Option<(String, String)> {
        let suffix = match op {
            CmpOp::Eq => "",
            CmpOp::Ne => "_ne",
            CmpOp::Lt => "_lt",
            CmpOp::Le => "_lte",
            CmpOp::Gt => "_gt",
            CmpOp::Ge => "_gte",
        };
        Some((v.clone(), format!("{k}{suffix}: {}", graphql_value(l)?)))
    };
    match p {
        Pred::Cmp(Expr::Prop(v, k), op, Expr::Lit(l)) => cmp(v, k, *op, l),
        Pred::Cmp(Expr::Lit(l), op, Expr::Prop(v, k)) => cmp(v, k, flip(*op), l),
        Pred::In(Expr::Prop(v, k), l) => Some((v.clone(), format!("{k}_in: {}", graphql_value(&Val::List(l.clone()))?))),
        Pred::Str(Expr::Prop(v, k), op, s) => {
            let suffix = match op {
                StrOp::StartsWith => "_starts_with",
                StrOp::EndsWith => "_ends_with",
                StrOp::Contains => "_contains",
            };
            Some((v.clone(), format!("{k}{suffix}: \"{s}\"")))
        }
        _ => None,
    }
}

fn render_graphql(q: &Query) -> Option<String> {
    if q.chains.len() != 1 || q.with.is_some() || q.opt.is_some() || q.has_agg() || q.distinct || q.has_varlen() {
        return None;
    }
    let c = &q.chains[0];
    let pats = c.node_pats();
    let k = c.steps.len();
    if c.steps.iter().any(|(e, _)| e.ty.is_none() || !e.props.is_empty()) {
        return None;
    }
    // orientation: the root is the end that carries exactly one label, every hop leads away from it and
    // no other node is labelled
    let forward = pats[0].labels.len() == 1
        && c.steps.iter().all(|(e, n)| e.dir == Dir::Out && n.labels.is_empty());
    let backward = k > 0
        && pats[k].labels.len() == 1
        && c.steps.iter().all(|(e, _)| e.dir == Dir::In)
        && pats[..k].iter().all(|n| n.labels.is_empty());
    let (nodes, types): (Vec<&NodePat>, Vec<&String>) = if forward {
        (pats.clone(), c.steps.iter().map(|(e, _)| e.ty.as_ref().unwrap()).collect())
    } else if backward {
        (pats.iter().rev().copied().collect(), c.steps.iter().rev().map(|(e, _)| e.ty.as_ref().unwrap()).collect())
    } else {
        return None;
    };
    let mut atoms: Vec<(String, String)> = Vec::new();
    for n in &nodes {
        for (k, v) in &n.props {
            atoms.push((n.var.clone(), format!("{k}: {}", graphql_value(v)?)));
        }
    }
    if let Some(f) = &q.filter {
        let mut cs = Vec::new();
        if !conjuncts(f, &mut cs) {
            return None;
        }
        for p in cs {
            atoms.push(graphql_atom(p)?);
        }
    }
    let vars: Vec<&str> = nodes.iter().map(|n| n.var.as_str()).collect();
    if atoms.iter().any(|(v, _)| !vars.contains(&v.as_str())) {
        return None; // predicates on edge variables
    }
    // RETURN: node properties only; (depth, key) per item in RETURN order
    let mut items: Vec<(usize, &str)> = Vec::new();
    for r in &q.ret {
        let RetItem::Expr(Expr::Prop(v, key)) = r else { return None };
        items.push((vars.iter().position(|x| x == v)?, key.as_str()));
    }
    // ORDER BY: root properties only
    let mut order_arg = String::new();
    if !q.order.is_empty() {
        let mut parts = Vec::new();
        for o in &q.order {
            let RetItem::Expr(Expr::Prop(v, key)) = &q.ret[o.item] else { return None };
            if v != vars[0] {
                return None;
            }
            parts.push(format!("{key}: {}", if o.desc { "DESC" } else { "ASC" }));
        }
        order_arg = format!("orderBy: {{{}}}", parts.join(", "));
    }
    let args_for = |depth: usize| -> String {
        let mine: Vec<&String> = atoms.iter().filter(|(v, _)| v == vars[depth]).map(|(_, a)| a).collect();
        let mut args = Vec::new();
        if !mine.is_empty() {
            // both spellings of the filter object are accepted; deeper levels use the other one
            let name = if depth == 0 { "filter" } else { "where" };
            args.push(format!("{name}: {{{}}}", mine.iter().map(|s| s.as_str()).collect::<Vec<_>>().join(", ")));
        }
        if depth == 0 {
            if !order_arg.is_empty() {
                args.push(order_arg.clone());
            }
            if let Some(n) = q.limit {
                args.push(format!("first: {n}"));
            }
            if let Some(n) = q.skip {
                args.push(format!("offset: {n}"));
            }
        }
        if args.is_empty() { String::new() } else { format!("({})", args.join(", ")) }
    };
    // Selection set of level `d` from the items in RETURN order: scalars of this level where they stand,
    // and exactly one maximal run of deeper items (the nested field) when the chain goes deeper.
    fn selection(d: usize, k: usize, items: &[(usize, &str)], types: &[&String], args_for: &dyn Fn(usize) -> String) -> Option<String> {
        let mut parts: Vec<String> = Vec::new();
        let mut runs = 0;
        let mut i = 0;
        while i < items.len() {
            if items[i].0 == d {
                parts.push(items[i].1.to_string());
                i += 1;
            } else {
                let j = items[i..].iter().position(|(dd, _)| *dd == d).map_or(items.len(), |p| i + p);
                runs += 1;
                let inner = selection(d + 1, k, &items[i..j], types, args_for)?;
                parts.push(format!("{}{} {{ {inner} }}", types[d], args_for(d + 1)));
                i = j;
            }
        }
        // every level of the chain must be entered exactly once (a nested field without selection would
        // return the node itself as an extra column; two nested fields would be two hops)
        if runs != usize::from(d < k) || parts.is_empty() {
            return None;
        }
        Some(parts.join(" "))
    }
    let sel = selection(0, k, &items, &types, &args_for)?;
    let root = nodes[0].labels[0].to_lowercase();
    Some(format!("query {{ {root}{} {{ {sel} }} }}", args_for(0)))
}

/// Text of `q` in `lang`, or None when the language cannot express it.
pub fn render(q: &Query, lang: Lang) -> Option<String> {
    match lang {
        Lang::Gql | Lang::Cypher => render_gql_like(q, lang),
        Lang::Gremlin => render_gremlin(q),
        Lang::GraphQl => render_graphql(q),
    }
}

/// The AST whose reference answer corresponds to the rendering in `lang` (identical to `q` except
/// where a language's projection step necessarily adds an existence requirement).
pub fn effective_query(q: &Query, lang: Lang) -> Query {
    match lang {
        Lang::Gremlin if matches!(q.ret.first(), Some(RetItem::Expr(Expr::Prop(..)))) => gremlin_adjusted(q),
        _ => q.clone(),
    }
}
