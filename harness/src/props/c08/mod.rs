//! C08 — read queries return the answer the graph-pattern semantics defines; the same question
//! asked in two languages gets the same answer.
//!
//! Public surface for C09/C10/C11: `GraphSpec`, `graph_spec()`, `build_db()`, `Query`, `query()`,
//! `QueryCfg`, `render()`, `run_query()` (the design's `run`; the name `run` is the driver entry point), `eval()`, `Evaluator`/`Mode`, `compare()`, `norm_row_key()`,
//! `multiset_eq()`.

pub mod ast;
pub mod eval;
pub mod exec;
pub mod render;

use std::collections::{BTreeMap, BTreeSet};
use std::sync::Mutex;

use proptest::prelude::*;
use serde::{Deserialize, Serialize};

pub use ast::*;
pub use eval::{Evaluator, Mode, Rows, eval, key_cmp};
pub use exec::{EngineRows, build_db, run_query};
pub use render::{effective_query, render};

use crate::driver::{CaseResult, Failure, Run, fail, guard, hash_dbg, ok};

// ------------------------------------------------------------------------------------------------
// Normalisation and comparison
// ------------------------------------------------------------------------------------------------

/// Canonical text of a value: numbers by value rounded to 9 significant digits (so Int 2 and Float
/// 2.0 coincide and float aggregates get a 1e-9 relative tolerance), lists as multisets.
pub fn norm_val_key(v: &Val) -> String {
    match v {
        Val::Null => "N".into(),
        Val::Bool(b) => format!("B{b}"),
        Val::Int(i) => format!("#{:.8e}", *i as f64),
        Val::Float(f) => {
            let f = if *f == 0.0 { 0.0 } else { *f };
            format!("#{f:.8e}")
        }
        Val::Str(s) => format!("S{s:?}"),
        Val::List(l) => {
            let mut k: Vec<String> = l.iter().map(norm_val_key).collect();
            k.sort();
            format!("[{}]", k.join(","))
        }
    }
}

pub fn norm_row_key(r: &[Val]) -> String {
    r.iter().map(norm_val_key).collect::<Vec<_>>().join("|")
}

fn counts(rows: &[Vec<Val>]) -> BTreeMap<String, i64> {
    let mut m = BTreeMap::new();
    for r in rows {
        *m.entry(norm_row_key(r)).or_insert(0) += 1;
    }
    m
}

pub fn multiset_eq(a: &[Vec<Val>], b: &[Vec<Val>]) -> bool {
    a.len() == b.len() && counts(a) == counts(b)
}

fn sub_multiset(small: &[Vec<Val>], big: &[Vec<Val>]) -> bool {
    let big = counts(big);
    counts(small).iter().all(|(k, n)| big.get(k).copied().unwrap_or(0) >= *n)
}

/// Judges `got` against the reference rows `full` (after RETURN/DISTINCT, before ORDER BY / SKIP /
/// LIMIT) under query `q`. Multiset equality; order checked on the ORDER BY keys only; with
/// SKIP/LIMIT a validity predicate: sub-multiset of `full`, right size, and key sequence equal
/// (key-wise) to the corresponding window of the ordered `full`.
pub fn compare(q: &Query, full: &[Vec<Val>], got: &[Vec<Val>]) -> Result<(), String> {
    let arity = q.ret.len();
    if let Some(r) = got.iter().find(|r| r.len() != arity) {
        return Err(format!("row arity {} != {arity}", r.len()));
    }
    let paged = q.skip.is_some() || q.limit.is_some();
    let skip = q.skip.unwrap_or(0) as usize;
    let window = full.len().saturating_sub(skip).min(q.limit.map_or(usize::MAX, |l| l as usize));
    if paged {
        if got.len() != window {
            return Err(format!("row count {} != {window} (of {} before SKIP/LIMIT)", got.len(), full.len()));
        }
        if !sub_multiset(got, full) {
            return Err("rows are not a sub-multiset of the un-paged result".into());
        }
    } else if !multiset_eq(full, got) {
        return Err(format!("multisets differ ({} expected rows, {} returned)", full.len(), got.len()));
    }
    if !q.order.is_empty() {
        let mut sorted: Vec<&Vec<Val>> = full.iter().collect();
        sorted.sort_by(|a, b| key_cmp(&q.order, a, b));
        for (i, r) in got.iter().enumerate() {
            let expect = sorted[skip + i];
            if key_cmp(&q.order, r, expect) != std::cmp::Ordering::Equal {
                return Err(format!("ORDER BY keys of returned row {i} differ from position {} of the ordered result", skip + i));
            }
        }
    }
    Ok(())
}

// ------------------------------------------------------------------------------------------------
// Known-defect recognition (dynamic signatures)
// ------------------------------------------------------------------------------------------------

/// One recognisable defect: a name, when it can apply to a query, and the semantic variation that
/// reproduces the engine's wrong answer.
struct Defect {
    name: &'static str,
    applies: fn(&Query, &GraphSpec, &eval::Trace) -> bool,
    set: fn(&mut Mode),
}

fn defects() -> Vec<Defect> {
    vec![
        Defect { name: "distinct-ignored", applies: |q, _, _| q.distinct, set: |m| m.ignore_distinct = true },
        Defect {
            name: "connective-null",
            // structural precondition; that an unknown operand really occurred is implied by the match:
            // subsets are tried smallest first, and without an unknown operand strict and Kleene
            // evaluation coincide, so the smaller subset would have matched already
            applies: |q, _, _| {
                fn has_conn(p: &Pred) -> bool {
                    match p {
                        Pred::And(..) | Pred::Or(..) => true,
                        Pred::Not(x) => has_conn(x),
                        _ => false,
                    }
                }
                q.filter.as_ref().is_some_and(has_conn) || q.opt.as_ref().is_some_and(|o| o.filter.as_ref().is_some_and(has_conn))
            },
            set: |m| m.strict_connectives = true,
        },
        Defect {
            name: "multilabel-first-only",
            applies: |q, _, _| q.all_chains().any(|c| c.node_pats().iter().any(|n| n.labels.len() > 1)),
            set: |m| m.first_label_only = true,
        },
        Defect {
            name: "undirected-selfloop-twice",
            applies: |q, g, _| {
                q.all_chains().any(|c| c.steps.iter().any(|(e, _)| e.dir == Dir::Both))
                    && (0..g.n_edges()).any(|e| {
                        let (s, d) = g.ends(e);
                        s == d
                    })
            },
            set: |m| m.selfloop_twice = true,
        },
        Defect {
            name: "comma-shared-var-not-joined",
            applies: |q, _, _| {
                q.chains.len() > 1 && q.chains[0].node_pats().iter().any(|n| n.var == q.chains[1].start.var)
            },
            set: |m| m.comma_no_join = true,
        },
        Defect {
            name: "edge-props-lost-after-join",
            applies: |q, _, _| {
                (q.chains.len() > 1 && q.chains[0].steps.iter().any(|(e, _)| e.var.is_some()))
                    || ((q.with.is_some() || !q.order.is_empty() || q.opt.is_some()) && !q.edge_vars().is_empty())
            },
            set: |m| m.edge_props_lost = true,
        },
        Defect {
            name: "edge-props-lost-after-join",
            applies: |q, _, _| q.chains.len() > 1 && q.filter.is_some() && q.chains[0].steps.iter().any(|(e, _)| e.var.is_some()),
            set: |m| {
                m.edge_props_lost = true;
                m.edge_props_lost_return_only = true;
            },
        },
        Defect {
            name: "edge-props-lost-after-join",
            applies: |q, _, _| q.with.is_some() && !q.order.is_empty() && !q.edge_vars().is_empty(),
            set: |m| {
                m.edge_props_lost = true;
                m.edge_types_kept = true;
            },
        },
        Defect {
            name: "edge-props-lost-after-join",
            applies: |q, _, _| {
                q.chains.len() > 1
                    && q.filter.is_some()
                    && q.chains[0].steps.iter().any(|(e, _)| e.var.is_some())
                    && q.chains[1].steps.iter().any(|(e, _)| e.hops.is_some_and(|h| h != (1, 1)))
            },
            set: |m| {
                m.edge_props_lost = true;
                m.edge_props_lost_where_too = true;
            },
        },
        Defect {
            name: "with-alias-through-nodeid-column",
            applies: |q, _, _| q.with.is_some(),
            set: |m| m.with_alias_as_nodeid = true,
        },
        Defect {
            name: "factorized-empty-level-phantom-row",
            applies: |q, _, _| q.chains.iter().any(|c| c.steps.len() >= 2 && c.steps.iter().all(|(e, _)| e.hops.is_none())),
            set: |m| m.factorized_phantom = true,
        },
        Defect {
            name: "null-alias-comparison-two-valued",
            applies: |q, _, _| q.with.as_ref().is_some_and(|w| w.filter.is_some()),
            set: |m| m.null_alias_cmp_two_valued = true,
        },
        Defect {
            name: "optional-where-filters-rows",
            applies: |q, _, _| q.opt.as_ref().is_some_and(|o| o.filter.is_some()),
            set: |m| m.optional_where_global = true,
        },
        Defect {
            name: "step-inline-props-ignored",
            applies: |q, _, _| q.all_chains().any(|c| c.steps.iter().any(|(e, n)| !e.props.is_empty() || !n.props.is_empty())),
            set: |m| m.ignore_step_props = true,
        },
    ]
}

/// Signatures listed by an open finding in known_findings/C08.json (read once). Used only to decide
/// whether a failure that needs *several* defects at once may be attributed to the first of them:
/// every component must be open.
fn open_signatures() -> &'static BTreeSet<String> {
    static S: std::sync::OnceLock<BTreeSet<String>> = std::sync::OnceLock::new();
    S.get_or_init(|| {
        let mut out = BTreeSet::new();
        let p = crate::driver::verif_root().join("known_findings").join("C08.json");
        if let Ok(s) = std::fs::read_to_string(p)
            && let Ok(ff) = serde_json::from_str::<crate::driver::FindingsFile>(&s)
        {
            for f in ff.findings.iter().filter(|f| f.status == "open") {
                out.extend(f.signatures.iter().cloned());
            }
        }
        out
    })
}

/// Names the failure of (`q`, `lang`) on graph `g` whose engine rows are `got`: a known-defect
/// signature when the rows are exactly what that defect predicts, else the generic one.
fn classify(g: &GraphSpec, q: &Query, lang: Lang, got: &[Vec<Val>], why: &str) -> Failure {
    let base = Evaluator::new(g, Mode::default());
    let _ = base.projected(q);
    let trace = base.trace.borrow().clone();
    let ds = defects();
    let applicable: Vec<&Defect> = ds.iter().filter(|d| (d.applies)(q, g, &trace)).collect();
    let n = applicable.len();
    // subsets by increasing size (at most 6 simultaneous defects: Cypher alone has that many open ones that can meet in one OPTIONAL MATCH query)
    let mut subsets: Vec<u32> = (1u32..(1 << n)).filter(|m| m.count_ones() <= 6).collect();
    // explanations made only of open findings come first (smallest first), then the others: a result
    // that an open finding predicts exactly is that finding, even if a repaired defect would predict
    // the same rows on this input
    let all_open = |m: u32| applicable.iter().enumerate().filter(|(i, _)| m & (1 << i) != 0).all(|(_, d)| open_signatures().contains(&format!("c08/{}:{}", d.name, lang.name())));
    subsets.sort_by_key(|m| (!all_open(*m), m.count_ones(), *m));
    for mask in subsets {
        let mut mode = Mode::default();
        let mut names = Vec::new();
        for (i, d) in applicable.iter().enumerate() {
            if mask & (1 << i) != 0 {
                (d.set)(&mut mode);
                names.push(d.name);
            }
        }
        let alt = Evaluator::new(g, mode).projected(q);
        // GQL sorts on the true edge property and loses it only in the projection that follows: when a
        // degraded edge property is an ORDER BY key the returned keys cannot be checked for order
        let mut qc = q.clone();
        if mode.edge_props_lost
            && q.order.iter().any(|k| matches!(&q.ret[k.item], RetItem::Expr(Expr::Prop(v, _)) if q.edge_vars().contains(v)))
        {
            qc.order.clear();
        }
        // likewise the sort runs on the true value of a WITH alias and only the projection that follows
        // degrades it: the returned keys of such a column cannot be checked for order
        if mode.with_alias_as_nodeid && q.order.iter().any(|k| matches!(&q.ret[k.item], RetItem::Expr(Expr::Var(_)))) {
            qc.order.clear();
        }
        if compare(&qc, &alt, got).is_ok() {
            let sigs: Vec<String> = names.iter().map(|n| format!("c08/{n}:{}", lang.name())).collect();
            let what = format!("{why}; rows are exactly what [{}] predicts", names.join(" + "));
            if sigs.len() == 1 {
                return Failure { signature: sigs[0].clone(), what };
            }
            // several defects at once: attributable only if each one is an open finding
            if sigs.iter().all(|s| open_signatures().contains(s)) {
                return Failure { signature: sigs[0].clone(), what };
            }
            break;
        }
    }
    Failure { signature: format!("c08/rows-mismatch:{}", lang.name()), what: why.to_string() }
}

// ------------------------------------------------------------------------------------------------
// The check
// ------------------------------------------------------------------------------------------------

#[derive(Debug, Clone, Serialize, Deserialize)]
pub struct Case {
    pub graph: GraphSpec,
    pub query: Query,
}

fn case_strategy(max_nodes: usize, max_edges: usize, cfg: QueryCfg) -> impl Strategy<Value = Case> {
    (graph_spec(max_nodes, max_edges), query(cfg)).prop_map(|(graph, query)| Case { graph, query })
}

/// (language, feature) → (rendered, errors); language → expressible count; filled by the closures,
/// summarised with `r.note` (sums only, so the result does not depend on scheduling).
#[derive(Default)]
struct Matrix {
    cases: u64,
    /// feature → cases that have it
    feat_cases: BTreeMap<&'static str, u64>,
    rendered: BTreeMap<&'static str, u64>,
    cell: BTreeMap<(&'static str, &'static str), (u64, u64)>,
    err_samples: BTreeMap<(&'static str, String), String>,
}

fn nontrivial(q: &Query, rows: usize) -> bool {
    let mut n = 0;
    n += usize::from(q.n_edge_pats() > 0);
    n += usize::from(q.has_predicate());
    n += usize::from(q.has_agg() || q.distinct);
    n += usize::from(!q.order.is_empty() || q.skip.is_some() || q.limit.is_some());
    rows > 0 && n >= 2
}

/// Upper bound on the number of bindings (pure function of the case): cases whose binding table could
/// exceed 20 000 rows are skipped (class "skipped-large") to keep the work per case bounded.
fn too_large(g: &GraphSpec, q: &Query) -> bool {
    let (n, m) = (g.n_nodes().max(1) as f64, (g.n_edges().max(1) * 2) as f64);
    let mut bound = 1f64;
    for (i, c) in q.chains.iter().chain(q.opt.iter().map(|o| &o.chain)).enumerate() {
        let shared = i > 0 && q.chains[..i.min(q.chains.len())].iter().any(|c0| c0.node_pats().iter().any(|p| p.var == c.start.var));
        bound *= if shared { n.min(4.0) } else { n };
        for (e, _) in &c.steps {
            let hops = e.hops.map_or(1, |(_, hi)| i32::from(hi));
            // per-source fan-out bounded by the average degree (x2 for safety), at least 1
            bound *= (m / n).max(1.0).powi(hops) * if hops > 1 { f64::from(hops) } else { 1.0 };
        }
    }
    bound > 20_000.0
}

fn err_kind(e: &str) -> String {
    let e = e.to_lowercase();
    for (pat, k) in [
        ("expected", "syntax"),
        ("unexpected", "syntax"),
        ("parse", "syntax"),
        ("not found", "unresolved"),
        ("unsupported", "unsupported"),
        ("cannot resolve", "unsupported"),
        ("undefined", "unresolved"),
    ] {
        if e.contains(pat) {
            return k.into();
        }
    }
    "other".into()
}

/// Evaluates one (graph, query) in every language that renders it. Returns the per-language
/// outcome letters (for the class) or the failure to report.
fn check_case(case: &Case, langs: &[Lang], matrix: &Mutex<Matrix>) -> CaseResult {
    let g = &case.graph;
    let q = &case.query;
    if too_large(g, q) {
        return ok(false, "skipped-large", hash_dbg(case));
    }
    let db = guard("build_db", || build_db(g))?;
    let feats = q.features();
    let mut class = String::new();
    let mut failures: Vec<Failure> = Vec::new();
    let mut compared_rows = 0usize;
    let mut any_ok = false;
    let mut outcomes: Vec<(Lang, Option<bool>)> = Vec::new();
    for &lang in langs {
        let Some(text) = render(q, lang) else {
            class.push('-');
            outcomes.push((lang, None));
            continue;
        };
        let res = guard(&format!("{}: {text}", lang.name()), || run_query(&db, lang, &text))?;
        match res {
            Err(e) => {
                class.push('E');
                outcomes.push((lang, Some(false)));
                if std::env::var("C08_SURVEY").is_ok() {
                    eprintln!("ERR {} :: {} :: {text}", lang.name(), crate::driver::truncate(&e.replace('\n', " "), 160));
                }
                let mut m = matrix.lock().unwrap();
                m.err_samples.entry((lang.name(), err_kind(&e))).or_insert_with(|| format!("{text}  =>  {e}"));
            }
            Ok(got) => {
                outcomes.push((lang, Some(true)));
                let qe = effective_query(q, lang);
                let full = Evaluator::new(g, Mode::default()).projected(&qe);
                match compare(&qe, &full, &got.rows) {
                    Ok(()) => {
                        class.push('=');
                        any_ok = true;
                        compared_rows = compared_rows.max(got.rows.len());
                    }
                    Err(why) => {
                        class.push('X');
                        let why = format!(
                            "{} `{text}`: {why} || expected (before ORDER/SKIP/LIMIT): {} || returned: {} || graph: {g:?}",
                            lang.name(),
                            crate::driver::truncate(&format!("{full:?}"), 600),
                            crate::driver::truncate(&format!("{:?}", got.rows), 600),
                        );
                        failures.push(classify(g, &qe, lang, &got.rows, &why));
                    }
                }
            }
        }
    }
    {
        let mut m = matrix.lock().unwrap();
        m.cases += 1;
        for f in feats.iter().chain(std::iter::once(&"any")) {
            *m.feat_cases.entry(f).or_insert(0) += 1;
        }
        for (lang, o) in &outcomes {
            if let Some(okk) = o {
                *m.rendered.entry(lang.name()).or_insert(0) += 1;
                for f in feats.iter().chain(std::iter::once(&"any")) {
                    let c = m.cell.entry((lang.name(), f)).or_insert((0, 0));
                    c.0 += 1;
                    c.1 += u64::from(!okk);
                }
            }
        }
    }
    if !failures.is_empty() {
        // report an unlisted failure in preference to a listed one
        let open = open_signatures();
        let f = failures.iter().find(|f| !open.contains(&f.signature)).unwrap_or(&failures[0]).clone();
        if std::env::var("C08_SURVEY").is_ok() {
            let path = format!("/tmp/c08_surv/{:016x}.json", hash_dbg(case));
            let _ = std::fs::create_dir_all("/tmp/c08_surv");
            let _ = std::fs::write(&path, serde_json::to_string(case).unwrap());
            eprintln!("SURVEY {} :: {path} :: {}", f.signature, crate::driver::truncate(&f.what, 1200));
            return ok(false, format!("FAIL:{}", f.signature), hash_dbg(case));
        }
        return Err(f);
    }
    ok(any_ok && nontrivial(q, compared_rows), format!("[{class}]"), hash_dbg(case))
}

fn report_matrix(r: &Run, sub: &str, matrix: &Mutex<Matrix>) {
    let m = matrix.lock().unwrap();
    // notes go to the evidence file; under C08_SURVEY (development aid) they are echoed as well
    let note = |s: String| {
        if std::env::var("C08_SURVEY").is_ok() {
            eprintln!("NOTE {s}");
        }
        r.note(s);
    };
    if m.cases == 0 {
        return;
    }
    let mut expr = Vec::new();
    for l in LANGS {
        let n = m.rendered.get(l.name()).copied().unwrap_or(0);
        expr.push(format!("{} {:.0}%", l.name(), 100.0 * n as f64 / m.cases as f64));
    }
    note(format!("{sub}: expressible share of generated ASTs{}: {}", if sub == "crosslang" { " (languages that returned rows)" } else { "" }, expr.join(", ")));
    if !m.feat_cases.is_empty() {
        // per feature: share of the cases with that feature which each language renders
        let mut rows = Vec::new();
        for (feat, n) in &m.feat_cases {
            let per: Vec<String> = LANGS
                .iter()
                .map(|l| format!("{:.0}", 100.0 * m.cell.get(&(l.name(), *feat)).map_or(0, |c| c.0) as f64 / *n as f64))
                .collect();
            rows.push(format!("{feat}[{n}] {}", per.join("/")));
        }
        note(format!("{sub}: expressibility per feature, feature[cases] gql/cypher/gremlin/graphql % rendered: {}", rows.join(", ")));
    }
    let mut rates = Vec::new();
    let mut dead = Vec::new();
    for ((lang, feat), (n, e)) in &m.cell {
        if *e > 0 {
            rates.push(format!("{lang}/{feat} {e}/{n}"));
        }
        if *n >= 5 && e == n {
            dead.push(format!("{lang}/{feat}"));
        }
    }
    note(format!("{sub}: engine Err per (language/feature) [errors/rendered]: {}", rates.join(", ")));
    if !dead.is_empty() {
        note(format!("{sub}: not in the implemented core (every rendered case returns Err): {}", dead.join(", ")));
    }
    for ((lang, kind), s) in &m.err_samples {
        note(format!("{sub}: sample err {lang}/{kind}: {}", crate::driver::truncate(s, 300)));
    }
}

/// One group of languages asked the same question: `q` is the AST all renderings denote, `orig` the AST the
/// Gremlin text is rendered from (its projection adds the existence requirement that `q` spells out).
/// Returns (class letters, languages that answered, largest row count, failures).
#[allow(clippy::type_complexity)]
fn cross_group(
    g: &GraphSpec,
    db: &grafeo_engine::GrafeoDB,
    q: &Query,
    orig: &Query,
    langs: &[Lang],
) -> Result<(String, Vec<Lang>, usize, Vec<Failure>), Failure> {
    let mut results: Vec<(Lang, String, Vec<Vec<Val>>)> = Vec::new();
    let mut class = String::new();
    for &lang in langs {
        let text = if lang == Lang::Gremlin { render(orig, lang) } else { render(q, lang) };
        let Some(text) = text else {
            class.push('-');
            continue;
        };
        match guard(&format!("{}: {text}", lang.name()), || run_query(db, lang, &text))? {
            Ok(rows) => {
                class.push('o');
                results.push((lang, text, rows.rows));
            }
            Err(_) => class.push('E'),
        }
    }
    let full = Evaluator::new(g, Mode::default()).projected(q);
    let mut failures = Vec::new();
    for i in 0..results.len() {
        for j in i + 1..results.len() {
            let (la, ta, ra) = &results[i];
            let (lb, tb, rb) = &results[j];
            // direct comparison: same multiset; each side's ORDER BY conformance is the main
            // sub-check's business, here only that the key sequences agree
            let mut agree = multiset_eq(ra, rb);
            if agree && !q.order.is_empty() {
                agree = ra.iter().zip(rb).all(|(x, y)| key_cmp(&q.order, x, y) == std::cmp::Ordering::Equal);
            }
            if agree {
                continue;
            }
            let why = format!(
                "{} `{ta}` and {} `{tb}` disagree:\n  {}: {:?}\n  {}: {:?}\n  graph: {g:?}",
                la.name(),
                lb.name(),
                la.name(),
                crate::driver::truncate(&format!("{ra:?}"), 500),
                lb.name(),
                crate::driver::truncate(&format!("{rb:?}"), 500)
            );
            // name the side that departs from the reference (if exactly one does, or the first)
            let (a_ok, b_ok) = (compare(q, &full, ra).is_ok(), compare(q, &full, rb).is_ok());
            let f = if !a_ok { classify(g, q, *la, ra, &why) } else if !b_ok { classify(g, q, *lb, rb, &why) } else {
                Failure { signature: format!("c08/crosslang-disagree:{}-{}", la.name(), lb.name()), what: why }
            };
            failures.push(f);
        }
    }
    let n_rows = results.iter().map(|(_, _, r)| r.len()).max().unwrap_or(0);
    Ok((class, results.iter().map(|(l, _, _)| *l).collect(), n_rows, failures))
}

/// Cross-language agreement: the same AST rendered in two languages must give the same rows,
/// judged without the reference (which is only consulted to name the side that is wrong).
fn check_cross(case: &Case, matrix: &Mutex<Matrix>) -> CaseResult {
    let g = &case.graph;
    let orig = &case.query;
    if too_large(g, orig) {
        return ok(false, "skipped-large", hash_dbg(case));
    }
    let db = guard("build_db", || build_db(g))?;
    // Gremlin's projection adds an existence requirement: the languages that can say it (GQL, Cypher) are
    // compared with Gremlin on the AST that spells it out; GraphQL cannot, and is compared with GQL and Cypher
    // on the AST as generated.
    let q_eff = if render(orig, Lang::Gremlin).is_some() { effective_query(orig, Lang::Gremlin) } else { orig.clone() };
    let groups: Vec<(&Query, Vec<Lang>)> = if q_eff != *orig {
        let mut v = vec![(&q_eff, vec![Lang::Gql, Lang::Cypher, Lang::Gremlin])];
        if render(orig, Lang::GraphQl).is_some() {
            v.push((orig, vec![Lang::Gql, Lang::Cypher, Lang::GraphQl]));
        }
        v
    } else {
        vec![(orig, LANGS.to_vec())]
    };
    let mut class = String::new();
    let mut answered: BTreeSet<Lang> = BTreeSet::new();
    let mut n_rows = 0usize;
    let mut failures = Vec::new();
    let mut pairs = 0usize;
    for (q, langs) in &groups {
        let (c, ok_langs, rows, f) = cross_group(g, &db, q, orig, langs)?;
        if !class.is_empty() {
            class.push('|');
        }
        class.push_str(&c);
        pairs = pairs.max(ok_langs.len());
        answered.extend(ok_langs);
        n_rows = n_rows.max(rows);
        failures.extend(f);
    }
    {
        let mut m = matrix.lock().unwrap();
        m.cases += 1;
        for l in &answered {
            *m.rendered.entry(l.name()).or_insert(0) += 1;
        }
    }
    if !failures.is_empty() {
        let open = open_signatures();
        let f = failures.iter().find(|f| !open.contains(&f.signature)).unwrap_or(&failures[0]).clone();
        if std::env::var("C08_SURVEY").is_ok() {
            eprintln!("SURVEY {} :: {}", f.signature, crate::driver::truncate(&f.what, 1200));
            return ok(false, format!("FAIL:{}", f.signature), hash_dbg(case));
        }
        return Err(f);
    }
    ok(pairs >= 2 && n_rows > 0, format!("[{class}]"), hash_dbg(case))
}

pub fn run_prop(r: &mut Run) {
    r.level = "exploration";
    r.rule = "case = (graph, query AST); graphs 0-12 nodes / 0-20 edges (thorough: to 40/60) with empty graphs, isolated \
              nodes, forced self-loops and parallel edges, missing and heterogeneous properties; query = 1-2 comma patterns \
              of 1-3 node patterns (labels, inline maps, typed/directed/undirected/variable-length *a..b<=3 hops), WHERE tree \
              (comparisons prop/literal/prop, arithmetic, fully parenthesised AND/OR/NOT, IS [NOT] NULL, IN, string operators), \
              optional WITH projection, RETURN of properties/id()/type()/labels() or aggregates with implicit grouping, \
              DISTINCT, ORDER BY on returned scalars, SKIP/LIMIT; rendered in every language that can express it and compared \
              with the reference evaluator (multiset; ORDER BY keys as sequence; SKIP/LIMIT by validity predicate). \
              Features with known systematic defects get bounded shares so most cases stay strict: multi-label 4 %, DISTINCT \
              12 %, OR/NOT trees 30 % of WHEREs, WITH 5 %, second pattern 8 %, variable length 12 %, undirected 15 % of hops, \
              OPTIONAL MATCH 6 % (sub-check `optional`: every query; the clause is a chain of new variables starting at a node of \
              the MATCH in 85 %, it carries its own WHERE in 40 % - the share the open finding optional-where-filters-rows can \
              swallow -, the MATCH's own WHERE is generated in 2 of 7 such queries because GQL cannot place it). \
              Sub-checks `reference_simple` and `crosslang` draw 80 % of their queries from generators shaped after what the \
              Gremlin and GraphQL front ends implement (45 % expressible in all four languages: labelled root, typed hops leading \
              away from it, one returned property of the far end; 30 % GraphQL-shaped: several returned properties in nested \
              selection order, multi-key orderBy on root properties, first/offset; 25 % Gremlin-shaped: any direction, labels \
              anywhere, the walk ending on either end node or on the first/last edge, edge predicates (outE..inV), id / label / \
              count / sum / min / max / mean / fold, dedup, order().by, skip/limit, hasNot / without) and 20 % from the plain \
              `simple` profile. \
              Non-trivial = at least one language returned rows that were compared, the result is non-empty and the query has \
              >= 2 of {edge pattern, predicate, aggregate/DISTINCT, ORDER/SKIP/LIMIT}; distinct by hash of (graph, query)."
        .into();
    r.assumptions.extend([
        "databases are fresh and in-memory, built through create_node_with_props/create_edge_with_props, never inside an explicit transaction (epoch 0)".to_string(),
        "conventions read from the engine where the property text is silent: pattern matching is homomorphic (an edge may bind two hops, walks may repeat edges); '='/'<>' across kinds are false/true, '<' etc. across kinds are unknown, booleans order false < true; ORDER BY puts NULL last ascending / first descending; sum of no values is 0, min/max/avg NULL; Int and Float of equal value are the same value in results".to_string(),
        "generator stays inside documented/observed input domains: small integers (no overflow), floats are multiples of 0.5 and stored floats are never integral, '/' and '%' only by non-zero literals (integer division by zero panics: C12), ORDER BY only on keys of one kind, edge property keys disjoint from node property keys (zone-map check on the node column for edge predicates: C10), boolean connectives always parenthesised".to_string(),
        "an engine Err is not compared (C08 is about returned rows); error rates per (language, feature) are in the notes".to_string(),
    ]);

    let thorough = r.is_thorough();
    let (mn, me) = if thorough { (40, 60) } else { (12, 20) };

    let matrix = Mutex::new(Matrix::default());
    r.subcheck("reference", r.cases(16_000, 600_000), || case_strategy(mn, me, QueryCfg { p_optional: 6, ..QueryCfg::default() }), |c: &Case| check_case(c, &LANGS, &matrix));
    report_matrix(r, "reference", &matrix);

    // OPTIONAL MATCH (GQL + Cypher): every query carries the clause
    let optional = || QueryCfg { p_optional: 100, p_second_chain: 0, p_with: 0, p_varlen: 6, p_multilabel: 1, p_undirected: 6, ..QueryCfg::default() };
    let matrix_o = Mutex::new(Matrix::default());
    r.subcheck("optional", r.cases(9_000, 300_000), || case_strategy(mn, me, optional()), |c: &Case| check_case(c, &[Lang::Gql, Lang::Cypher], &matrix_o));
    report_matrix(r, "optional", &matrix_o);

    // the Gremlin/GraphQL-expressible fragment is a small share of the full grammar: aim a generator at it
    let simple = || QueryCfg { simple_only: true, p_distinct: 10, p_agg: 25, p_order: 25, p_skiplimit: 20, p_varlen: 0, p_multilabel: 3, p_shaped: 80, ..QueryCfg::default() };
    let matrix2 = Mutex::new(Matrix::default());
    r.subcheck("reference_simple", r.cases(60_000, 1_000_000), || case_strategy(mn, me, simple()), |c: &Case| check_case(c, &LANGS, &matrix2));
    report_matrix(r, "reference_simple", &matrix2);

    let matrix3 = Mutex::new(Matrix::default());
    let cross = move || {
        let mut c = simple();
        c.p_skiplimit = 0;
        c
    };
    r.subcheck("crosslang", r.cases(24_000, 400_000), || case_strategy(mn, me, cross()), |c: &Case| check_cross(c, &matrix3));
    report_matrix(r, "crosslang", &matrix3);
}

/// Development aid: `C08_PROBE=<file>` runs the lines `lang<TAB>query` of the file against the graph
/// in `C08_PROBE_GRAPH` (a JSON `GraphSpec`; default: a fixed 4-node graph) and prints the results.
fn probe(path: &str) {
    let g: GraphSpec = match std::env::var("C08_PROBE_GRAPH") {
        Ok(p) => {
            let v: serde_json::Value = serde_json::from_str(&std::fs::read_to_string(p).expect("graph file")).expect("json");
            // accepts a GraphSpec, a Case, or a replay file
            let gv = v.get("case").and_then(|c| c.get("graph")).or_else(|| v.get("graph")).unwrap_or(&v).clone();
            serde_json::from_value(gv).expect("graph json")
        }
        Err(_) => {
            let n = |l: &[&str], p: &[(&str, Val)]| NodeSpec {
                labels: l.iter().map(|s| s.to_string()).collect(),
                props: p.iter().map(|(k, v)| (k.to_string(), v.clone())).collect(),
            };
            let e = |s: u16, d: u16, t: &str, p: &[(&str, Val)]| EdgeSpec {
                src: s * 16384,
                dst: d * 16384,
                ty: t.into(),
                props: p.iter().map(|(k, v)| (k.to_string(), v.clone())).collect(),
            };
            GraphSpec {
                nodes: vec![
                    n(&["A"], &[("x", Val::Int(1)), ("s", Val::Str("ab".into()))]),
                    n(&["A", "B"], &[("x", Val::Int(2)), ("y", Val::Float(1.5))]),
                    n(&["B"], &[("y", Val::Int(3))]),
                    n(&[], &[("x", Val::Int(2)), ("s", Val::Str("b".into()))]),
                ],
                edges: vec![
                    e(0, 1, "R", &[("w", Val::Int(1))]),
                    e(1, 2, "R", &[]),
                    e(1, 1, "S", &[("w", Val::Int(5))]),
                    e(0, 1, "R", &[("w", Val::Int(2))]),
                    e(3, 0, "S", &[]),
                ],
            }
        }
    };
    let db = build_db(&g);
    for line in std::fs::read_to_string(path).expect("probe file").lines() {
        let Some((l, text)) = line.split_once('\t') else { continue };
        let lang = match l {
            "gql" => Lang::Gql,
            "cypher" => Lang::Cypher,
            "gremlin" => Lang::Gremlin,
            _ => Lang::GraphQl,
        };
        match crate::driver::catch(|| run_query(&db, lang, text)) {
            Ok(Ok(r)) => println!("{l}: {text}\n    cols={:?}\n    rows={:?}", r.columns, r.rows),
            Ok(Err(e)) => println!("{l}: {text}\n    ERR {}", e.replace('\n', " ")),
            Err(p) => println!("{l}: {text}\n    PANIC {} {}", p.file, p.msg),
        }
    }
}

pub fn run(r: &mut Run) {
    if let Ok(p) = std::env::var("C08_PROBE") {
        probe(&p);
        r.inconclusive("probe mode");
        return;
    }
    run_prop(r);
}
