//! C20 — not built yet.

use crate::driver::Run;

pub fn run(r: &mut Run) {
    r.inconclusive("C20: check not built yet");
}
