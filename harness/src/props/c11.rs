//! C11 — not built yet.

use crate::driver::Run;

pub fn run(r: &mut Run) {
    r.inconclusive("C11: check not built yet");
}
