//! C19 `leapfrog_trie` / `leapfrog_operator`: the worst-case-optimal join equals the join by definition.
//!
//! * `leapfrog_trie`: 1-5 generated relations of equal arity (1-3) over node ids (empty, singleton, equal,
//!   nested, disjoint, overlapping; duplicates; ids 0 and u64::MAX) are loaded into `TrieIndex`es and joined
//!   level by level with `LeapfrogJoin` (`key` / `next` / `open`). The tuples found must be exactly the
//!   intersection of the relations as sets of tuples, found in strictly increasing order at every level;
//!   `TrieIndex::get` returns exactly the edge ids inserted under a path, `len` counts the insertions, and
//!   `TrieIterator::{key, next, seek}` walk the sorted distinct children (seek = first key >= target).
//! * `leapfrog_operator`: `LeapfrogJoinOperator` over 1-5 chunked inputs joined on 1 or 2 key columns
//!   (Int64 or Node typed; negative, NULL and duplicate keys) with an arbitrary output column mapping
//!   equals the naive nested-loop multi-way equi-join (every combination of one row per input whose key
//!   tuples are all equal and NULL-free), as a multiset; a second iteration after `reset()` is the same.

use std::collections::{BTreeMap, BTreeSet};

use proptest::prelude::*;
use serde::{Deserialize, Serialize};

use grafeo_common::types::{EdgeId, LogicalType, NodeId, Value};
use grafeo_core::execution::operators::{LeapfrogJoinOperator, Operator, OperatorResult};
use grafeo_core::execution::{DataChunk, SelectionVector, ValueVector};
use grafeo_core::index::trie::{LeapfrogJoin, TrieIndex, TrieIterator};

use crate::driver::{CaseResult, fail, guard, hash_dbg, ok};
use crate::props::c17::exec::{Split, split_sizes};

fn mix(seed: u32, i: u64) -> u64 {
    let mut z = (u64::from(seed) << 32 | 0x1f3d) ^ i.wrapping_mul(0x9E37_79B9_7F4A_7C15);
    z = z.wrapping_add(0x9E37_79B9_7F4A_7C15);
    z = (z ^ (z >> 30)).wrapping_mul(0xBF58_476D_1CE4_E5B9);
    z = (z ^ (z >> 27)).wrapping_mul(0x94D0_49BB_1331_11EB);
    z ^ (z >> 31)
}

// ------------------------------------------------------------------------------------------------
// Trie level
// ------------------------------------------------------------------------------------------------

#[derive(Clone, Debug, Serialize, Deserialize)]
pub struct RelSpec {
    pub n: u8,
    /// values per position are drawn from 0..domain
    pub domain: u8,
    pub seed: u32,
    /// 0 own tuples · 1 the tuples of relation 0 (same seed: equal if n is equal, a prefix = nested if smaller)
    /// · 2 own tuples shifted out of every other relation's range (disjoint) · 3 relation 0's tuples plus own
    pub shape: u8,
}

#[derive(Clone, Debug, Serialize, Deserialize)]
pub struct TrieCase {
    pub arity: u8,
    pub rels: Vec<RelSpec>,
    /// value k is mapped to this id instead of k (places 0 / u64::MAX / large ids among the keys)
    pub remap: Vec<(u8, u64)>,
    pub seeks: Vec<(u8, u8)>,
}

fn rel_strategy() -> impl Strategy<Value = RelSpec> {
    (prop_oneof![1 => Just(0u8), 1 => Just(1u8), 10 => 2u8..12, 6 => 12u8..60], prop_oneof![1 => Just(1u8), 5 => 2u8..4, 2 => 4u8..12], any::<u32>(), prop_oneof![4 => Just(0u8), 3 => Just(1u8), 1 => Just(2u8), 4 => Just(3u8)])
        .prop_map(|(n, domain, seed, shape)| RelSpec { n, domain, seed, shape })
}

pub fn trie_case_strategy() -> impl Strategy<Value = TrieCase> {
    (
        1u8..4,
        proptest::collection::vec(rel_strategy(), 1..6),
        proptest::collection::vec((0u8..12, prop_oneof![Just(0u64), Just(u64::MAX), Just(u64::MAX - 1), Just(1u64 << 63), Just(1u64 << 32), any::<u64>()]), 0..3),
        proptest::collection::vec((any::<u8>(), 0u8..14), 0..6),
    )
        .prop_map(|(arity, rels, remap, seeks)| TrieCase { arity, rels, remap, seeks })
}

type Tuple = Vec<u64>;

fn tuples_of(c: &TrieCase, idx: usize) -> Vec<Tuple> {
    let id = |k: u64| -> u64 { c.remap.iter().find(|(f, _)| u64::from(*f) == k).map_or(k + 1, |(_, t)| *t) };
    let gen_own = |spec: &RelSpec, shift: u64| -> Vec<Tuple> {
        (0..u64::from(spec.n))
            .map(|i| (0..u64::from(c.arity)).map(|j| id(mix(spec.seed, i * 4 + j) % u64::from(spec.domain.max(1)) + shift)).collect())
            .collect()
    };
    let spec = &c.rels[idx];
    let first = &c.rels[0];
    match if idx == 0 { 0 } else { spec.shape } {
        1 => gen_own(&RelSpec { n: spec.n, ..first.clone() }, 0),
        2 => gen_own(spec, 100 * (idx as u64 + 1)),
        3 => {
            let mut v = gen_own(first, 0);
            v.extend(gen_own(spec, 0));
            v
        }
        _ => gen_own(spec, 0),
    }
}

/// Full trie join: all tuples on which every trie agrees, in discovery order; Err on a contract violation.
fn trie_join<'a>(iters: Vec<TrieIterator<'a>>, depth: usize, prefix: &mut Vec<u64>, out: &mut Vec<Tuple>, steps: &mut usize) -> Result<(), String> {
    let mut join = LeapfrogJoin::new(iters);
    let mut last: Option<NodeId> = None;
    while let Some(key) = join.key() {
        *steps += 1;
        if *steps > 200_000 {
            return Err("more than 200000 steps: the join does not terminate".into());
        }
        if let Some(l) = last {
            if key <= l {
                return Err(format!("keys below prefix {prefix:?} not strictly increasing: {} after {}", key.as_u64(), l.as_u64()));
            }
        }
        last = Some(key);
        prefix.push(key.as_u64());
        if depth == 1 {
            out.push(prefix.clone());
        } else {
            match join.open() {
                Some(children) => trie_join(children, depth - 1, prefix, out, steps)?,
                None => return Err(format!("open() returned None at prefix {prefix:?} although every relation has tuples of arity > {}", prefix.len())),
            }
        }
        prefix.pop();
        if !join.next() {
            if join.key().is_some() {
                return Err(format!("next() returned false but key() = {:?} below prefix {prefix:?}", join.key().map(|k| k.as_u64())));
            }
            break;
        }
        if join.key().is_none() {
            return Err(format!("next() returned true but key() is None below prefix {prefix:?}"));
        }
    }
    Ok(())
}

pub fn trie_check(c: &TrieCase) -> CaseResult {
    let arity = c.arity.max(1) as usize;
    let rels: Vec<Vec<Tuple>> = (0..c.rels.len()).map(|i| tuples_of(c, i)).collect();
    // reference: intersection of the relations as sets
    let sets: Vec<BTreeSet<Tuple>> = rels.iter().map(|r| r.iter().cloned().collect()).collect();
    let mut want: BTreeSet<Tuple> = sets[0].clone();
    for s in &sets[1..] {
        want = want.intersection(s).cloned().collect();
    }
    let res = guard("leapfrog trie join", || -> Result<Vec<Tuple>, (String, String)> {
        let mut tries = Vec::new();
        for (ri, rel) in rels.iter().enumerate() {
            let mut t = TrieIndex::new();
            for (ti, tup) in rel.iter().enumerate() {
                let path: Vec<NodeId> = tup.iter().map(|v| NodeId::new(*v)).collect();
                t.insert(&path, EdgeId::new((ri as u64) << 32 | ti as u64));
            }
            if t.len() != rel.len() || t.is_empty() != rel.is_empty() {
                return Err(("trie-len".into(), format!("relation {ri}: len() = {} after {} insertions", t.len(), rel.len())));
            }
            tries.push(t);
        }
        // get(): exactly the edge ids inserted under the path, for every stored path and for absent ones
        for (ri, rel) in rels.iter().enumerate() {
            let mut by_path: BTreeMap<&Tuple, Vec<u64>> = BTreeMap::new();
            for (ti, tup) in rel.iter().enumerate() {
                by_path.entry(tup).or_default().push((ri as u64) << 32 | ti as u64);
            }
            for (tup, ids) in &by_path {
                let path: Vec<NodeId> = tup.iter().map(|v| NodeId::new(*v)).collect();
                let mut got: Vec<u64> = tries[ri].get(&path).map(|e| e.iter().map(|e| e.as_u64()).collect()).unwrap_or_default();
                got.sort_unstable();
                if got != **ids {
                    return Err(("trie-get".into(), format!("relation {ri}: get({tup:?}) = {got:?}, inserted {ids:?}")));
                }
            }
            for other in &sets {
                for tup in other.iter().filter(|t| !sets[ri].contains(*t)).take(8) {
                    let path: Vec<NodeId> = tup.iter().map(|v| NodeId::new(*v)).collect();
                    if let Some(e) = tries[ri].get(&path) {
                        return Err(("trie-get".into(), format!("relation {ri}: get({tup:?}) = {e:?} for a tuple never inserted")));
                    }
                }
            }
            // root iterator: sorted distinct first components; seek = first key >= target
            let firsts: Vec<u64> = rel.iter().map(|t| t[0]).collect::<BTreeSet<_>>().into_iter().collect();
            let mut it = tries[ri].iter();
            let mut seen = Vec::new();
            while let Some(k) = it.key() {
                seen.push(k.as_u64());
                if seen.len() > firsts.len() + 1 {
                    break;
                }
                let more = it.next();
                if more != it.key().is_some() || more != it.is_valid() {
                    return Err(("trie-iter".into(), format!("relation {ri}: next() = {more}, key() = {:?}, is_valid() = {}", it.key().map(|k| k.as_u64()), it.is_valid())));
                }
            }
            if seen != firsts {
                return Err(("trie-iter".into(), format!("relation {ri}: root iterator yields {seen:?}, distinct first components are {firsts:?}")));
            }
            for (from, target) in &c.seeks {
                // advance `from % (len+1)` steps, then seek: the keys at or after the position are searched
                let mut it = tries[ri].iter();
                let skip = if firsts.is_empty() { 0 } else { *from as usize % (firsts.len() + 1) };
                for _ in 0..skip {
                    it.next();
                }
                let pos = skip.min(firsts.len());
                let t = c.remap.iter().find(|(f, _)| f == target).map_or(u64::from(*target) + 1, |(_, t)| *t);
                let expect = firsts[pos..].iter().copied().find(|k| *k >= t);
                let found = it.seek(NodeId::new(t));
                let at = it.key().map(|k| k.as_u64());
                if found != expect.is_some() || at != expect {
                    return Err(("trie-seek".into(), format!("relation {ri}: keys {firsts:?}, at position {pos} seek({t}) = {found}, key() = {at:?}; first key >= target is {expect:?}")));
                }
            }
        }
        let iters: Vec<TrieIterator<'_>> = tries.iter().map(TrieIndex::iter).collect();
        let mut out = Vec::new();
        let mut steps = 0;
        trie_join(iters, arity, &mut Vec::new(), &mut out, &mut steps).map_err(|e| ("join-contract".to_string(), e))?;
        Ok(out)
    })?;
    let got = match res {
        Ok(g) => g,
        Err((sub, what)) => return fail(format!("c19/leapfrog_trie/{sub}"), format!("arity {arity}, relations {rels:?}\n{what}")),
    };
    let got_set: BTreeSet<Tuple> = got.iter().cloned().collect();
    if got_set.len() != got.len() {
        return fail("c19/leapfrog_trie/duplicate-tuple", format!("arity {arity}, relations {rels:?}\nthe join emitted a tuple twice: {got:?}"));
    }
    if got_set != want {
        let missing: Vec<&Tuple> = want.difference(&got_set).take(5).collect();
        let extra: Vec<&Tuple> = got_set.difference(&want).take(5).collect();
        return fail("c19/leapfrog_trie/intersection", format!("arity {arity}, relations {rels:?}\nleapfrog join found {} tuples, the intersection has {}; missing {missing:?}, not in the intersection {extra:?}", got.len(), want.len()));
    }
    // lexicographic order of discovery (sorted iterators at every level)
    if got.windows(2).any(|w| w[0] >= w[1]) {
        return fail("c19/leapfrog_trie/order", format!("arity {arity}: tuples not in increasing lexicographic order: {got:?}"));
    }
    let k = rels.len();
    let class = if k == 1 {
        "single"
    } else if want.is_empty() {
        if sets.iter().any(BTreeSet::is_empty) { "empty-relation" } else { "disjoint" }
    } else if sets.iter().all(|s| *s == sets[0]) {
        "equal"
    } else if sets.iter().any(|s| *s == want) {
        "nested"
    } else {
        "overlap"
    };
    // non-trivial: >= 2 relations, a non-empty intersection that is smaller than every relation's set or arity >= 2
    let nontrivial = k >= 2 && !want.is_empty() && (arity >= 2 || sets.iter().any(|s| s.len() > want.len()));
    ok(nontrivial, format!("{class}/a{arity}/k{k}"), hash_dbg(c))
}

// ------------------------------------------------------------------------------------------------
// Operator level
// ------------------------------------------------------------------------------------------------

#[derive(Clone, Debug, Serialize, Deserialize)]
pub struct InputSpec {
    pub n: u16,
    pub domain: u8,
    pub null_pct: u8,
    pub seed: u32,
    /// 0 own keys · 1 input 0's rows (same seed) · 2 keys shifted away (disjoint)
    pub shape: u8,
    pub split: Split,
    /// extra payload columns (0-2) besides the row id
    pub extra: u8,
    /// 0 = flat chunks; k >= 2: every k-th physical row of every chunk is a deselected copy of a live row
    #[serde(default)]
    pub sel: u8,
}

#[derive(Clone, Debug, Serialize, Deserialize)]
pub struct OpCase {
    pub nkeys: u8,
    /// key columns are Node-typed vectors instead of Int64 (keys then start at 0 instead of below 0)
    pub node_keys: bool,
    pub inputs: Vec<InputSpec>,
    /// output columns: (input selector, column selector)
    pub mapping: Vec<(u8, u8)>,
    pub rerun: bool,
}

fn input_strategy(max_n: u16, max_domain: u8) -> impl Strategy<Value = InputSpec> {
    (
        prop_oneof![1 => Just(0u16), 1 => Just(1u16), 5 => 2u16..(max_n.min(14) + 1), 3 => 2u16..(max_n + 1)],
        prop_oneof![1 => Just(1u8), 5 => 2u8..5, 2 => 5u8..(max_domain.max(6))],
        prop_oneof![4 => Just(0u8), 2 => 1u8..40, 1 => Just(100u8)],
        any::<u32>(),
        prop_oneof![4 => Just(0u8), 3 => Just(1u8), 1 => Just(2u8)],
        crate::props::c17::split_strategy(),
        0u8..3,
        prop_oneof![3 => Just(0u8), 1 => 2u8..6],
    )
        .prop_map(|(n, domain, null_pct, seed, shape, split, extra, sel)| InputSpec { n, domain, null_pct, seed, shape, split, extra, sel })
}

pub fn op_case_strategy() -> impl Strategy<Value = OpCase> {
    // the naive reference enumerates combinations: the more inputs, the smaller each
    let inputs = prop_oneof![
        1 => proptest::collection::vec(input_strategy(300, 40), 1..=1),
        4 => proptest::collection::vec(input_strategy(120, 40), 2..=2),
        1 => (input_strategy(14, 40), prop_oneof![Just(2047u16), Just(2048), Just(2049), Just(4097)]).prop_map(|(a, n)| {
            let big = InputSpec { n, domain: 60, shape: 0, ..a.clone() };
            vec![big, a]
        }),
        3 => proptest::collection::vec(input_strategy(40, 8), 3..=3),
        2 => proptest::collection::vec(input_strategy(14, 6), 4..=4),
        2 => proptest::collection::vec(input_strategy(9, 6), 5..=5),
    ];
    (prop_oneof![3 => Just(1u8), 2 => Just(2u8)], prop::bool::weighted(0.25), inputs, proptest::collection::vec((any::<u8>(), any::<u8>()), 1..6), prop::bool::weighted(0.25))
        .prop_map(|(nkeys, node_keys, inputs, mapping, rerun)| OpCase { nkeys, node_keys, inputs, mapping, rerun })
}

/// A cell of an input: key columns first (None = NULL), then the row id, then `extra` payload columns.
type Cells = Vec<Option<i64>>;

fn input_rows(c: &OpCase, idx: usize) -> Vec<Cells> {
    let spec = &c.inputs[idx];
    let (seed, shift) = match if idx == 0 { 0 } else { spec.shape } {
        1 => (c.inputs[0].seed, 0i64),
        2 => (spec.seed, 1000 * (idx as i64 + 1)),
        _ => (spec.seed, 0),
    };
    let dom = if (if idx == 0 { 0 } else { spec.shape }) == 1 { c.inputs[0].domain } else { spec.domain }.max(1);
    let low = if c.node_keys { 0 } else { -i64::from(dom / 2) };
    (0..u64::from(spec.n))
        .map(|i| {
            let mut row: Cells = (0..u64::from(c.nkeys.max(1)))
                .map(|j| {
                    let h = mix(seed, i * 8 + j);
                    if (mix(spec.seed ^ 0x55, i * 8 + j) % 100) < u64::from(spec.null_pct) { None } else { Some((h % u64::from(dom)) as i64 + low + shift) }
                })
                .collect();
            row.push(Some(i as i64 + 10_000 * idx as i64));
            for e in 0..u64::from(spec.extra) {
                row.push(if mix(spec.seed, 1_000_000 + i * 4 + e) % 5 == 0 { None } else { Some((mix(spec.seed, 2_000_000 + i * 4 + e) % 7) as i64) });
            }
            row
        })
        .collect()
}

struct Replay {
    chunks: Vec<DataChunk>,
    pos: usize,
}

impl Operator for Replay {
    fn next(&mut self) -> OperatorResult {
        if self.pos < self.chunks.len() {
            self.pos += 1;
            Ok(Some(self.chunks[self.pos - 1].clone()))
        } else {
            Ok(None)
        }
    }
    fn reset(&mut self) {
        self.pos = 0;
    }
    fn name(&self) -> &'static str {
        "HarnessReplay"
    }
}

fn input_chunks(rows: &[Cells], width: usize, nkeys: usize, node_keys: bool, split: &Split, sel: u8) -> Vec<DataChunk> {
    let mut chunks = Vec::new();
    let mut pos = 0;
    for sz in split_sizes(rows.len(), split) {
        let slice = &rows[pos..pos + sz];
        pos += sz;
        // physical layout: live rows in order, a dead copy inserted at every sel-th physical position
        let mut phys: Vec<&Cells> = Vec::new();
        let mut live: Vec<usize> = Vec::new();
        for r in slice {
            if sel >= 2 && phys.len() % sel as usize == sel as usize - 1 {
                phys.push(r);
            }
            live.push(phys.len());
            phys.push(r);
        }
        if sel >= 2 && !slice.is_empty() {
            phys.push(&slice[0]);
        }
        let cols: Vec<ValueVector> = (0..width)
            .map(|ci| {
                let node = node_keys && ci < nkeys;
                let mut v = ValueVector::with_type(if node { LogicalType::Node } else { LogicalType::Int64 });
                for r in &phys {
                    match r[ci] {
                        Some(x) if node => v.push_node_id(NodeId::new(x as u64)),
                        Some(x) => v.push_int64(x),
                        None => v.push_value(Value::Null),
                    }
                }
                v
            })
            .collect();
        let mut chunk = DataChunk::new(cols);
        if sel >= 2 {
            let mut sv = SelectionVector::with_capacity(live.len());
            for i in live {
                sv.push(i);
            }
            chunk.set_selection(sv);
        }
        chunks.push(chunk);
    }
    chunks
}

pub fn operator_check(c: &OpCase) -> CaseResult {
    let nkeys = c.nkeys.max(1) as usize;
    let k = c.inputs.len();
    let inputs: Vec<Vec<Cells>> = (0..k).map(|i| input_rows(c, i)).collect();
    let widths: Vec<usize> = c.inputs.iter().map(|s| nkeys + 1 + s.extra as usize).collect();
    let mapping: Vec<(usize, usize)> = c.mapping.iter().map(|(i, col)| (*i as usize % k, *col as usize)).map(|(i, col)| (i, col % widths[i])).collect();
    // reference: nested loop over the inputs, one row each, all key tuples equal and NULL-free
    let mut combos: Vec<Vec<usize>> = vec![Vec::new()];
    for (ii, rows) in inputs.iter().enumerate() {
        let mut next = Vec::new();
        for combo in &combos {
            for (ri, row) in rows.iter().enumerate() {
                let key = &row[..nkeys];
                if key.iter().any(Option::is_none) {
                    continue;
                }
                if ii > 0 && inputs[0][combo[0]][..nkeys] != *key {
                    continue;
                }
                let mut cmb = combo.clone();
                cmb.push(ri);
                next.push(cmb);
            }
        }
        combos = next;
        if combos.len() > 400_000 {
            // generator bound exceeded (cannot happen with the sizes above); keep the case cheap
            return ok(false, "skipped:too-large", hash_dbg(c));
        }
    }
    let mut want: BTreeMap<Vec<Option<i64>>, usize> = BTreeMap::new();
    for combo in &combos {
        let row: Vec<Option<i64>> = mapping.iter().map(|(i, col)| inputs[*i][combo[*i]][*col]).collect();
        *want.entry(row).or_insert(0) += 1;
    }
    let total: usize = combos.len();

    let run = guard("LeapfrogJoinOperator", || -> Result<(Vec<Vec<Option<i64>>>, Option<Vec<Vec<Option<i64>>>>), String> {
        let ops: Vec<Box<dyn Operator>> = (0..k)
            .map(|i| Box::new(Replay { chunks: input_chunks(&inputs[i], widths[i], nkeys, c.node_keys, &c.inputs[i].split, c.inputs[i].sel), pos: 0 }) as Box<dyn Operator>)
            .collect();
        let keys: Vec<Vec<usize>> = (0..k).map(|_| (0..nkeys).collect()).collect();
        let schema = vec![LogicalType::Int64; mapping.len()];
        let mut op = LeapfrogJoinOperator::new(ops, keys, schema, mapping.clone());
        let drain = |op: &mut LeapfrogJoinOperator| -> Result<Vec<Vec<Option<i64>>>, String> {
            let mut out = Vec::new();
            let mut polls = 0;
            while let Some(chunk) = op.next().map_err(|e| format!("error: {e}"))? {
                for r in chunk.selected_indices() {
                    let mut row = Vec::new();
                    for ci in 0..chunk.column_count() {
                        match chunk.column(ci).and_then(|col| col.get_value(r)) {
                            Some(Value::Int64(x)) => row.push(Some(x)),
                            Some(Value::Null) => row.push(None),
                            other => return Err(format!("output cell {other:?} in column {ci}")),
                        }
                    }
                    out.push(row);
                }
                polls += 1;
                if polls > total + 16 {
                    return Err(format!("more than {polls} output chunks for {total} expected rows: does not terminate"));
                }
            }
            Ok(out)
        };
        let first = drain(&mut op)?;
        let second = if c.rerun {
            op.reset();
            Some(drain(&mut op)?)
        } else {
            None
        };
        Ok((first, second))
    })?;
    let describe = |what: String| format!("{k} inputs joined on their first {nkeys} column(s) ({} keys), mapping {mapping:?}\ninputs {:?}\n{what}", if c.node_keys { "Node" } else { "Int64" }, inputs.iter().map(|r| if r.len() > 12 { format!("[{} rows]", r.len()) } else { format!("{r:?}") }).collect::<Vec<_>>());
    let (first, second) = match run {
        Ok(x) => x,
        Err(e) => return fail("c19/leapfrog_operator/error", describe(e)),
    };
    let ms = |rows: &[Vec<Option<i64>>]| -> BTreeMap<Vec<Option<i64>>, usize> {
        let mut m = BTreeMap::new();
        for r in rows {
            *m.entry(r.clone()).or_insert(0) += 1;
        }
        m
    };
    let got = ms(&first);
    if got != want {
        let mut diff = String::new();
        for (r, n) in want.iter().filter(|(r, n)| got.get(*r).copied().unwrap_or(0) != **n).take(4) {
            diff.push_str(&format!("row {r:?}: got x{}, expected x{n}; ", got.get(r).copied().unwrap_or(0)));
        }
        for (r, n) in got.iter().filter(|(r, _)| !want.contains_key(*r)).take(4) {
            diff.push_str(&format!("row {r:?}: got x{n}, expected x0; "));
        }
        let sub = if c.inputs.iter().any(|i| i.sel >= 2) { "selection" } else if nkeys >= 2 { "multi-key" } else { "single-key" };
        return fail(format!("c19/leapfrog_operator/{sub}"), describe(format!("{} rows, the join by definition has {total}; {diff}", first.len())));
    }
    if let Some(second) = second {
        if ms(&second) != got {
            return fail("c19/leapfrog_operator/reset", describe(format!("after reset(): {} rows, first iteration {}", second.len(), first.len())));
        }
    }
    let dup = inputs.iter().any(|rows| {
        let mut seen = BTreeSet::new();
        rows.iter().any(|r| r[..nkeys].iter().all(Option::is_some) && !seen.insert(r[..nkeys].to_vec()))
    });
    let chunks = (0..k).map(|i| split_sizes(inputs[i].len(), &c.inputs[i].split).len()).max().unwrap_or(0);
    let class = format!("k{k}/keys{nkeys}{}{}{}", if c.inputs.iter().any(|i| i.sel >= 2) { "/sel" } else { "" }, if total == 0 { "/empty" } else { "" }, if total > 2048 { "/out>2048" } else { "" });
    ok(k >= 2 && total > 0 && dup && chunks >= 2, class, hash_dbg(c))
}
