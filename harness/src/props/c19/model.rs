//! C19 oracles: brute-force / by-definition graph algorithms over the resolved graph. Nothing here
//! shares code with the algorithms under test (no heaps, no union-find, no low-link DFS).

use super::graphs::{RE, RG};

pub type Wt<'a> = &'a dyn Fn(&RE) -> f64;

/// Bellman-Ford by definition: D_k[v] = min weight of a walk src -> v with <= k edges, iterated
/// on full copies (Jacobi). Returns (D_{n-1} as Option, whether round n still improves = a negative
/// cycle is reachable from src).
pub fn sssp(rg: &RG, src: usize, wt: Wt) -> (Vec<Option<f64>>, bool) {
    let n = rg.n;
    let mut d: Vec<Option<f64>> = vec![None; n];
    d[src] = Some(0.0);
    let step = |d: &Vec<Option<f64>>| -> (Vec<Option<f64>>, bool) {
        let mut nd = d.clone();
        let mut changed = false;
        for e in &rg.edges {
            if let Some(du) = d[e.s] {
                let c = du + wt(e);
                if nd[e.d].is_none_or(|x| c < x) {
                    nd[e.d] = Some(c);
                    changed = true;
                }
            }
        }
        (nd, changed)
    };
    for _ in 0..n.saturating_sub(1) {
        let (nd, changed) = step(&d);
        d = nd;
        if !changed {
            return (d, false);
        }
    }
    let (_, changed) = step(&d);
    (d, changed)
}

/// Cheapest alive edge u -> v.
pub fn min_edge(rg: &RG, u: usize, v: usize, wt: Wt) -> Option<f64> {
    rg.edges.iter().filter(|e| e.s == u && e.d == v).map(|e| wt(e)).fold(None, |a, x| match a {
        None => Some(x),
        Some(y) => Some(if x < y { x } else { y }),
    })
}

/// Hop distances (unweighted) from src.
pub fn hops(rg: &RG, src: usize) -> Vec<Option<usize>> {
    let one = |_: &RE| 1.0;
    sssp(rg, src, &one).0.into_iter().map(|d| d.map(|x| x as usize)).collect()
}

pub fn reach(rg: &RG, src: usize) -> Vec<bool> {
    hops(rg, src).into_iter().map(|h| h.is_some()).collect()
}

/// reach_plus[i][j]: a walk of >= 1 edge from i to j exists.
pub fn reach_plus(rg: &RG) -> Vec<Vec<bool>> {
    let n = rg.n;
    let mut m = vec![vec![false; n]; n];
    for e in &rg.edges {
        m[e.s][e.d] = true;
    }
    for k in 0..n {
        for i in 0..n {
            if m[i][k] {
                for j in 0..n {
                    if m[k][j] {
                        m[i][j] = true;
                    }
                }
            }
        }
    }
    m
}

pub fn acyclic(rg: &RG) -> bool {
    let m = reach_plus(rg);
    (0..rg.n).all(|i| !m[i][i])
}

/// Weak component label (smallest member) per node, by flooding.
pub fn weak_classes(rg: &RG) -> Vec<usize> {
    let n = rg.n;
    let mut lab: Vec<usize> = (0..n).collect();
    loop {
        let mut changed = false;
        for e in &rg.edges {
            let m = lab[e.s].min(lab[e.d]);
            if lab[e.s] != m || lab[e.d] != m {
                lab[e.s] = m;
                lab[e.d] = m;
                changed = true;
            }
        }
        if !changed {
            return lab;
        }
    }
}

/// Strong component label (smallest member) per node: mutual reachability.
pub fn strong_classes(rg: &RG) -> Vec<usize> {
    let m = reach_plus(rg);
    (0..rg.n).map(|i| (0..rg.n).find(|&j| j == i || (m[i][j] && m[j][i])).unwrap()).collect()
}

/// Undirected simple neighbour sets (self-loops dropped, parallels merged).
pub fn simple_adj(rg: &RG) -> Vec<Vec<bool>> {
    let n = rg.n;
    let mut a = vec![vec![false; n]; n];
    for e in &rg.edges {
        if e.s != e.d {
            a[e.s][e.d] = true;
            a[e.d][e.s] = true;
        }
    }
    a
}

/// Number of connected components of the undirected simple graph restricted to `alive`, with the
/// pair `skip` (if any) removed.
pub fn count_components(adj: &[Vec<bool>], alive: &[bool], skip: Option<(usize, usize)>) -> usize {
    let n = adj.len();
    let mut seen = vec![false; n];
    let mut comps = 0;
    for s in 0..n {
        if !alive[s] || seen[s] {
            continue;
        }
        comps += 1;
        let mut stack = vec![s];
        seen[s] = true;
        while let Some(u) = stack.pop() {
            for v in 0..n {
                if adj[u][v] && alive[v] && !seen[v] && skip != Some((u, v)) && skip != Some((v, u)) {
                    seen[v] = true;
                    stack.push(v);
                }
            }
        }
    }
    comps
}

/// Minimum spanning forest weight restricted to the nodes with `inside[v]`, by the cut rule applied
/// literally (Jarník without a heap): repeatedly take the cheapest undirected edge leaving the
/// grown set; start a new tree when none leaves. Returns (weight, number of trees).
pub fn msf_weight(rg: &RG, inside: &[bool], wt: Wt) -> (f64, usize) {
    let n = rg.n;
    let mut inset = vec![false; n];
    let mut total = 0.0;
    let mut trees = 0;
    for root in 0..n {
        if !inside[root] || inset[root] {
            continue;
        }
        trees += 1;
        let mut cur = vec![false; n];
        cur[root] = true;
        inset[root] = true;
        loop {
            let mut best: Option<(f64, usize)> = None;
            for e in &rg.edges {
                if !inside[e.s] || !inside[e.d] {
                    continue;
                }
                let out = if cur[e.s] && !cur[e.d] {
                    e.d
                } else if cur[e.d] && !cur[e.s] {
                    e.s
                } else {
                    continue;
                };
                let w = wt(e);
                if best.is_none_or(|(bw, _)| w < bw) {
                    best = Some((w, out));
                }
            }
            match best {
                Some((w, v)) => {
                    cur[v] = true;
                    inset[v] = true;
                    total += w;
                }
                None => break,
            }
        }
    }
    (total, trees)
}

/// Minimum spanning forest weight by enumeration of every subset of the min-weight simple
/// undirected edges (only called when there are few of them).
pub fn msf_weight_enum(rg: &RG, wt: Wt) -> Option<f64> {
    let n = rg.n;
    let mut simple: Vec<(usize, usize, f64)> = Vec::new();
    for e in &rg.edges {
        if e.s == e.d {
            continue;
        }
        let (a, b) = (e.s.min(e.d), e.s.max(e.d));
        let w = wt(e);
        match simple.iter_mut().find(|x| x.0 == a && x.1 == b) {
            Some(x) => {
                if w < x.2 {
                    x.2 = w;
                }
            }
            None => simple.push((a, b, w)),
        }
    }
    if simple.len() > 11 {
        return None;
    }
    let lab = weak_classes(rg);
    let comps = {
        let mut c = lab.clone();
        c.sort_unstable();
        c.dedup();
        c.len()
    };
    let need = n - comps;
    let mut best: Option<f64> = None;
    for mask in 0u32..(1u32 << simple.len()) {
        if mask.count_ones() as usize != need {
            continue;
        }
        // need edges + spanning (same component structure) <=> acyclic spanning forest
        let mut l: Vec<usize> = (0..n).collect();
        loop {
            let mut ch = false;
            for (i, (a, b, _)) in simple.iter().enumerate() {
                if mask & (1 << i) != 0 {
                    let m = l[*a].min(l[*b]);
                    if l[*a] != m || l[*b] != m {
                        l[*a] = m;
                        l[*b] = m;
                        ch = true;
                    }
                }
            }
            if !ch {
                break;
            }
        }
        if l != lab {
            continue;
        }
        let w: f64 = simple.iter().enumerate().filter(|(i, _)| mask & (1 << i) != 0).map(|(_, x)| x.2).sum();
        if best.is_none_or(|b| w < b) {
            best = Some(w);
        }
    }
    best
}

/// Minimum s-t cut capacity by enumerating every node subset containing s and not t (n <= 12).
pub fn min_cut_enum(rg: &RG, s: usize, t: usize, cap: Wt) -> f64 {
    let n = rg.n;
    let others: Vec<usize> = (0..n).filter(|&v| v != s && v != t).collect();
    let mut best = f64::INFINITY;
    for mask in 0u32..(1u32 << others.len()) {
        let mut inside = vec![false; n];
        inside[s] = true;
        for (i, v) in others.iter().enumerate() {
            if mask & (1 << i) != 0 {
                inside[*v] = true;
            }
        }
        let c: f64 = rg.edges.iter().filter(|e| inside[e.s] && !inside[e.d]).map(|e| cap(e)).sum();
        if c < best {
            best = c;
        }
    }
    best
}

/// Max-flow value by plain Ford-Fulkerson with DFS on an edge list (used above 12 nodes, where the
/// subset enumeration is too large).
pub fn max_flow_ff(rg: &RG, s: usize, t: usize, cap: Wt) -> f64 {
    // arcs: (from, to, residual); arc 2i forward, 2i+1 backward
    let mut arcs: Vec<(usize, usize, f64)> = Vec::new();
    for e in &rg.edges {
        if e.s != e.d {
            arcs.push((e.s, e.d, cap(e)));
            arcs.push((e.d, e.s, 0.0));
        }
    }
    let mut total = 0.0;
    loop {
        // DFS for an augmenting path
        let mut prev: Vec<Option<usize>> = vec![None; rg.n];
        let mut seen = vec![false; rg.n];
        seen[s] = true;
        let mut stack = vec![s];
        while let Some(u) = stack.pop() {
            for (i, a) in arcs.iter().enumerate() {
                if a.0 == u && a.2 > 0.0 && !seen[a.1] {
                    seen[a.1] = true;
                    prev[a.1] = Some(i);
                    stack.push(a.1);
                }
            }
        }
        if !seen[t] {
            return total;
        }
        let mut b = f64::INFINITY;
        let mut v = t;
        while let Some(i) = prev[v] {
            b = b.min(arcs[i].2);
            v = arcs[i].0;
        }
        v = t;
        while let Some(i) = prev[v] {
            arcs[i].2 -= b;
            arcs[i ^ 1].2 += b;
            v = arcs[i].0;
        }
        total += b;
    }
}

/// Minimum cost of a flow of value `value` from s to t (successive shortest paths on an edge list
/// with true per-edge costs; costs >= 0).
pub fn min_cost_of_flow(rg: &RG, s: usize, t: usize, value: f64) -> Option<f64> {
    let mut arcs: Vec<(usize, usize, f64, f64)> = Vec::new(); // from, to, residual, cost
    for e in &rg.edges {
        if e.s != e.d {
            arcs.push((e.s, e.d, e.w, e.c));
            arcs.push((e.d, e.s, 0.0, -e.c));
        }
    }
    let mut left = value;
    let mut cost = 0.0;
    while left > 1e-9 {
        let mut dist = vec![f64::INFINITY; rg.n];
        let mut prev: Vec<Option<usize>> = vec![None; rg.n];
        dist[s] = 0.0;
        for _ in 0..rg.n {
            let mut ch = false;
            for (i, a) in arcs.iter().enumerate() {
                if a.2 > 1e-12 && dist[a.0].is_finite() && dist[a.0] + a.3 < dist[a.1] - 1e-12 {
                    dist[a.1] = dist[a.0] + a.3;
                    prev[a.1] = Some(i);
                    ch = true;
                }
            }
            if !ch {
                break;
            }
        }
        if !dist[t].is_finite() {
            return None;
        }
        let mut b = left;
        let mut v = t;
        let mut guard = 0;
        while let Some(i) = prev[v] {
            b = b.min(arcs[i].2);
            v = arcs[i].0;
            guard += 1;
            if guard > rg.n + 1 {
                return None;
            }
        }
        v = t;
        while let Some(i) = prev[v] {
            arcs[i].2 -= b;
            arcs[i ^ 1].2 += b;
            cost += b * arcs[i].3;
            v = arcs[i].0;
        }
        left -= b;
    }
    Some(cost)
}

/// Triangles through each node in the undirected simple graph: |{ {a,b} : a,b,v pairwise adjacent }|.
pub fn triangles(adj: &[Vec<bool>]) -> Vec<u64> {
    let n = adj.len();
    let mut t = vec![0u64; n];
    for a in 0..n {
        for b in a + 1..n {
            for c in b + 1..n {
                if adj[a][b] && adj[b][c] && adj[a][c] {
                    t[a] += 1;
                    t[b] += 1;
                    t[c] += 1;
                }
            }
        }
    }
    t
}

/// Core numbers by the definition: v has core number >= k iff it survives pruning every node whose
/// degree inside the survivors is < k. `selfdeg[v]` is what a self-loop adds to v's degree.
pub fn core_numbers(adj: &[Vec<bool>], selfdeg: &[usize]) -> Vec<usize> {
    let n = adj.len();
    let mut core = vec![0usize; n];
    for k in 1..=n + 1 {
        let mut alive = vec![true; n];
        loop {
            let mut ch = false;
            for v in 0..n {
                if alive[v] {
                    let deg = (0..n).filter(|&u| alive[u] && adj[v][u]).count() + selfdeg[v];
                    if deg < k {
                        alive[v] = false;
                        ch = true;
                    }
                }
            }
            if !ch {
                break;
            }
        }
        let mut any = false;
        for v in 0..n {
            if alive[v] {
                core[v] = k;
                any = true;
            }
        }
        if !any {
            break;
        }
    }
    core
}

/// Number of shortest s->t paths and hop distance matrices; `mult` = count parallel edges as
/// distinct paths.
pub fn betweenness(rg: &RG, mult: bool) -> Vec<f64> {
    let n = rg.n;
    let mut m = vec![vec![0.0f64; n]; n];
    for e in &rg.edges {
        if e.s != e.d {
            if mult {
                m[e.s][e.d] += 1.0;
            } else {
                m[e.s][e.d] = 1.0;
            }
        }
    }
    let mut dist = vec![vec![None; n]; n];
    let mut sigma = vec![vec![0.0f64; n]; n];
    for s in 0..n {
        let h = hops(rg, s);
        // process nodes by increasing distance
        let mut order: Vec<usize> = (0..n).filter(|&v| h[v].is_some()).collect();
        order.sort_by_key(|&v| h[v].unwrap());
        sigma[s][s] = 1.0;
        for &v in &order {
            if v == s {
                continue;
            }
            let dv = h[v].unwrap();
            let mut c = 0.0;
            for u in 0..n {
                if h[u] == Some(dv - 1) && m[u][v] > 0.0 {
                    c += sigma[s][u] * m[u][v];
                }
            }
            sigma[s][v] = c;
        }
        dist[s] = h;
    }
    let mut bc = vec![0.0f64; n];
    for s in 0..n {
        for t in 0..n {
            if s == t || dist[s][t].is_none() {
                continue;
            }
            for v in 0..n {
                if v == s || v == t {
                    continue;
                }
                if let (Some(a), Some(b)) = (dist[s][v], dist[v][t]) {
                    if a + b == dist[s][t].unwrap() {
                        bc[v] += sigma[s][v] * sigma[v][t] / sigma[s][t];
                    }
                }
            }
        }
    }
    bc
}

/// PageRank by power iteration to a fixed point (multigraph: each edge carries an equal share of
/// its source's rank; dangling mass spread uniformly).
pub fn pagerank(rg: &RG, damping: f64, iters: usize) -> Vec<f64> {
    let n = rg.n;
    if n == 0 {
        return Vec::new();
    }
    let mut outdeg = vec![0usize; n];
    for e in &rg.edges {
        outdeg[e.s] += 1;
    }
    let mut p = vec![1.0 / n as f64; n];
    for _ in 0..iters {
        let dangling: f64 = (0..n).filter(|&v| outdeg[v] == 0).map(|v| p[v]).sum();
        let mut q = vec![(1.0 - damping) / n as f64 + damping * dangling / n as f64; n];
        for e in &rg.edges {
            q[e.d] += damping * p[e.s] / outdeg[e.s] as f64;
        }
        let diff = p.iter().zip(&q).map(|(a, b)| (a - b).abs()).fold(0.0, f64::max);
        p = q;
        if diff < 1e-14 {
            break;
        }
    }
    p
}

/// Hop distances from `s` and the number of shortest walks (as edge sequences, parallel edges
/// distinct) to every node.
pub fn path_counts(rg: &RG, s: usize) -> (Vec<Option<usize>>, Vec<u64>) {
    let n = rg.n;
    let h = hops(rg, s);
    let mut order: Vec<usize> = (0..n).filter(|&v| h[v].is_some()).collect();
    order.sort_by_key(|&v| h[v].unwrap());
    let mut sigma = vec![0u64; n];
    sigma[s] = 1;
    for &v in &order {
        if v == s {
            continue;
        }
        let dv = h[v].unwrap();
        let mut c = 0u64;
        for e in &rg.edges {
            if e.d == v && e.s != v && h[e.s] == Some(dv - 1) {
                c = c.saturating_add(sigma[e.s]);
            }
        }
        sigma[v] = c;
    }
    (h, sigma)
}
