//! C19 generator: directed multigraphs (self-loops, parallel / anti-parallel edges with different
//! weights, isolated nodes, several components, node-id gaps, deleted edges) with weight
//! properties of every kind the algorithms' `extract_*` helpers distinguish.

use std::collections::HashMap;

use proptest::prelude::*;
use serde::{Deserialize, Serialize};

use grafeo_common::types::{EdgeId, NodeId, Value};
use grafeo_core::graph::lpg::LpgStore;

use crate::driver::pick;

/// An edge property value as the generator sees it.
#[derive(Debug, Clone, Copy, PartialEq, Eq, Hash, Serialize, Deserialize)]
pub enum W {
    /// property not set
    Missing,
    Int(i64),
    /// Float64 with value q/4 (dyadic, so that sums are exact in f64)
    Q(i32),
    Str,
    Bool,
    Null,
}

impl W {
    /// The number the algorithms are documented to read: Int64 / Float64 by value, everything else
    /// (missing, non-numeric) the default.
    pub fn eff(self, default: f64) -> f64 {
        match self {
            W::Int(i) => i as f64,
            W::Q(q) => f64::from(q) / 4.0,
            _ => default,
        }
    }
    fn value(self) -> Option<Value> {
        match self {
            W::Missing => None,
            W::Int(i) => Some(Value::Int64(i)),
            W::Q(q) => Some(Value::Float64(f64::from(q) / 4.0)),
            W::Str => Some(Value::from("heavy")),
            W::Bool => Some(Value::Bool(true)),
            W::Null => Some(Value::Null),
        }
    }
}

#[derive(Debug, Clone, Copy, PartialEq, Eq, Hash, Serialize, Deserialize)]
pub enum EdgeOp {
    /// s, d: selectors into the live nodes (d inside s's cluster when the graph is clustered)
    Fresh { s: u16, d: u16 },
    /// same (src, dst) as an earlier edge
    Parallel { of: u16 },
    /// reversed (dst, src) of an earlier edge
    Anti { of: u16 },
    Loop { s: u16 },
    /// the k-th Chain op joins node k+1 to an earlier node (selector `a`, direction = its low bit):
    /// n-1 of them make the graph weakly connected
    Chain { a: u16 },
}

#[derive(Debug, Clone, Copy, PartialEq, Eq, Hash, Serialize, Deserialize)]
pub struct EdgeSpec {
    pub op: EdgeOp,
    /// property "w": weight / capacity
    pub w: W,
    /// property "c": cost (min-cost flow only)
    pub c: W,
    /// deleted again right after creation
    pub del: bool,
}

#[derive(Debug, Clone, PartialEq, Eq, Hash, Serialize, Deserialize)]
pub struct Case {
    /// node slots in creation order; `false` = created and deleted at once (a gap in the ids)
    pub nodes: Vec<bool>,
    /// Fresh edges stay inside `s mod clusters` classes (1 = no clustering)
    pub clusters: u8,
    pub edges: Vec<EdgeSpec>,
    /// pass `Some("w")` (false: `None`, i.e. every weight is the default)
    pub use_prop: bool,
    /// selectors for sources / targets / starts on graphs too large for "every pair"
    pub sel: Vec<u16>,
    /// heuristic choice for A*
    pub hmode: u8,
    pub hmask: u64,
    /// every ordered node pair carries one cost and no pair is used in both directions (an edge whose
    /// reverse already exists is turned round; a repeated pair inherits the first copy's "c")
    #[serde(default)]
    pub pair_clean: bool,
}

/// Resolved alive edge.
#[derive(Debug, Clone, Copy)]
pub struct RE {
    pub s: usize,
    pub d: usize,
    /// effective "w" with default 1.0 (weight, capacity)
    pub w: f64,
    /// effective "c" with default 0.0 (cost)
    pub c: f64,
}

/// Resolved graph over live-node positions 0..n.
#[derive(Debug, Clone)]
pub struct RG {
    pub n: usize,
    pub edges: Vec<RE>,
}

pub struct Built {
    pub store: std::sync::Arc<LpgStore>,
    pub rg: RG,
    /// position -> NodeId
    pub ids: Vec<NodeId>,
    pub pos: HashMap<NodeId, usize>,
    /// EdgeId of rg.edges[i]
    pub eids: Vec<EdgeId>,
    pub eidx: HashMap<EdgeId, usize>,
    /// ids that do not name a live node (deleted slots and one never-created id)
    pub ghosts: Vec<NodeId>,
}

impl Case {
    pub fn wprop(&self) -> Option<&'static str> {
        if self.use_prop { Some("w") } else { None }
    }

    /// (src, dst, spec) for every edge op, in order (deleted ones included).
    pub fn resolve(&self) -> (usize, Vec<(usize, usize, EdgeSpec)>) {
        let n = self.nodes.iter().filter(|l| **l).count();
        let mut all: Vec<(usize, usize, EdgeSpec)> = Vec::new();
        if n == 0 {
            return (0, all);
        }
        let k = usize::from(self.clusters.max(1));
        let mut chain = 0usize;
        for e in &self.edges {
            let (s, d) = match e.op {
                EdgeOp::Chain { a } => {
                    chain += 1;
                    if chain < n {
                        let other = pick(a, chain);
                        if a & 1 == 0 { (chain, other) } else { (other, chain) }
                    } else {
                        let s = pick(a, n);
                        (s, (s + 1) % n)
                    }
                }
                EdgeOp::Fresh { s, d } => {
                    let s = pick(s, n);
                    if k <= 1 {
                        (s, pick(d, n))
                    } else {
                        let members: Vec<usize> = (0..n).filter(|p| p % k == s % k).collect();
                        (s, members[pick(d, members.len())])
                    }
                }
                EdgeOp::Parallel { of } => {
                    if all.is_empty() {
                        (0, 0)
                    } else {
                        let (s, d, _) = all[pick(of, all.len())];
                        (s, d)
                    }
                }
                EdgeOp::Anti { of } => {
                    if all.is_empty() {
                        (0, 0)
                    } else {
                        let (s, d, _) = all[pick(of, all.len())];
                        (d, s)
                    }
                }
                EdgeOp::Loop { s } => {
                    let s = pick(s, n);
                    (s, s)
                }
            };
            let mut e = *e;
            let (mut s, mut d) = (s, d);
            if self.pair_clean {
                if all.iter().any(|(a, b, _)| *a == d && *b == s) && !all.iter().any(|(a, b, _)| *a == s && *b == d) {
                    std::mem::swap(&mut s, &mut d);
                }
                if let Some((_, _, first)) = all.iter().find(|(a, b, _)| *a == s && *b == d) {
                    e.c = first.c;
                }
            }
            all.push((s, d, e));
        }
        (n, all)
    }

    /// Builds the store. Must be called inside `guard`.
    pub fn build(&self) -> Built {
        let store = std::sync::Arc::new(LpgStore::new());
        let mut ids = Vec::new();
        let mut ghosts = Vec::new();
        for live in &self.nodes {
            let id = store.create_node(&["N"]);
            if *live {
                ids.push(id);
            } else {
                store.delete_node(id);
                ghosts.push(id);
            }
        }
        ghosts.push(NodeId::new(self.nodes.len() as u64 + 1000));
        let (n, all) = self.resolve();
        let mut edges = Vec::new();
        let mut eids = Vec::new();
        for (s, d, e) in &all {
            let id = store.create_edge(ids[*s], ids[*d], "E");
            if let Some(v) = e.w.value() {
                store.set_edge_property(id, "w", v);
            }
            if let Some(v) = e.c.value() {
                store.set_edge_property(id, "c", v);
            }
            if e.del {
                store.delete_edge(id);
            } else {
                edges.push(RE { s: *s, d: *d, w: e.w.eff(1.0), c: e.c.eff(0.0) });
                eids.push(id);
            }
        }
        let pos = ids.iter().enumerate().map(|(i, id)| (*id, i)).collect();
        let eidx = eids.iter().enumerate().map(|(i, id)| (*id, i)).collect();
        Built { store, rg: RG { n, edges }, ids, pos, eids, eidx, ghosts }
    }

    /// `k` selected positions in 0..n (all of them when n <= all_up_to).
    pub fn picks(&self, n: usize, all_up_to: usize, k: usize, salt: usize) -> Vec<usize> {
        if n == 0 {
            return Vec::new();
        }
        if n <= all_up_to {
            return (0..n).collect();
        }
        let mut out: Vec<usize> = Vec::new();
        for i in 0..k {
            let s = self.sel.get((i + salt) % self.sel.len().max(1)).copied().unwrap_or(0);
            let p = (pick(s, n) + i * salt) % n;
            if !out.contains(&p) {
                out.push(p);
            }
        }
        out
    }
}

// ------------------------------------------------------------------------------------------------
// Strategies
// ------------------------------------------------------------------------------------------------

#[derive(Clone, Copy, PartialEq, Eq)]
pub enum Sign {
    NonNeg,
    Signed,
}

fn one_weight(sign: Sign) -> BoxedStrategy<W> {
    match sign {
        Sign::NonNeg => prop_oneof![
            2 => Just(W::Missing),
            4 => (0i64..=4).prop_map(W::Int),
            1 => Just(W::Int(0)),
            1 => (0i64..1000).prop_map(W::Int),
            4 => (0i32..=20).prop_map(W::Q),
            1 => Just(W::Q(0)),
            1 => Just(W::Str),
            1 => Just(W::Bool),
            1 => Just(W::Null),
        ]
        .boxed(),
        Sign::Signed => prop_oneof![
            2 => Just(W::Missing),
            4 => (0i64..=4).prop_map(W::Int),
            3 => (-4i64..0).prop_map(W::Int),
            1 => Just(W::Int(0)),
            3 => (0i32..=20).prop_map(W::Q),
            3 => (-12i32..0).prop_map(W::Q),
            1 => Just(W::Str),
            1 => Just(W::Null),
        ]
        .boxed(),
    }
}

/// Per-graph weight regime: independent / all equal / two values (ties) / mostly zero.
fn weight_regime(sign: Sign) -> BoxedStrategy<BoxedStrategy<W>> {
    prop_oneof![
        5 => Just(()).prop_map(move |()| one_weight(sign)),
        1 => one_weight(sign).prop_map(|w| Just(w).boxed()),
        2 => (one_weight(sign), one_weight(sign)).prop_map(|(a, b)| prop_oneof![Just(a), Just(b)].boxed()),
        1 => one_weight(sign).prop_map(|a| prop_oneof![3 => Just(W::Int(0)), 1 => Just(W::Q(0)), 1 => Just(a)].boxed()),
    ]
    .boxed()
}

fn edge_op() -> impl Strategy<Value = EdgeOp> {
    prop_oneof![
        11 => (any::<u16>(), any::<u16>()).prop_map(|(s, d)| EdgeOp::Fresh { s, d }),
        4 => any::<u16>().prop_map(|of| EdgeOp::Parallel { of }),
        3 => any::<u16>().prop_map(|of| EdgeOp::Anti { of }),
        2 => any::<u16>().prop_map(|s| EdgeOp::Loop { s }),
    ]
}

fn node_count(max_n: usize) -> BoxedStrategy<usize> {
    let small = max_n.min(10);
    if max_n > 10 {
        prop_oneof![
            1 => 0usize..=2,
            12 => 2usize..=small,
            5 => 6usize..=16.min(max_n),
            2 => 10usize..=max_n,
        ]
        .boxed()
    } else {
        prop_oneof![1 => 0usize..=2, 12 => 2usize..=small].boxed()
    }
}

/// Graph cases. `max_n`: largest live node count; `sign`: whether negative weights may appear.
pub fn graph(max_n: usize, sign: Sign) -> impl Strategy<Value = Case> {
    (node_count(max_n), weight_regime(sign), weight_regime(Sign::NonNeg), 0u8..10, 0u8..10).prop_flat_map(
        move |(n, ws, cs, density, gaps)| {
            // edge budget: sparse (several components) to dense (many parallels)
            let max_e = match density {
                0 => 0,
                1..=3 => n,
                4..=7 => 2 * n + 2,
                _ => 3 * n + 4,
            };
            let spec = (edge_op(), ws.clone(), cs.clone(), prop::bool::weighted(0.07)).prop_map(|(op, w, c, del)| EdgeSpec { op, w, c, del });
            let link = (any::<u16>(), ws, cs).prop_map(|(a, w, c)| EdgeSpec { op: EdgeOp::Chain { a }, w, c, del: false });
            // 40 %: a backbone of n-1 Chain edges (weakly connected graph)
            let backbone = if density % 5 < 2 { n.saturating_sub(1) } else { 0 };
            let dead = if gaps < 3 { 0.25 } else { 0.0 };
            (
                proptest::collection::vec(prop::bool::weighted(dead), n),
                prop_oneof![4 => Just(1u8), 2 => Just(2u8), 1 => Just(3u8)],
                (proptest::collection::vec(link, backbone), proptest::collection::vec(spec, 0..=max_e)).prop_map(|(mut a, b)| {
                    a.extend(b);
                    a
                }),
                prop::bool::weighted(0.85),
                proptest::collection::vec(any::<u16>(), 6),
                0u8..4,
                any::<u64>(),
            )
                .prop_map(move |(dead_after, clusters, edges, use_prop, sel, hmode, hmask)| {
                    // live slots, each optionally followed by a dead slot
                    let mut nodes = Vec::new();
                    for d in dead_after {
                        nodes.push(true);
                        if d {
                            nodes.push(false);
                        }
                    }
                    if gaps == 0 && !nodes.is_empty() {
                        nodes.insert(0, false); // the first id is a gap: NodeId != index from the start
                    }
                    Case { nodes, clusters, edges, use_prop, sel, hmode, hmask, pair_clean: false }
                })
        },
    )
}

// ------------------------------------------------------------------------------------------------
// Shape flags (classes, non-triviality)
// ------------------------------------------------------------------------------------------------

pub struct Shape {
    pub parallel: bool,
    pub anti: bool,
    pub multi_comp: bool,
    pub tie: bool,
    pub zero_cycle: bool,
    pub n: usize,
}

impl Shape {
    pub fn of(case: &Case, rg: &RG) -> Shape {
        let mut parallel = false;
        let mut anti = false;
        let mut tie = false;
        let wt = |e: &RE| if case.use_prop { e.w } else { 1.0 };
        for (i, a) in rg.edges.iter().enumerate() {
            for b in &rg.edges[i + 1..] {
                if a.s == b.s && a.d == b.d {
                    parallel = true;
                } else if a.s == b.d && a.d == b.s && a.s != a.d {
                    anti = true;
                } else if a.s != a.d && b.s != b.d && wt(a) == wt(b) {
                    tie = true;
                }
            }
        }
        let comps = super::model::weak_classes(rg);
        let ncomp = {
            let mut c = comps.clone();
            c.sort_unstable();
            c.dedup();
            c.len()
        };
        // zero-weight cycle: a cycle inside the sub-graph of zero-weight edges
        let zero = RG { n: rg.n, edges: rg.edges.iter().filter(|e| wt(e) == 0.0).copied().collect() };
        let zero_cycle = !super::model::acyclic(&zero);
        Shape {
            parallel,
            anti,
            multi_comp: ncomp >= 2,
            tie,
            zero_cycle,
            n: rg.n,
        }
    }

    /// DESIGN N: a parallel edge, a tie, a zero-weight cycle or >= 2 components.
    pub fn nontrivial(&self) -> bool {
        self.parallel || self.anti || self.tie || self.zero_cycle || self.multi_comp
    }

    pub fn class(&self) -> String {
        if self.n == 0 {
            return "empty".into();
        }
        let mut s = String::new();
        s.push_str(if self.n <= 2 { "n<=2" } else if self.n <= 10 { "n<=10" } else { "n>10" });
        for (f, l) in [(self.parallel || self.anti, "par"), (self.multi_comp, "comps"), (self.zero_cycle, "zcyc")] {
            if f {
                s.push('+');
                s.push_str(l);
            }
        }
        s
    }
}
