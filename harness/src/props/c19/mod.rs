//! C19 — graph algorithms compute what their definitions say.
//!
//! Every sub-check builds a generated directed multigraph on a fresh `LpgStore`, runs the bundled
//! algorithms of one family on it (every source / target / start on graphs up to the stated size)
//! and compares with brute-force oracles from `model.rs`. Where many outputs are correct (paths,
//! orders, trees, flows) validity + optimal value is asserted, never one particular answer.

pub mod graphs;
pub mod leapfrog;
pub mod model;

use std::collections::{BTreeMap, BTreeSet, HashMap};
use std::sync::mpsc;
use std::time::Duration;

use proptest::prelude::*;

use grafeo_adapters::plugins::algorithms as alg;
use grafeo_adapters::plugins::algorithms::{Control, TraversalEvent};
use grafeo_common::types::{EdgeId, LogicalType, NodeId, Value};
use grafeo_core::execution::chunk::DataChunkBuilder;
use grafeo_core::execution::operators::{Operator, OperatorResult, ShortestPathOperator};
use grafeo_core::graph::Direction;

use crate::driver::{CaseResult, Failure, Run, catch, fail, guard, hash_of, ok};
use graphs::{Built, Case, RE, RG, Shape, Sign};

const EPS: f64 = 1e-9;

type Job = (Case, fn(&Case) -> CaseResult, mpsc::Sender<CaseResult>);

thread_local! {
    /// One long-lived helper per driver thread (spawning a thread per case costs milliseconds here).
    static HELPER: std::cell::RefCell<Option<mpsc::Sender<Job>>> = const { std::cell::RefCell::new(None) };
}

fn spawn_helper() -> mpsc::Sender<Job> {
    let (tx, rx) = mpsc::channel::<Job>();
    std::thread::Builder::new()
        .stack_size(16 << 20)
        .spawn(move || {
            for (c, f, out) in rx {
                let r = match catch(|| f(&c)) {
                    Ok(r) => r,
                    Err(p) => Err(Failure { signature: p.signature(), what: format!("panic at {}: {}", p.file, p.msg) }),
                };
                let _ = out.send(r);
            }
        })
        .expect("spawn");
    tx
}

/// Runs one case evaluation on a helper thread so that a non-terminating algorithm (e.g. a
/// predecessor cycle followed forever) becomes a failure instead of a stuck run. The deadline is
/// several thousand times what a case needs; a helper that misses it is abandoned and replaced.
fn with_deadline(sub: &'static str, case: &Case, f: fn(&Case) -> CaseResult) -> CaseResult {
    let (rtx, rrx) = mpsc::channel();
    HELPER.with(|h| {
        let mut h = h.borrow_mut();
        let mut job: Option<Job> = Some((case.clone(), f, rtx));
        if let Some(tx) = h.as_ref() {
            if let Err(e) = tx.send(job.take().unwrap()) {
                job = Some(e.0);
            }
        }
        if let Some(j) = job {
            let tx = spawn_helper();
            let _ = tx.send(j);
            *h = Some(tx);
        }
    });
    match rrx.recv_timeout(Duration::from_secs(30)) {
        Ok(r) => r,
        Err(_) => {
            HELPER.with(|h| *h.borrow_mut() = None);
            fail(format!("c19/{sub}/hang"), "no result after 30 s (cases take milliseconds): an algorithm does not terminate")
        }
    }
}

fn close(a: f64, b: f64) -> bool {
    (a - b).abs() <= EPS * (1.0 + a.abs().max(b.abs()))
}

fn finish(case: &Case, rg: &RG) -> CaseResult {
    let sh = Shape::of(case, rg);
    ok(sh.nontrivial(), sh.class(), hash_of(case))
}

/// Positions of a list of node ids; `Err` when an id is not a live node.
fn positions(b: &Built, ids: &[NodeId], ctx: &str, sig: &str) -> Result<Vec<usize>, Failure> {
    let mut out = Vec::with_capacity(ids.len());
    for id in ids {
        match b.pos.get(id) {
            Some(p) => out.push(*p),
            None => return fail(format!("{sig}/unknown-node"), format!("{ctx}: {id:?} is not a live node")),
        }
    }
    Ok(out)
}

/// A path must start at s, end at t, follow existing edges, and its cheapest-edge weights must sum
/// to `claimed`.
fn check_path(b: &Built, wt: model::Wt, path: &[NodeId], s: usize, t: usize, claimed: f64, sig: &str, ctx: &str) -> Result<(), Failure> {
    let p = positions(b, path, ctx, sig)?;
    if p.first() != Some(&s) || p.last() != Some(&t) {
        return fail(format!("{sig}/path-endpoints"), format!("{ctx}: path {p:?} does not run {s} -> {t}"));
    }
    let mut sum = 0.0;
    for w in p.windows(2) {
        match model::min_edge(&b.rg, w[0], w[1], wt) {
            Some(x) => sum += x,
            None => return fail(format!("{sig}/path-not-real"), format!("{ctx}: path {p:?} uses {}->{} which is not an edge", w[0], w[1])),
        }
    }
    if !close(sum, claimed) {
        return fail(format!("{sig}/path-length"), format!("{ctx}: path {p:?} weighs {sum}, claimed {claimed}"));
    }
    Ok(())
}

/// Distance map must have exactly the reachable nodes as keys and the oracle's values.
fn check_distmap(b: &Built, got: &HashMap<NodeId, f64>, want: &[Option<f64>], sig: &str, ctx: &str) -> Result<(), Failure> {
    for (id, d) in got {
        let Some(p) = b.pos.get(id) else {
            return fail(format!("{sig}/unknown-node"), format!("{ctx}: distance for {id:?}, not a live node"));
        };
        match want[*p] {
            None => return fail(format!("{sig}/extra-reachable"), format!("{ctx}: node {p} has distance {d} but is unreachable")),
            Some(w) => {
                if !close(*d, w) {
                    let kind = if *d > w { "not-minimal" } else { "too-small" };
                    return fail(format!("{sig}/distance-{kind}"), format!("{ctx}: node {p}: got {d}, minimum is {w}"));
                }
            }
        }
    }
    for (p, w) in want.iter().enumerate() {
        if w.is_some() && !got.contains_key(&b.ids[p]) {
            return fail(format!("{sig}/missing-reachable"), format!("{ctx}: node {p} reachable (d={w:?}) but absent"));
        }
    }
    Ok(())
}

/// Follows a predecessor map from t back to s with a step bound (so that a cyclic map is reported,
/// not followed forever by the library's own `path_to`).
fn pred_walk_ok(b: &Built, pred: &HashMap<NodeId, NodeId>, s: usize, t: usize) -> bool {
    let mut cur = b.ids[t];
    for _ in 0..=b.rg.n {
        if cur == b.ids[s] {
            return true;
        }
        match pred.get(&cur) {
            Some(p) => cur = *p,
            None => return true, // path_to returns None: judged by the caller
        }
    }
    false
}

fn fx<'a, K: Copy + Eq + std::hash::Hash + 'a, V: Copy + 'a>(m: impl IntoIterator<Item = (&'a K, &'a V)>) -> HashMap<K, V> {
    m.into_iter().map(|(k, v)| (*k, *v)).collect()
}

// ------------------------------------------------------------------------------------------------
// shortest paths, non-negative weights: Dijkstra, dijkstra_path, A*, Bellman-Ford, Floyd-Warshall
// ------------------------------------------------------------------------------------------------

fn check_sssp(case: &Case) -> CaseResult {
    let b = guard("build", || case.build())?;
    let use_prop = case.use_prop;
    let wtf = move |e: &RE| if use_prop { e.w } else { 1.0 };
    let wt: model::Wt = &wtf;
    let wp = case.wprop();
    let n = b.rg.n;
    let rev = RG { n, edges: b.rg.edges.iter().map(|e| RE { s: e.d, d: e.s, ..*e }).collect() };

    let mut all: Vec<Vec<Option<f64>>> = Vec::new();
    for s in 0..n {
        let (od, neg) = model::sssp(&b.rg, s, wt);
        if neg {
            return fail("c19/harness/negative-in-nonneg", "generator produced a negative cycle in the non-negative regime");
        }
        let ctx = format!("source {s}");

        // Dijkstra (all targets)
        let r = guard("dijkstra", || alg::dijkstra(&b.store, b.ids[s], wp))?;
        let dist = fx(&r.distances);
        let pred = fx(&r.predecessors);
        check_distmap(&b, &dist, &od, "c19/dijkstra", &ctx)?;
        for t in 0..n {
            let dt = guard("distance_to", || r.distance_to(b.ids[t]))?;
            if dt.is_some() != od[t].is_some() {
                return fail("c19/dijkstra/distance_to", format!("{ctx}: distance_to({t}) = {dt:?}, oracle {:?}", od[t]));
            }
            if !pred_walk_ok(&b, &pred, s, t) {
                return fail("c19/dijkstra/pred-cycle", format!("{ctx}: predecessor chain from {t} never reaches the source"));
            }
            let p = guard("path_to", || r.path_to(b.ids[s], b.ids[t]))?;
            match (p, od[t]) {
                (None, None) => {}
                (Some(p), Some(d)) => check_path(&b, wt, &p, s, t, d, "c19/dijkstra", &format!("{ctx} path_to({t})"))?,
                (p, d) => return fail("c19/dijkstra/path-existence", format!("{ctx}: path_to({t}) = {p:?}, oracle distance {d:?}")),
            }
        }

        // Bellman-Ford on the same input must agree
        let bf = guard("bellman_ford", || alg::bellman_ford(&b.store, b.ids[s], wp))?;
        check_distmap(&b, &fx(&bf.distances), &od, "c19/bellman_ford", &ctx)?;
        if bf.has_negative_cycle {
            return fail("c19/bellman_ford/false-negative-cycle", format!("{ctx}: flag set on non-negative weights"));
        }
        let bpred = fx(&bf.predecessors);
        for t in 0..n {
            if !pred_walk_ok(&b, &bpred, s, t) {
                return fail("c19/bellman_ford/pred-cycle", format!("{ctx}: predecessor chain from {t} never reaches the source"));
            }
            let p = guard("bf.path_to", || bf.path_to(b.ids[t]))?;
            match (p, od[t]) {
                (None, None) => {}
                (Some(p), Some(d)) => check_path(&b, wt, &p, s, t, d, "c19/bellman_ford", &format!("{ctx} path_to({t})"))?,
                (p, d) => return fail("c19/bellman_ford/path-existence", format!("{ctx}: path_to({t}) = {p:?}, oracle {d:?}")),
            }
        }
        all.push(od);
    }

    // single-pair variants, every (s, t) up to 12 nodes, selected pairs above
    let srcs = case.picks(n, 12, 5, 1);
    for &s in &srcs {
        let tgts = case.picks(n, 12, 6, 3);
        for &t in &tgts {
            let want = all[s][t];
            let ctx = format!("pair {s}->{t}");
            let r = guard("dijkstra_path", || alg::dijkstra_path(&b.store, b.ids[s], b.ids[t], wp))?;
            judge_pair(&b, wt, r, want, s, t, "c19/dijkstra_path", &ctx)?;

            // A*: zero heuristic, then the generated one
            let r = guard("astar0", || alg::astar(&b.store, b.ids[s], b.ids[t], wp, |_| 0.0))?;
            judge_pair(&b, wt, r, want, s, t, "c19/astar-zero", &ctx)?;
            if case.hmode != 0 {
                let (to_t, _) = model::sssp(&rev, t, wt);
                let hm: HashMap<NodeId, f64> = (0..n)
                    .map(|v| {
                        let h = match (case.hmode, to_t[v]) {
                            (1, Some(d)) => d,
                            (2, Some(d)) => d / 2.0,
                            (3, Some(d)) => {
                                if case.hmask >> (v % 64) & 1 == 1 {
                                    d
                                } else {
                                    0.0
                                }
                            }
                            (3, None) => 0.0,
                            (_, None) => 1.0e6,
                            _ => 0.0,
                        };
                        (b.ids[v], h)
                    })
                    .collect();
                let r = guard("astar-h", || alg::astar(&b.store, b.ids[s], b.ids[t], wp, |v| hm.get(&v).copied().unwrap_or(0.0)))?;
                let sig = if case.hmode == 3 { "c19/astar-admissible" } else { "c19/astar-consistent" };
                judge_pair(&b, wt, r, want, s, t, sig, &ctx)?;
            }
        }
    }

    // ids that are not nodes
    for g in &b.ghosts {
        let r = guard("dijkstra-ghost", || alg::dijkstra(&b.store, *g, wp))?;
        if !r.distances.is_empty() {
            return fail("c19/dijkstra/ghost-source", format!("distances from non-node {g:?}: {:?}", r.distances));
        }
        let r = guard("bf-ghost", || alg::bellman_ford(&b.store, *g, wp))?;
        if !r.distances.is_empty() {
            return fail("c19/bellman_ford/ghost-source", format!("distances from non-node {g:?}"));
        }
        if n > 0 {
            let a = guard("dp-ghost", || alg::dijkstra_path(&b.store, *g, b.ids[0], wp))?;
            let c = guard("dp-ghost", || alg::dijkstra_path(&b.store, b.ids[0], *g, wp))?;
            let d = guard("as-ghost", || alg::astar(&b.store, b.ids[0], *g, wp, |_| 0.0))?;
            if a.is_some() || c.is_some() || d.is_some() {
                return fail("c19/dijkstra_path/ghost", format!("path from/to non-node {g:?}"));
            }
        }
    }

    check_floyd(&b, wt, wp, &all, false)?;
    finish(case, &b.rg)
}

fn judge_pair(b: &Built, wt: model::Wt, r: Option<(f64, Vec<NodeId>)>, want: Option<f64>, s: usize, t: usize, sig: &str, ctx: &str) -> Result<(), Failure> {
    match (r, want) {
        (None, None) => Ok(()),
        (Some((d, p)), Some(w)) => {
            if !close(d, w) {
                let kind = if d > w { "not-minimal" } else { "too-small" };
                return fail(format!("{sig}/distance-{kind}"), format!("{ctx}: got {d}, minimum is {w}"));
            }
            check_path(b, wt, &p, s, t, d, sig, ctx)
        }
        (Some((d, _)), None) => fail(format!("{sig}/extra-reachable"), format!("{ctx}: distance {d} to an unreachable target")),
        (None, Some(w)) => fail(format!("{sig}/missing-reachable"), format!("{ctx}: None, but target is reachable at {w}")),
    }
}

fn check_floyd(b: &Built, wt: model::Wt, wp: Option<&str>, all: &[Vec<Option<f64>>], any_neg_cycle: bool) -> Result<(), Failure> {
    let n = b.rg.n;
    let fw = guard("floyd_warshall", || alg::floyd_warshall(&b.store, wp))?;
    let mut nodes: Vec<NodeId> = fw.nodes().to_vec();
    nodes.sort_unstable();
    if nodes != b.ids {
        return fail("c19/floyd/nodes", format!("nodes() = {nodes:?}, live nodes {:?}", b.ids));
    }
    let flag = guard("fw.has_negative_cycle", || fw.has_negative_cycle())?;
    if flag != any_neg_cycle {
        return fail(
            if flag { "c19/floyd/false-negative-cycle" } else { "c19/floyd/missed-negative-cycle" },
            format!("has_negative_cycle() = {flag}, oracle {any_neg_cycle}"),
        );
    }
    if any_neg_cycle {
        return Ok(()); // distances are not defined
    }
    for s in 0..n {
        for t in 0..n {
            let d = guard("fw.distance", || fw.distance(b.ids[s], b.ids[t]))?;
            let want = all[s][t];
            let ctx = format!("pair {s}->{t}");
            match (d, want) {
                (None, None) => {
                    if guard("fw.path", || fw.path(b.ids[s], b.ids[t]))?.is_some() {
                        return fail("c19/floyd/path-existence", format!("{ctx}: path to an unreachable node"));
                    }
                }
                (Some(d), Some(w)) => {
                    if !close(d, w) {
                        let kind = if d > w { "not-minimal" } else { "too-small" };
                        return fail(format!("c19/floyd/distance-{kind}"), format!("{ctx}: got {d}, minimum is {w}"));
                    }
                    match guard("fw.path", || fw.path(b.ids[s], b.ids[t]))? {
                        Some(p) => check_path(b, wt, &p, s, t, d, "c19/floyd", &ctx)?,
                        None => return fail("c19/floyd/path-existence", format!("{ctx}: distance {d} but no path")),
                    }
                }
                (d, w) => return fail("c19/floyd/reachability", format!("{ctx}: distance {d:?}, oracle {w:?}")),
            }
        }
    }
    if let Some(g) = b.ghosts.first() {
        if n > 0 && guard("fw.ghost", || fw.distance(*g, b.ids[0]))?.is_some() {
            return fail("c19/floyd/ghost", "distance from a non-node");
        }
    }
    Ok(())
}

// ------------------------------------------------------------------------------------------------
// negative weights: Bellman-Ford (flag + distances), Floyd-Warshall
// ------------------------------------------------------------------------------------------------

fn check_negative(case: &Case) -> CaseResult {
    let b = guard("build", || case.build())?;
    let use_prop = case.use_prop;
    let wtf = move |e: &RE| if use_prop { e.w } else { 1.0 };
    let wt: model::Wt = &wtf;
    let wp = case.wprop();
    let n = b.rg.n;
    let mut all = Vec::new();
    let mut any_neg = false;
    let mut some_neg_edge = false;
    for e in &b.rg.edges {
        if wt(e) < 0.0 {
            some_neg_edge = true;
        }
    }
    for s in 0..n {
        let (od, neg) = model::sssp(&b.rg, s, wt);
        any_neg |= neg;
        let ctx = format!("source {s}");
        let bf = guard("bellman_ford", || alg::bellman_ford(&b.store, b.ids[s], wp))?;
        if bf.has_negative_cycle != neg {
            return fail(
                if neg { "c19/bellman_ford/missed-negative-cycle" } else { "c19/bellman_ford/false-negative-cycle" },
                format!("{ctx}: has_negative_cycle = {}, oracle {neg}", bf.has_negative_cycle),
            );
        }
        if !neg {
            check_distmap(&b, &fx(&bf.distances), &od, "c19/bellman_ford", &ctx)?;
            let bpred = fx(&bf.predecessors);
            for t in 0..n {
                if !pred_walk_ok(&b, &bpred, s, t) {
                    return fail("c19/bellman_ford/pred-cycle", format!("{ctx}: predecessor chain from {t} never reaches the source"));
                }
                let p = guard("bf.path_to", || bf.path_to(b.ids[t]))?;
                match (p, od[t]) {
                    (None, None) => {}
                    (Some(p), Some(d)) => check_path(&b, wt, &p, s, t, d, "c19/bellman_ford", &format!("{ctx} path_to({t})"))?,
                    (p, d) => return fail("c19/bellman_ford/path-existence", format!("{ctx}: path_to({t}) = {p:?}, oracle {d:?}")),
                }
            }
        } else {
            // only the key set is defined: exactly the reachable nodes
            let r = model::reach(&b.rg, s);
            let keys: BTreeSet<usize> = positions(&b, &bf.distances.keys().copied().collect::<Vec<_>>(), &ctx, "c19/bellman_ford")?.into_iter().collect();
            let want: BTreeSet<usize> = (0..n).filter(|v| r[*v]).collect();
            if keys != want {
                return fail("c19/bellman_ford/reachable-set", format!("{ctx}: keys {keys:?}, reachable {want:?}"));
            }
        }
        all.push(od);
    }
    check_floyd(&b, wt, wp, &all, any_neg)?;
    let sh = Shape::of(case, &b.rg);
    let cls = format!("{}{}", sh.class(), if any_neg { "+negcyc" } else if some_neg_edge { "+neg" } else { "" });
    ok(sh.nontrivial() || some_neg_edge, cls, hash_of(case))
}

// ------------------------------------------------------------------------------------------------
// traversals
// ------------------------------------------------------------------------------------------------

fn out_edges(b: &Built, reach: &[bool]) -> BTreeSet<EdgeId> {
    b.rg.edges.iter().enumerate().filter(|(_, e)| reach[e.s]).map(|(i, _)| b.eids[i]).collect()
}

fn check_traversal(case: &Case) -> CaseResult {
    let b = guard("build", || case.build())?;
    let n = b.rg.n;
    for s in 0..n {
        let hops = model::hops(&b.rg, s);
        let reach: Vec<bool> = hops.iter().map(|h| h.is_some()).collect();
        let want: BTreeSet<usize> = (0..n).filter(|v| reach[*v]).collect();
        let ctx = format!("start {s}");

        // bfs
        let order = guard("bfs", || alg::bfs(&b.store, b.ids[s]))?;
        let p = positions(&b, &order, &ctx, "c19/bfs")?;
        let set: BTreeSet<usize> = p.iter().copied().collect();
        if set.len() != p.len() {
            return fail("c19/bfs/duplicate", format!("{ctx}: {p:?}"));
        }
        if set != want {
            return fail("c19/bfs/reachable-set", format!("{ctx}: visited {set:?}, reachable {want:?}"));
        }
        if p.first() != Some(&s) {
            return fail("c19/bfs/start", format!("{ctx}: {p:?}"));
        }
        for w in p.windows(2) {
            if hops[w[0]] > hops[w[1]] {
                return fail("c19/bfs/order", format!("{ctx}: {p:?} not in non-decreasing hop distance {hops:?}"));
            }
        }

        // bfs_layers
        let layers = guard("bfs_layers", || alg::bfs_layers(&b.store, b.ids[s]))?;
        let maxh = hops.iter().flatten().max().copied().unwrap_or(0);
        if layers.len() != maxh + 1 {
            return fail("c19/bfs_layers/count", format!("{ctx}: {} layers, eccentricity {maxh}", layers.len()));
        }
        for (i, l) in layers.iter().enumerate() {
            let mut lp = positions(&b, l, &ctx, "c19/bfs_layers")?;
            lp.sort_unstable();
            let wl: Vec<usize> = (0..n).filter(|v| hops[*v] == Some(i)).collect();
            if lp != wl {
                return fail("c19/bfs_layers/layer", format!("{ctx}: layer {i} = {lp:?}, nodes at distance {i}: {wl:?}"));
            }
        }

        // bfs_with_visitor: every out-edge of a reachable node exactly once, tree edges go one level down
        let mut ev: Vec<TraversalEvent> = Vec::new();
        guard("bfs_with_visitor", || {
            alg::bfs_with_visitor(&b.store, b.ids[s], |e| -> Control<()> {
                ev.push(e);
                Control::Continue
            })
        })?;
        let mut seen_edges: Vec<EdgeId> = Vec::new();
        let mut disc: Vec<NodeId> = Vec::new();
        for e in &ev {
            match *e {
                TraversalEvent::Discover(v) => disc.push(v),
                TraversalEvent::TreeEdge { source, target, edge } => {
                    seen_edges.push(edge);
                    let (Some(a), Some(c)) = (b.pos.get(&source), b.pos.get(&target)) else {
                        return fail("c19/bfs_visitor/unknown-node", format!("{ctx}: {e:?}"));
                    };
                    if hops[*c] != hops[*a].map(|h| h + 1) || disc.contains(&target) {
                        return fail("c19/bfs_visitor/tree-edge", format!("{ctx}: {e:?} is not a tree edge (hops {hops:?})"));
                    }
                }
                TraversalEvent::NonTreeEdge { target, edge, .. } => {
                    seen_edges.push(edge);
                    if !disc.contains(&target) {
                        return fail("c19/bfs_visitor/non-tree-edge", format!("{ctx}: {e:?} to an undiscovered node"));
                    }
                }
                TraversalEvent::BackEdge { .. } => return fail("c19/bfs_visitor/back-edge", format!("{ctx}: {e:?}")),
                TraversalEvent::Finish(_) => {}
            }
        }
        if disc != order {
            return fail("c19/bfs_visitor/discover-order", format!("{ctx}: {disc:?} vs bfs {order:?}"));
        }
        let se: BTreeSet<EdgeId> = seen_edges.iter().copied().collect();
        if se.len() != seen_edges.len() || se != out_edges(&b, &reach) {
            return fail("c19/bfs_visitor/edges", format!("{ctx}: edges reported {seen_edges:?}, expected each of {:?} once", out_edges(&b, &reach)));
        }
        // Break at a target: Some iff reachable
        for t in case.picks(n, 6, 3, 2) {
            let r = guard("bfs-break", || {
                alg::bfs_with_visitor(&b.store, b.ids[s], |e| if e == TraversalEvent::Discover(b.ids[t]) { Control::Break(7u8) } else { Control::Continue })
            })?;
            if r.is_some() != reach[t] || r.is_some_and(|x| x != 7) {
                return fail("c19/bfs_visitor/break", format!("{ctx}: break at {t} -> {r:?}, reachable {}", reach[t]));
            }
        }

        // dfs (post-order)
        let post = guard("dfs", || alg::dfs(&b.store, b.ids[s]))?;
        let p = positions(&b, &post, &ctx, "c19/dfs")?;
        let set: BTreeSet<usize> = p.iter().copied().collect();
        if set.len() != p.len() {
            return fail("c19/dfs/duplicate", format!("{ctx}: {p:?}"));
        }
        if set != want {
            return fail("c19/dfs/reachable-set", format!("{ctx}: visited {set:?}, reachable {want:?}"));
        }
        if p.last() != Some(&s) {
            return fail("c19/dfs/post-order", format!("{ctx}: start must finish last: {p:?}"));
        }

        // dfs_with_visitor: discover/finish nest, edge kinds match the colours
        let mut ev: Vec<TraversalEvent> = Vec::new();
        guard("dfs_with_visitor", || {
            alg::dfs_with_visitor(&b.store, b.ids[s], |e| -> Control<()> {
                ev.push(e);
                Control::Continue
            })
        })?;
        let mut stack: Vec<NodeId> = Vec::new();
        let mut colour: HashMap<NodeId, u8> = HashMap::new(); // 1 grey, 2 black
        let mut seen_edges: Vec<EdgeId> = Vec::new();
        let mut fin: Vec<NodeId> = Vec::new();
        let mut pending_tree: Option<NodeId> = None;
        for e in &ev {
            let bad = |why: &str| fail::<()>("c19/dfs_visitor/structure", format!("{ctx}: {e:?}: {why}; events {ev:?}"));
            if let Some(t) = pending_tree.take() {
                if *e != TraversalEvent::Discover(t) {
                    bad("tree edge not followed by the discovery of its target")?;
                }
            }
            match *e {
                TraversalEvent::Discover(v) => {
                    if colour.contains_key(&v) {
                        bad("discovered twice")?;
                    }
                    colour.insert(v, 1);
                    stack.push(v);
                }
                TraversalEvent::Finish(v) => {
                    if stack.pop() != Some(v) {
                        bad("finish does not match the innermost open node")?;
                    }
                    colour.insert(v, 2);
                    fin.push(v);
                }
                TraversalEvent::TreeEdge { source, target, edge } => {
                    seen_edges.push(edge);
                    if stack.last() != Some(&source) || colour.contains_key(&target) {
                        bad("tree edge from a node that is not innermost, or to a discovered node")?;
                    }
                    pending_tree = Some(target);
                }
                TraversalEvent::BackEdge { source, target, edge } => {
                    seen_edges.push(edge);
                    if stack.last() != Some(&source) || colour.get(&target) != Some(&1) {
                        bad("back edge whose target is not on the stack")?;
                    }
                }
                TraversalEvent::NonTreeEdge { source, target, edge } => {
                    seen_edges.push(edge);
                    if stack.last() != Some(&source) || colour.get(&target) != Some(&2) {
                        bad("non-tree edge whose target is not finished")?;
                    }
                }
            }
            // the edge must be a real edge source -> target
            if let TraversalEvent::TreeEdge { source, target, edge } | TraversalEvent::BackEdge { source, target, edge } | TraversalEvent::NonTreeEdge { source, target, edge } = *e {
                let real = b.eidx.get(&edge).map(|i| b.rg.edges[*i]);
                if real.is_none_or(|r| b.ids[r.s] != source || b.ids[r.d] != target) {
                    bad("edge id does not join source to target")?;
                }
            }
        }
        if !stack.is_empty() || fin != post {
            return fail("c19/dfs_visitor/structure", format!("{ctx}: unfinished nodes {stack:?} or finish order differs from dfs()"));
        }
        let se: BTreeSet<EdgeId> = seen_edges.iter().copied().collect();
        if se.len() != seen_edges.len() || se != out_edges(&b, &reach) {
            return fail("c19/dfs_visitor/edges", format!("{ctx}: edges reported {seen_edges:?}, expected each of {:?} once", out_edges(&b, &reach)));
        }
    }

    // dfs_all: every node exactly once
    let allp = guard("dfs_all", || alg::dfs_all(&b.store))?;
    let mut p = positions(&b, &allp, "dfs_all", "c19/dfs_all")?;
    p.sort_unstable();
    if p != (0..n).collect::<Vec<_>>() {
        return fail("c19/dfs_all/cover", format!("visited {p:?}, nodes 0..{n}"));
    }
    for g in &b.ghosts {
        let a = guard("bfs-ghost", || alg::bfs(&b.store, *g))?;
        let c = guard("dfs-ghost", || alg::dfs(&b.store, *g))?;
        let d = guard("layers-ghost", || alg::bfs_layers(&b.store, *g))?;
        if !a.is_empty() || !c.is_empty() || !d.is_empty() {
            return fail("c19/traversal/ghost-start", format!("traversal from non-node {g:?} visits {a:?} {c:?} {d:?}"));
        }
    }
    finish(case, &b.rg)
}

// ------------------------------------------------------------------------------------------------
// components, topological sort, degrees
// ------------------------------------------------------------------------------------------------

/// The labelling must have exactly the live nodes as keys and induce the same partition as `want`.
fn check_partition(b: &Built, got: &HashMap<NodeId, u64>, want: &[usize], sig: &str) -> Result<(), Failure> {
    let n = b.rg.n;
    if got.len() != n || b.ids.iter().any(|id| !got.contains_key(id)) {
        return fail(format!("{sig}/key-set"), format!("labels for {:?}, live nodes {:?}", got.keys().collect::<BTreeSet<_>>(), b.ids));
    }
    let mut l2w: BTreeMap<u64, usize> = BTreeMap::new();
    let mut w2l: BTreeMap<usize, u64> = BTreeMap::new();
    for v in 0..n {
        let l = got[&b.ids[v]];
        let w = want[v];
        let a = *l2w.entry(l).or_insert(w);
        let c = *w2l.entry(w).or_insert(l);
        if a != w {
            return fail(format!("{sig}/merged"), format!("nodes {v} and others of class {a} share label {l} but are not in one component (oracle classes {want:?})"));
        }
        if c != l {
            return fail(format!("{sig}/split"), format!("node {v} has label {l} but its component {w} also carries label {c} (oracle classes {want:?})"));
        }
    }
    Ok(())
}

fn check_components(case: &Case) -> CaseResult {
    let b = guard("build", || case.build())?;
    let n = b.rg.n;
    let weak = model::weak_classes(&b.rg);
    let strong = model::strong_classes(&b.rg);
    let distinct = |v: &[usize]| v.iter().copied().collect::<BTreeSet<_>>().len();

    let cc = guard("connected_components", || alg::connected_components(&b.store))?;
    check_partition(&b, &fx(&cc), &weak, "c19/weak")?;
    let c = guard("connected_component_count", || alg::connected_component_count(&b.store))?;
    if c != distinct(&weak) {
        return fail("c19/weak/count", format!("count {c}, oracle {}", distinct(&weak)));
    }
    let sc = guard("strongly_connected_components", || alg::strongly_connected_components(&b.store))?;
    check_partition(&b, &fx(&sc), &strong, "c19/strong")?;
    let c = guard("strongly_connected_component_count", || alg::strongly_connected_component_count(&b.store))?;
    if c != distinct(&strong) {
        return fail("c19/strong/count", format!("count {c}, oracle {}", distinct(&strong)));
    }

    let acyclic = model::acyclic(&b.rg);
    let ts = guard("topological_sort", || alg::topological_sort(&b.store))?;
    let dag = guard("is_dag", || alg::is_dag(&b.store))?;
    if dag != acyclic {
        return fail("c19/topo/is_dag", format!("is_dag = {dag}, oracle acyclic = {acyclic}"));
    }
    match ts {
        None => {
            if acyclic {
                return fail("c19/topo/none-on-dag", "topological_sort = None on an acyclic graph");
            }
        }
        Some(order) => {
            if !acyclic {
                return fail("c19/topo/some-on-cycle", format!("topological_sort = {order:?} on a graph with a cycle"));
            }
            let p = positions(&b, &order, "topological_sort", "c19/topo")?;
            let mut sorted = p.clone();
            sorted.sort_unstable();
            if sorted != (0..n).collect::<Vec<_>>() {
                return fail("c19/topo/not-a-permutation", format!("{p:?}"));
            }
            let mut at = vec![0usize; n];
            for (i, v) in p.iter().enumerate() {
                at[*v] = i;
            }
            for e in &b.rg.edges {
                if at[e.s] >= at[e.d] {
                    return fail("c19/topo/edge-violated", format!("order {p:?} puts {} after {} despite edge {}->{}", e.s, e.d, e.s, e.d));
                }
            }
        }
    }

    // degrees (multigraph counts; a self-loop is one out and one in)
    let dc = guard("degree_centrality", || alg::degree_centrality(&b.store))?;
    let norm = guard("degree_centrality_normalized", || alg::degree_centrality_normalized(&b.store))?;
    if dc.in_degree.len() != n || dc.out_degree.len() != n || dc.total_degree.len() != n || norm.len() != n {
        return fail("c19/degree/key-set", "degree maps do not have one entry per node");
    }
    for v in 0..n {
        let o = b.rg.edges.iter().filter(|e| e.s == v).count();
        let i = b.rg.edges.iter().filter(|e| e.d == v).count();
        let id = b.ids[v];
        let got = (dc.out_degree.get(&id).copied(), dc.in_degree.get(&id).copied(), dc.total_degree.get(&id).copied());
        if got != (Some(o), Some(i), Some(o + i)) {
            return fail("c19/degree/count", format!("node {v}: (out,in,total) = {got:?}, oracle ({o},{i},{})", o + i));
        }
        let wn = if n <= 1 { 0.0 } else { (o + i) as f64 / (n - 1) as f64 };
        if !norm.get(&id).is_some_and(|x| close(*x, wn)) {
            return fail("c19/degree/normalized", format!("node {v}: {:?}, oracle {wn}", norm.get(&id)));
        }
    }
    let sh = Shape::of(case, &b.rg);
    let cls = format!("{}{}", sh.class(), if acyclic { "+dag" } else { "" });
    ok(sh.nontrivial(), cls, hash_of(case))
}

// ------------------------------------------------------------------------------------------------
// minimum spanning forest / tree
// ------------------------------------------------------------------------------------------------

/// Validity of a claimed forest: real edges with their real weight, no edge twice, acyclic as an
/// undirected graph, total = sum. Returns the component labels the forest induces.
fn check_forest(b: &Built, wt: model::Wt, r: &alg::MstResult, sig: &str, ctx: &str) -> Result<Vec<usize>, Failure> {
    let n = b.rg.n;
    let mut lab: Vec<usize> = (0..n).collect();
    let mut used: BTreeSet<EdgeId> = BTreeSet::new();
    let mut sum = 0.0;
    for (src, dst, eid, w) in &r.edges {
        let Some(i) = b.eidx.get(eid) else {
            return fail(format!("{sig}/not-an-edge"), format!("{ctx}: {eid:?} is not a live edge"));
        };
        let e = b.rg.edges[*i];
        let fwd = b.ids[e.s] == *src && b.ids[e.d] == *dst;
        let bwd = b.ids[e.s] == *dst && b.ids[e.d] == *src;
        if !fwd && !bwd {
            return fail(format!("{sig}/endpoints"), format!("{ctx}: edge {eid:?} joins {}-{}, reported {src:?}-{dst:?}", e.s, e.d));
        }
        if !close(*w, wt(&e)) {
            return fail(format!("{sig}/edge-weight"), format!("{ctx}: edge {}->{} reported weight {w}, real {}", e.s, e.d, wt(&e)));
        }
        if !used.insert(*eid) {
            return fail(format!("{sig}/edge-twice"), format!("{ctx}: {eid:?} twice"));
        }
        if lab[e.s] == lab[e.d] {
            return fail(format!("{sig}/cycle"), format!("{ctx}: edge {}-{} closes a cycle", e.s, e.d));
        }
        let (a, c) = (lab[e.s], lab[e.d]);
        let m = a.min(c);
        for l in &mut lab {
            if *l == a || *l == c {
                *l = m;
            }
        }
        sum += *w;
    }
    if !close(sum, r.total_weight) {
        return fail(format!("{sig}/total"), format!("{ctx}: total_weight {} but edges sum to {sum}", r.total_weight));
    }
    if guard("edge_count", || r.edge_count())? != r.edges.len() {
        return fail(format!("{sig}/edge_count"), ctx.to_string());
    }
    Ok(lab)
}

fn check_mst(case: &Case) -> CaseResult {
    let b = guard("build", || case.build())?;
    let use_prop = case.use_prop;
    let wtf = move |e: &RE| if use_prop { e.w } else { 1.0 };
    let wt: model::Wt = &wtf;
    let wp = case.wprop();
    let n = b.rg.n;
    let weak = model::weak_classes(&b.rg);
    let everything = vec![true; n];
    let (best, trees) = model::msf_weight(&b.rg, &everything, wt);
    if let Some(e) = model::msf_weight_enum(&b.rg, wt) {
        if !close(e, best) {
            return fail("c19/harness/mst-oracles-disagree", format!("cut rule {best}, enumeration {e}"));
        }
    }

    let k = guard("kruskal", || alg::kruskal(&b.store, wp))?;
    let lab = check_forest(&b, wt, &k, "c19/kruskal", "kruskal")?;
    if lab != weak {
        return fail("c19/kruskal/not-spanning", format!("forest components {lab:?}, graph components {weak:?}"));
    }
    if !close(k.total_weight, best) {
        // classify: is the excess explained by keeping a dearer copy of a parallel / anti-parallel pair?
        let dearer = k.edges.iter().any(|(_, _, eid, w)| {
            let e = b.rg.edges[b.eidx[eid]];
            b.rg.edges.iter().any(|o| ((o.s == e.s && o.d == e.d) || (o.s == e.d && o.d == e.s)) && wt(o) < *w)
        });
        let sig = if k.total_weight > best && dearer { "c19/kruskal/not-minimal/dearer-parallel-copy" } else { "c19/kruskal/not-minimal" };
        return fail(sig, format!("total {}, minimum {best}; edges {:?}", k.total_weight, k.edges));
    }
    if guard("is_spanning_tree", || k.is_spanning_tree(n))? != (n == 0 || trees == 1) {
        return fail("c19/kruskal/is_spanning_tree", format!("n={n} trees={trees} edges={}", k.edges.len()));
    }

    // Prim: a minimum spanning tree of the start's component
    let mut starts: Vec<Option<usize>> = vec![None];
    starts.extend(case.picks(n, 10, 4, 1).into_iter().map(Some));
    for st in starts {
        let s = st.unwrap_or(0);
        if n == 0 {
            let p = guard("prim", || alg::prim(&b.store, wp, None))?;
            if !p.edges.is_empty() || p.total_weight != 0.0 {
                return fail("c19/prim/empty-graph", format!("{p:?}"));
            }
            continue;
        }
        let ctx = format!("prim start {st:?}");
        let p = guard("prim", || alg::prim(&b.store, wp, st.map(|v| b.ids[v])))?;
        let lab = check_forest(&b, wt, &p, "c19/prim", &ctx)?;
        let inside: Vec<bool> = (0..n).map(|v| weak[v] == weak[s]).collect();
        // spans exactly the start's component
        for v in 0..n {
            let joined = lab[v] == lab[s];
            if joined && !inside[v] {
                return fail("c19/prim/leaves-component", format!("{ctx}: reaches {v} outside the start's component"));
            }
            if !joined && inside[v] {
                return fail("c19/prim/not-spanning", format!("{ctx}: node {v} of the start's component {:?} is not in the tree; edges {:?}", (0..n).filter(|x| inside[*x]).collect::<Vec<_>>(), p.edges));
            }
            if !inside[v] && lab[v] != v {
                return fail("c19/prim/leaves-component", format!("{ctx}: edges outside the start's component"));
            }
        }
        let (cbest, _) = model::msf_weight(&b.rg, &inside, wt);
        if !close(p.total_weight, cbest) {
            return fail("c19/prim/not-minimal", format!("{ctx}: total {}, minimum for the component {cbest}", p.total_weight));
        }
        if trees == 1 && !close(p.total_weight, k.total_weight) {
            return fail("c19/mst/kruskal-ne-prim", format!("{ctx}: kruskal {}, prim {}", k.total_weight, p.total_weight));
        }
    }
    for g in &b.ghosts {
        let p = guard("prim-ghost", || alg::prim(&b.store, wp, Some(*g)))?;
        if !p.edges.is_empty() {
            return fail("c19/prim/ghost-start", format!("tree from non-node {g:?}"));
        }
    }
    finish(case, &b.rg)
}

// ------------------------------------------------------------------------------------------------
// flows
// ------------------------------------------------------------------------------------------------

/// Flow validity on node pairs (the library reports net flow per ordered pair).
fn check_flow_valid(b: &Built, cap: model::Wt, edges: &[(NodeId, NodeId, f64)], s: usize, t: usize, value: f64, sig: &str, ctx: &str) -> Result<(), Failure> {
    let n = b.rg.n;
    let mut net = vec![0.0f64; n];
    let mut seen: BTreeSet<(usize, usize)> = BTreeSet::new();
    for (u, v, f) in edges {
        let p = positions(b, &[*u, *v], ctx, sig)?;
        let (u, v) = (p[0], p[1]);
        if !seen.insert((u, v)) {
            return fail(format!("{sig}/pair-twice"), format!("{ctx}: {u}->{v} twice"));
        }
        let c: f64 = b.rg.edges.iter().filter(|e| e.s == u && e.d == v).map(|e| cap(e)).sum();
        if *f < -EPS || *f > c + EPS {
            return fail(format!("{sig}/capacity"), format!("{ctx}: flow {f} on {u}->{v} with capacity {c}"));
        }
        net[u] -= f;
        net[v] += f;
    }
    for v in 0..n {
        let want = if v == s { -value } else if v == t { value } else { 0.0 };
        if (net[v] - want).abs() > 1e-6 {
            return fail(format!("{sig}/conservation"), format!("{ctx}: net inflow at {v} is {}, expected {want}; flow {edges:?}", net[v]));
        }
    }
    Ok(())
}

fn check_flow(case: &Case) -> CaseResult {
    let b = guard("build", || case.build())?;
    let use_prop = case.use_prop;
    let capf = move |e: &RE| if use_prop { e.w } else { 1.0 };
    let cap: model::Wt = &capf;
    let wp = case.wprop();
    let n = b.rg.n;
    let srcs = case.picks(n, 7, 4, 1);
    let mut saturating = false;
    for &s in &srcs {
        for &t in &case.picks(n, 7, 4, 5) {
            let ctx = format!("flow {s}->{t}");
            let r = guard("max_flow", || alg::max_flow(&b.store, b.ids[s], b.ids[t], wp))?;
            let Some(r) = r else {
                return fail("c19/max_flow/none", format!("{ctx}: None for live nodes"));
            };
            if s == t {
                if r.max_flow != 0.0 || !r.flow_edges.is_empty() {
                    return fail("c19/max_flow/source-is-sink", format!("{ctx}: {r:?}"));
                }
                continue;
            }
            let want = if n <= 12 { model::min_cut_enum(&b.rg, s, t, cap) } else { model::max_flow_ff(&b.rg, s, t, cap) };
            if !close(r.max_flow, want) {
                let kind = if r.max_flow < want { "below-min-cut" } else { "above-min-cut" };
                return fail(format!("c19/max_flow/{kind}"), format!("{ctx}: max_flow {}, min cut {want}", r.max_flow));
            }
            check_flow_valid(&b, cap, &r.flow_edges, s, t, r.max_flow, "c19/max_flow", &ctx)?;
            if want > 0.0 {
                saturating = true;
            }
        }
    }
    for g in &b.ghosts {
        if n > 0 {
            let a = guard("max_flow-ghost", || alg::max_flow(&b.store, *g, b.ids[0], wp))?;
            let c = guard("max_flow-ghost", || alg::max_flow(&b.store, b.ids[0], *g, wp))?;
            if a.is_some() || c.is_some() {
                return fail("c19/max_flow/ghost", format!("flow from/to non-node {g:?}"));
            }
        }
    }
    let sh = Shape::of(case, &b.rg);
    ok(sh.nontrivial() && saturating, sh.class(), hash_of(case))
}

fn check_mincost(case: &Case) -> CaseResult {
    let b = guard("build", || case.build())?;
    // capacities from "w" (default 1), costs from "c" (default 0); both always by property here
    let capf = |e: &RE| e.w;
    let cap: model::Wt = &capf;
    let n = b.rg.n;
    let mut saturating = false;
    for &s in &case.picks(n, 6, 3, 1) {
        for &t in &case.picks(n, 6, 3, 5) {
            let ctx = format!("min-cost flow {s}->{t}");
            let r = guard("min_cost_max_flow", || alg::min_cost_max_flow(&b.store, b.ids[s], b.ids[t], Some("w"), Some("c")))?;
            let Some(r) = r else {
                return fail("c19/mincost/none", format!("{ctx}: None for live nodes"));
            };
            if s == t {
                if r.max_flow != 0.0 || r.total_cost != 0.0 || !r.flow_edges.is_empty() {
                    return fail("c19/mincost/source-is-sink", format!("{ctx}: {r:?}"));
                }
                continue;
            }
            let want = if n <= 12 { model::min_cut_enum(&b.rg, s, t, cap) } else { model::max_flow_ff(&b.rg, s, t, cap) };
            if !close(r.max_flow, want) {
                let kind = if r.max_flow < want { "below-min-cut" } else { "above-min-cut" };
                return fail(format!("c19/mincost/{kind}"), format!("{ctx}: max_flow {}, min cut {want}", r.max_flow));
            }
            let fe: Vec<(NodeId, NodeId, f64)> = r.flow_edges.iter().map(|(u, v, f, _)| (*u, *v, *f)).collect();
            check_flow_valid(&b, cap, &fe, s, t, r.max_flow, "c19/mincost", &ctx)?;
            if want > 0.0 {
                saturating = true;
            }
            // cost: no flow of that value is cheaper, and the claimed cost is achievable by the
            // reported pair flows (cheapest copies first)
            let Some(cbest) = model::min_cost_of_flow(&b.rg, s, t, want) else {
                return fail("c19/harness/mincost-oracle", format!("{ctx}: oracle could not route {want}"));
            };
            let mut realised = 0.0;
            for (u, v, f, _) in &r.flow_edges {
                let (u, v) = (b.pos[u], b.pos[v]);
                let mut copies: Vec<(f64, f64)> = b.rg.edges.iter().filter(|e| e.s == u && e.d == v).map(|e| (e.c, e.w)).collect();
                copies.sort_by(|a, c| a.0.partial_cmp(&c.0).unwrap());
                let mut left = *f;
                for (c, w) in copies {
                    let x = left.min(w);
                    realised += x * c;
                    left -= x;
                }
            }
            if !close(r.total_cost, cbest) || !close(realised, cbest) {
                // classify the one representational defect: one cost per ordered node pair, and the
                // reverse residual arc sharing its slot with a real anti-parallel edge
                let conflated = b.rg.edges.iter().enumerate().any(|(i, e)| {
                    e.s != e.d && b.rg.edges.iter().enumerate().any(|(j, o)| i != j && ((o.s == e.s && o.d == e.d && o.c != e.c) || (o.s == e.d && o.d == e.s)))
                });
                let sig = if conflated { "c19/mincost/cost-not-minimal/pair-matrix" } else { "c19/mincost/cost-not-minimal" };
                return fail(sig, format!("{ctx}: total_cost {} (cheapest realisation of the reported flow {realised}), minimum {cbest}; flow {:?}", r.total_cost, r.flow_edges));
            }
        }
    }
    let sh = Shape::of(case, &b.rg);
    let cls = format!("{}{}", sh.class(), if case.pair_clean { "+clean" } else { "" });
    ok(sh.nontrivial() && saturating, cls, hash_of(case))
}

// ------------------------------------------------------------------------------------------------
// triangles, clustering, k-core, bridges, articulation points
// ------------------------------------------------------------------------------------------------

fn check_structure(case: &Case) -> CaseResult {
    let b = guard("build", || case.build())?;
    let n = b.rg.n;
    let adj = model::simple_adj(&b.rg);
    let tri = model::triangles(&adj);
    let deg: Vec<usize> = (0..n).map(|v| (0..n).filter(|u| adj[v][*u]).count()).collect();
    let coef: Vec<f64> = (0..n).map(|v| if deg[v] < 2 { 0.0 } else { tri[v] as f64 / ((deg[v] * (deg[v] - 1)) / 2) as f64 }).collect();
    let total: u64 = tri.iter().sum::<u64>() / 3;
    let global = if n == 0 { 0.0 } else { coef.iter().sum::<f64>() / n as f64 };

    let tc = guard("triangle_count", || alg::triangle_count(&b.store))?;
    let lc = guard("local_clustering_coefficient", || alg::local_clustering_coefficient(&b.store))?;
    let cc = guard("clustering_coefficient", || alg::clustering_coefficient(&b.store))?;
    let cp = guard("clustering_coefficient_parallel", || alg::clustering_coefficient_parallel(&b.store, 0))?;
    if tc.len() != n || lc.len() != n || cc.coefficients.len() != n || cc.triangle_counts.len() != n || cp.coefficients.len() != n || cp.triangle_counts.len() != n {
        return fail("c19/triangles/key-set", "result maps do not have one entry per node");
    }
    for v in 0..n {
        let id = b.ids[v];
        for (name, got) in [("triangle_count", tc.get(&id)), ("clustering_coefficient", cc.triangle_counts.get(&id)), ("parallel", cp.triangle_counts.get(&id))] {
            if got != Some(&tri[v]) {
                let selfloop = b.rg.edges.iter().any(|e| e.s == e.d);
                let sig = if selfloop { "c19/triangles/count/with-self-loop" } else { "c19/triangles/count" };
                return fail(sig, format!("{name}: node {v}: {got:?}, by enumeration {}", tri[v]));
            }
        }
        for (name, got) in [("local", lc.get(&id)), ("clustering_coefficient", cc.coefficients.get(&id)), ("parallel", cp.coefficients.get(&id))] {
            if !got.is_some_and(|x| close(*x, coef[v])) {
                return fail("c19/clustering/local", format!("{name}: node {v}: {got:?}, by definition {}", coef[v]));
            }
        }
    }
    let tt = guard("total_triangles", || alg::total_triangles(&b.store))?;
    if tt != total || cc.total_triangles != total || cp.total_triangles != total {
        return fail("c19/triangles/total", format!("total_triangles {tt} / {} / {}, by enumeration {total}", cc.total_triangles, cp.total_triangles));
    }
    let g = guard("global_clustering_coefficient", || alg::global_clustering_coefficient(&b.store))?;
    if !close(g, global) || !close(cc.global_coefficient, global) || !close(cp.global_coefficient, global) {
        return fail("c19/clustering/global", format!("{g} / {} / {}, by definition {global}", cc.global_coefficient, cp.global_coefficient));
    }

    // k-core (degree = distinct neighbours; the code counts a self-loop as one neighbour: adopted)
    let selfdeg: Vec<usize> = (0..n).map(|v| usize::from(b.rg.edges.iter().any(|e| e.s == v && e.d == v))).collect();
    let core = model::core_numbers(&adj, &selfdeg);
    let kc = guard("kcore_decomposition", || alg::kcore_decomposition(&b.store))?;
    if kc.core_numbers.len() != n {
        return fail("c19/kcore/key-set", "core_numbers does not have one entry per node");
    }
    for v in 0..n {
        if kc.core_numbers.get(&b.ids[v]) != Some(&core[v]) {
            return fail("c19/kcore/core-number", format!("node {v}: {:?}, by pruning {}; all: oracle {core:?}", kc.core_numbers.get(&b.ids[v]), core[v]));
        }
    }
    let maxc = core.iter().max().copied().unwrap_or(0);
    if kc.max_core != maxc {
        return fail("c19/kcore/max_core", format!("{} vs {maxc}", kc.max_core));
    }
    for k in 0..=maxc + 1 {
        let mut got = positions(&b, &guard("k_core", || alg::k_core(&b.store, k))?, "k_core", "c19/kcore")?;
        got.sort_unstable();
        let want: Vec<usize> = (0..n).filter(|v| core[*v] >= k).collect();
        let mut shell = positions(&b, &guard("k_shell", || kc.k_shell(k))?, "k_shell", "c19/kcore")?;
        shell.sort_unstable();
        let wshell: Vec<usize> = (0..n).filter(|v| core[*v] == k).collect();
        if got != want || shell != wshell {
            return fail("c19/kcore/k_core", format!("k={k}: core {got:?} vs {want:?}, shell {shell:?} vs {wshell:?}"));
        }
    }

    // bridges / articulation points on the undirected simple graph
    let alive = vec![true; n];
    let base = model::count_components(&adj, &alive, None);
    let mut wb: BTreeSet<(usize, usize)> = BTreeSet::new();
    for u in 0..n {
        for v in u + 1..n {
            if adj[u][v] && model::count_components(&adj, &alive, Some((u, v))) > base {
                wb.insert((u, v));
            }
        }
    }
    let br = guard("bridges", || alg::bridges(&b.store))?;
    let mut gb: BTreeSet<(usize, usize)> = BTreeSet::new();
    for (u, v) in &br {
        let p = positions(&b, &[*u, *v], "bridges", "c19/bridges")?;
        if !gb.insert((p[0].min(p[1]), p[0].max(p[1]))) {
            return fail("c19/bridges/duplicate", format!("{br:?}"));
        }
    }
    if gb != wb {
        let sig = if gb.is_subset(&wb) { "c19/bridges/missing" } else { "c19/bridges/extra" };
        return fail(sig, format!("bridges {gb:?}, by removal {wb:?}"));
    }
    let mut wa: BTreeSet<usize> = BTreeSet::new();
    for v in 0..n {
        let mut al = alive.clone();
        al[v] = false;
        // removing v removes its own component if it was isolated
        let isolated = !(0..n).any(|u| adj[v][u]);
        let after = model::count_components(&adj, &al, None);
        if after > base - usize::from(isolated) {
            wa.insert(v);
        }
    }
    let ap = guard("articulation_points", || alg::articulation_points(&b.store))?;
    let ga: BTreeSet<usize> = positions(&b, &ap.iter().copied().collect::<Vec<_>>(), "articulation_points", "c19/articulation")?.into_iter().collect();
    if ga != wa {
        let sig = if ga.is_subset(&wa) { "c19/articulation/missing" } else { "c19/articulation/extra" };
        return fail(sig, format!("articulation points {ga:?}, by removal {wa:?}"));
    }
    let sh = Shape::of(case, &b.rg);
    let cls = format!("{}{}{}", sh.class(), if total > 0 { "+tri" } else { "" }, if !wb.is_empty() { "+bridge" } else { "" });
    ok(sh.nontrivial(), cls, hash_of(case))
}

// ------------------------------------------------------------------------------------------------
// PageRank, closeness, betweenness
// ------------------------------------------------------------------------------------------------

fn check_centrality(case: &Case) -> CaseResult {
    let b = guard("build", || case.build())?;
    let n = b.rg.n;
    let dangling = (0..n).any(|v| !b.rg.edges.iter().any(|e| e.s == v));
    for (damping, iters, tol) in [(0.85, 100usize, 1e-6), (0.5, 1000, 1e-12), (0.99, 3, 1e-6), (0.0, 10, 1e-6)] {
        let pr = guard("pagerank", || alg::pagerank(&b.store, damping, iters, tol))?;
        if pr.len() != n || b.ids.iter().any(|id| !pr.contains_key(id)) {
            return fail("c19/pagerank/key-set", format!("{} scores for {n} nodes", pr.len()));
        }
        if n == 0 {
            continue;
        }
        let ctx = format!("damping {damping}, {iters} iterations, tolerance {tol}");
        let sum: f64 = b.ids.iter().map(|id| pr[id]).sum();
        if let Some((id, x)) = pr.iter().find(|(_, x)| !(**x >= 0.0) || !x.is_finite()) {
            return fail("c19/pagerank/negative", format!("{ctx}: score {x} for {id:?}"));
        }
        if (sum - 1.0).abs() > 1e-6 {
            let sig = if dangling { "c19/pagerank/sum/with-dangling" } else { "c19/pagerank/sum" };
            return fail(sig, format!("{ctx}: scores sum to {sum}"));
        }
        if iters >= 1000 {
            let want = model::pagerank(&b.rg, damping, 5000);
            for v in 0..n {
                if (pr[&b.ids[v]] - want[v]).abs() > 1e-8 {
                    return fail("c19/pagerank/fixed-point", format!("{ctx}: node {v}: {} vs stationary {}", pr[&b.ids[v]], want[v]));
                }
            }
        }
    }

    // closeness as documented: reachable / total hop distance (x reachable/(n-1) for Wasserman-Faust)
    for wf in [false, true] {
        let cl = guard("closeness_centrality", || alg::closeness_centrality(&b.store, wf))?;
        if cl.len() != n {
            return fail("c19/closeness/key-set", format!("{} scores for {n} nodes", cl.len()));
        }
        for s in 0..n {
            let h = model::hops(&b.rg, s);
            let reachable = h.iter().flatten().count() - 1;
            let total: usize = h.iter().flatten().sum();
            let want = if n <= 1 || reachable == 0 || total == 0 {
                0.0
            } else if wf {
                (reachable as f64 / (n - 1) as f64) * (reachable as f64 / total as f64)
            } else {
                reachable as f64 / total as f64
            };
            if !cl.get(&b.ids[s]).is_some_and(|x| close(*x, want)) {
                return fail("c19/closeness/value", format!("wf={wf}: node {s}: {:?}, by definition {want}", cl.get(&b.ids[s])));
            }
        }
    }

    // betweenness: sum over ordered pairs of the share of shortest paths through v; paths counted
    // as edge sequences (parallel edges distinct) or node sequences — either reading accepted
    let bm = model::betweenness(&b.rg, true);
    let bs = model::betweenness(&b.rg, false);
    for normalized in [false, true] {
        let bc = guard("betweenness_centrality", || alg::betweenness_centrality(&b.store, normalized))?;
        if bc.len() != n {
            return fail("c19/betweenness/key-set", format!("{} scores for {n} nodes", bc.len()));
        }
        let f = if normalized && n > 2 { 2.0 / ((n - 1) * (n - 2)) as f64 } else { 1.0 };
        let got: Vec<f64> = (0..n).map(|v| bc[&b.ids[v]]).collect();
        let m_ok = (0..n).all(|v| (got[v] - bm[v] * f).abs() <= 1e-7 * (1.0 + got[v].abs()));
        let s_ok = (0..n).all(|v| (got[v] - bs[v] * f).abs() <= 1e-7 * (1.0 + got[v].abs()));
        if !m_ok && !s_ok {
            return fail(
                "c19/betweenness/value",
                format!("normalized={normalized}: {got:?}; by pair enumeration x{f}: multigraph {bm:?}, simple {bs:?}"),
            );
        }
    }
    let sh = Shape::of(case, &b.rg);
    let cls = format!("{}{}", sh.class(), if dangling { "+dangling" } else { "" });
    ok(sh.nontrivial(), cls, hash_of(case))
}

// ------------------------------------------------------------------------------------------------
// community detection: only what holds for every run of the heuristics
// ------------------------------------------------------------------------------------------------

fn check_community(case: &Case) -> CaseResult {
    let b = guard("build", || case.build())?;
    let n = b.rg.n;
    let weak = model::weak_classes(&b.rg);
    let within = |lab: &HashMap<NodeId, u64>, sig: &str| -> Result<usize, Failure> {
        if lab.len() != n || b.ids.iter().any(|id| !lab.contains_key(id)) {
            return fail(format!("{sig}/key-set"), format!("{} labels for {n} nodes", lab.len()));
        }
        let mut rep: BTreeMap<u64, usize> = BTreeMap::new();
        for v in 0..n {
            let c = *rep.entry(lab[&b.ids[v]]).or_insert(weak[v]);
            if c != weak[v] {
                return fail(format!("{sig}/spans-components"), format!("community {} contains nodes of components {c} and {}", lab[&b.ids[v]], weak[v]));
            }
        }
        Ok(rep.len())
    };
    for it in [0usize, 1, 5] {
        let lp = guard("label_propagation", || alg::label_propagation(&b.store, it))?;
        let k = within(&fx(&lp), "c19/label_propagation")?;
        // documented: labels normalised to 0..k
        let labs: BTreeSet<u64> = lp.values().copied().collect();
        if labs != (0..k as u64).collect() {
            return fail("c19/label_propagation/not-contiguous", format!("labels {labs:?}"));
        }
        let cnt = guard("community_count", || alg::community_count(&lp))?;
        if cnt != k {
            return fail("c19/label_propagation/community_count", format!("{cnt} vs {k}"));
        }
    }
    for res in [1.0, 0.5] {
        let lv = guard("louvain", || alg::louvain(&b.store, res))?;
        let k = within(&fx(&lv.communities), "c19/louvain")?;
        if lv.num_communities != k {
            return fail("c19/louvain/num_communities", format!("{} vs {k} distinct labels", lv.num_communities));
        }
        if !lv.modularity.is_finite() || lv.modularity > 1.0 + EPS {
            return fail("c19/louvain/modularity-range", format!("modularity {}", lv.modularity));
        }
    }
    finish(case, &b.rg)
}

// ------------------------------------------------------------------------------------------------
// ShortestPathOperator (query engine): hop distance and number of shortest paths per (source, target)
// ------------------------------------------------------------------------------------------------

struct PairInput {
    pairs: Vec<(NodeId, NodeId)>,
    done: bool,
}

impl Operator for PairInput {
    fn next(&mut self) -> OperatorResult {
        if self.done || self.pairs.is_empty() {
            return Ok(None);
        }
        self.done = true;
        let schema = vec![LogicalType::Node, LogicalType::Node];
        let mut bld = DataChunkBuilder::with_capacity(&schema, self.pairs.len());
        for (s, t) in &self.pairs {
            bld.column_mut(0).unwrap().push_node_id(*s);
            bld.column_mut(1).unwrap().push_node_id(*t);
            bld.advance_row();
        }
        Ok(Some(bld.finish()))
    }
    fn reset(&mut self) {
        self.done = false;
    }
    fn name(&self) -> &'static str {
        "PairInput"
    }
}

fn check_sp_operator(case: &Case) -> CaseResult {
    let b = guard("build", || case.build())?;
    let n = b.rg.n;
    let srcs = case.picks(n, 8, 4, 1);
    let tgts = case.picks(n, 8, 4, 5);
    let pairs: Vec<(usize, usize)> = srcs.iter().flat_map(|s| tgts.iter().map(move |t| (*s, *t))).collect();
    let mut multi = false;
    for (dir, dname) in [(Direction::Outgoing, "outgoing"), (Direction::Incoming, "incoming"), (Direction::Both, "both")] {
        let arcs: Vec<RE> = b
            .rg
            .edges
            .iter()
            .flat_map(|e| {
                let f = *e;
                let r = RE { s: e.d, d: e.s, ..*e };
                match dir {
                    Direction::Outgoing => vec![f],
                    Direction::Incoming => vec![r],
                    Direction::Both => vec![f, r],
                }
            })
            .collect();
        let g = RG { n, edges: arcs };
        let per_src: HashMap<usize, (Vec<Option<usize>>, Vec<u64>)> = srcs.iter().map(|s| (*s, model::path_counts(&g, *s))).collect();
        for all in [false, true] {
            // expected multiset of (s, t, len) rows
            let mut want: Vec<(usize, usize, Option<i64>)> = Vec::new();
            let mut too_many = false;
            for (s, t) in &pairs {
                let (h, sig) = &per_src[s];
                match h[*t] {
                    None => want.push((*s, *t, None)),
                    Some(d) => {
                        let k = if all && s != t { sig[*t] } else { 1 };
                        if k > 1 {
                            multi = true;
                        }
                        if k > 2_000 {
                            too_many = true;
                            break;
                        }
                        for _ in 0..k {
                            want.push((*s, *t, Some(d as i64)));
                        }
                    }
                }
            }
            if too_many {
                continue; // the operator would materialise an enormous chunk: outside this check
            }
            let input = Box::new(PairInput { pairs: pairs.iter().map(|(s, t)| (b.ids[*s], b.ids[*t])).collect(), done: false });
            let mut got: Vec<(usize, usize, Option<i64>)> = Vec::new();
            let ctx = format!("direction {dname}, all_paths {all}");
            guard("shortest-path operator", || -> Result<(), Failure> {
                let mut op = ShortestPathOperator::new(b.store.clone(), input, 0, 1, None, dir).with_all_paths(all);
                for _ in 0..4 {
                    let chunk = match op.next() {
                        Ok(Some(c)) => c,
                        Ok(None) => break,
                        Err(e) => return fail("c19/sp_operator/error", format!("{ctx}: {e:?}")),
                    };
                    for row in chunk.selected_indices() {
                        let s = chunk.column(0).and_then(|c| c.get_node_id(row));
                        let t = chunk.column(1).and_then(|c| c.get_node_id(row));
                        let l = chunk.column(2).and_then(|c| c.get_value(row));
                        let (Some(s), Some(t)) = (s.and_then(|x| b.pos.get(&x)), t.and_then(|x| b.pos.get(&x))) else {
                            return fail("c19/sp_operator/row", format!("{ctx}: row {row} does not carry its source/target"));
                        };
                        let l = match l {
                            Some(Value::Int64(x)) => Some(x),
                            Some(Value::Null) | None => None,
                            Some(o) => return fail("c19/sp_operator/row", format!("{ctx}: length column holds {o:?}")),
                        };
                        got.push((*s, *t, l));
                    }
                }
                Ok(())
            })??;
            got.sort_unstable();
            want.sort_unstable();
            if got != want {
                let g1: BTreeSet<_> = got.iter().collect();
                let w1: BTreeSet<_> = want.iter().collect();
                let sig = if g1 != w1 { "c19/sp_operator/length" } else { "c19/sp_operator/path-count" };
                let diff: Vec<_> = w1.symmetric_difference(&g1).take(6).collect();
                return fail(sig, format!("{ctx}: rows (s,t,len) differ from the oracle: {} vs {} rows; first differences {diff:?}", got.len(), want.len()));
            }
        }
    }
    let sh = Shape::of(case, &b.rg);
    let cls = format!("{}{}", sh.class(), if multi { "+multi-path" } else { "" });
    ok(sh.nontrivial(), cls, hash_of(case))
}

// ------------------------------------------------------------------------------------------------

pub fn run(r: &mut Run) {
    r.level = "exploration";
    r.rule = "directed multigraphs built on a fresh LpgStore: 0-10 live nodes quick (0-40 thorough), id gaps from deleted nodes, \
              deleted edges, forced shares of parallel (different weights), anti-parallel and self-loop edges, optional clustering \
              into 2-3 groups (several components), weight regimes independent / all equal / two-valued / mostly zero over \
              {missing, Int, dyadic Float, Str, Bool, Null}; negative weights only in sub-check `negative`; every source, target \
              and start on graphs of <= 12 nodes (flows <= 7), selected ones above. Non-trivial = the graph has a parallel or \
              anti-parallel edge, two non-loop edges of equal effective weight, a zero-weight cycle or >= 2 weak components \
              (flows additionally: some pair has positive max flow; `negative`: also any negative edge). leapfrog_trie / leapfrog_operator: non-trivial = >= 2 relations with a non-empty intersection that is a proper subset of some relation (or arity >= 2) / >= 2 inputs, a non-empty result, a duplicate key and an input in >= 2 chunks. Distinct by hash of the case."
        .into();
    r.assumptions.push("conventions read from the code: weight/capacity default 1.0, cost default 0.0, non-numeric property -> default; Kruskal/Prim/components/triangles/k-core/bridges/articulation points treat edges as undirected; bridges, articulation points, triangles and k-core work on neighbour SETS (parallel edges merged, so a doubled edge can be a bridge)".into());
    r.assumptions.push("k-core: a self-loop counts as one neighbour (the code's reading; 'degree' with self-loops is not defined by the docs); triangles/clustering: a self-loop is not a neighbour ('a set of three nodes')".into());
    r.assumptions.push("Dijkstra, A*, max-flow and min-cost flow are only given non-negative weights/capacities/costs; A* only admissible heuristics (zero, exact, half, and an admissible inconsistent one)".into());
    r.assumptions.push("float weights are multiples of 0.25 so that every path sum is exact; comparisons use relative tolerance 1e-9".into());
    r.assumptions.push("betweenness on multigraphs: either reading (parallel edges as distinct shortest paths, or merged) is accepted; PageRank: dangling mass is spread uniformly (as the code documents), so the scores sum to 1".into());
    r.assumptions.push("min-cost flow: capacities and costs non-negative; half of the `mincost` cases are generated pair-clean (one cost per ordered pair, no anti-parallel pair) so that the open finding C19-mincost-pair-matrix cannot apply and cost minimality is strict there".into());
    r.assumptions.push("ShortestPathOperator (query-engine anchor): hop distance per input pair for the three directions, and with all_paths one row per shortest edge sequence (parallel edges distinct), Null row when unreachable; pairs whose path count exceeds 2000 are skipped".into());
    r.assumptions.push("community detection (label propagation, Louvain) has no exact specification: only partition of the node set, no community across weak components, contiguous labels / consistent counts, finite modularity <= 1".into());
    r.assumptions.push("leapfrog (worst-case-optimal join anchor): relations are sets of equal-arity node-id tuples (1-5 relations, arity 1-3; empty / singleton / equal / nested / disjoint / overlapping; duplicate tuples; ids 0, 2^63, u64::MAX); the level-by-level LeapfrogJoin must enumerate exactly their intersection in increasing order. LeapfrogJoinOperator: every input lists the same number of key columns (position i of every list is join variable i — the only reading its constructor admits), key columns are Int64- or Node-typed vectors (other types are documented as unsupported), a NULL key joins nothing; output compared as a multiset with the nested-loop equi-join over all inputs".into());
    r.assumptions.push("Prim returns a minimum spanning tree of the start node's weak component only (it 'grows the MST from a starting node'); Kruskal = Prim is asserted on weakly connected graphs".into());

    let max_n = if r.is_thorough() { 40 } else { 10 };
    let nn = move || graphs::graph(max_n, Sign::NonNeg);
    let sg = move || graphs::graph(max_n, Sign::Signed);
    // min-cost flow: half of the cases avoid the open finding's region by construction (pair_clean)
    let mc = move || {
        (graphs::graph(max_n, Sign::NonNeg), any::<bool>()).prop_map(|(mut c, p)| {
            c.pair_clean = p;
            c
        })
    };

    r.subcheck("sssp", r.cases(20_000, 400_000), nn, |c: &Case| with_deadline("sssp", c, check_sssp));
    r.subcheck("negative", r.cases(20_000, 400_000), sg, |c: &Case| with_deadline("negative", c, check_negative));
    r.subcheck("traversal", r.cases(20_000, 400_000), nn, |c: &Case| with_deadline("traversal", c, check_traversal));
    r.subcheck("components", r.cases(20_000, 400_000), nn, |c: &Case| with_deadline("components", c, check_components));
    r.subcheck("mst", r.cases(20_000, 400_000), nn, |c: &Case| with_deadline("mst", c, check_mst));
    r.subcheck("flow", r.cases(20_000, 400_000), nn, |c: &Case| with_deadline("flow", c, check_flow));
    r.subcheck("mincost", r.cases(10_000, 200_000), mc, |c: &Case| with_deadline("mincost", c, check_mincost));
    r.subcheck("structure", r.cases(20_000, 400_000), nn, |c: &Case| with_deadline("structure", c, check_structure));
    r.subcheck("centrality", r.cases(20_000, 400_000), nn, |c: &Case| with_deadline("centrality", c, check_centrality));
    r.subcheck("sp_operator", r.cases(10_000, 200_000), nn, |c: &Case| with_deadline("sp_operator", c, check_sp_operator));
    r.subcheck("community", r.cases(10_000, 200_000), nn, |c: &Case| with_deadline("community", c, check_community));
    r.subcheck("leapfrog_trie", r.cases(20_000, 400_000), leapfrog::trie_case_strategy, leapfrog::trie_check);
    r.subcheck("leapfrog_operator", r.cases(6_000, 100_000), leapfrog::op_case_strategy, leapfrog::operator_check);
}
