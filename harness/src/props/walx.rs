//! WAL components that the C05 / C06 sub-checks of `c05.rs` / `c06.rs` do not reach: the tokio-based
//! `AsyncWalManager` (`storage/wal/async_log.rs`) and the `AdaptiveFlusher` background thread (`storage/wal/flusher.rs`).
//!
//! Sub-checks
//! * C05 `async_wal_manager`  model-based: generated record sequences (every record kind, every value type, values above
//!                            64 KiB) logged through `AsyncWalManager` under a current-thread tokio runtime, with generated
//!                            `max_log_size` (64 B: a rotation at every record), every durability mode, commit / abort markers,
//!                            `checkpoint` / `rotate` / `flush` / `sync` / background-sync start+stop / close+reopen at
//!                            generated positions. Oracle: `WalRecovery::recover()` returns exactly the committed records
//!                            (with their commit and checkpoint markers) in the order they were acknowledged; the file names
//!                            form one contiguous ascending sequence. Differential: the synchronous `WalManager` fed the same
//!                            call sequence recovers the same list.
//! * C05 `wal_flusher`        `WalManager` + running `AdaptiveFlusher` (a real thread syncing every 0..2 ms): after
//!                            `shutdown()` / drop of the flusher every acknowledged record is in the files ("final flush
//!                            guarantee"), and after dropping the manager recovery returns every committed record exactly
//!                            once, in order; across reopen cycles. The oracle is independent of the schedule.
//! * C06 `async_crash_images` crash images of an `AsyncWalManager` directory: the byte stream of the log files cut at every
//!                            byte between the last successful sync / checkpoint / close and the end (across file boundaries:
//!                            later files absent, or present and empty = freshly rotated), stale `checkpoint.meta.tmp`;
//!                            recovery (in a worker process) returns exactly what the intact prefix commits; continuation:
//!                            reopen with `AsyncWalManager`, abort marker, more records, commit, sync, recover.

use std::collections::BTreeMap;
use std::path::{Path, PathBuf};
use std::sync::Arc;
use std::sync::atomic::Ordering;
use std::time::Duration;

use proptest::prelude::*;
use serde::{Deserialize, Serialize};

use grafeo_adapters::storage::wal::{
    AdaptiveFlusher, AsyncWalManager, DurabilityMode as WD, WalConfig, WalManager, WalRecord, WalRecovery,
};
use grafeo_common::types::{EdgeId, EpochId, NodeId, TxId};
use grafeo_common::utils::error::Result as GResult;

use crate::driver::{CaseResult, Failure, Run, fail, guard, hash_dbg, hash_of, ok, scratch_dir, truncate};
use crate::props::c05::{KEYS, LABELS, TYPES, V, parse_log, record_text, to_value, value_strategy};
use crate::props::c06::Counters;
use crate::worker::{Reply, WorkerPool, unesc};

// ------------------------------------------------------------------------------------------------
// Records
// ------------------------------------------------------------------------------------------------

/// A data record (every data kind of `WalRecord`).
#[derive(Debug, Clone, PartialEq, Serialize, Deserialize)]
pub enum ARec {
    CreateNode { id: u8, labels: Vec<u8> },
    DeleteNode { id: u8 },
    CreateEdge { id: u8, src: u8, dst: u8, ty: u8 },
    DeleteEdge { id: u8 },
    SetNodeProp { id: u8, k: u8, v: V },
    SetEdgeProp { id: u8, k: u8, v: V },
    RemoveNodeProp { id: u8, k: u8 },
    RemoveEdgeProp { id: u8, k: u8 },
    AddLabel { id: u8, l: u8 },
    RemoveLabel { id: u8, l: u8 },
}

fn nid(i: u8) -> NodeId {
    NodeId::new(u64::from(i))
}
fn eid(i: u8) -> EdgeId {
    EdgeId::new(u64::from(i))
}
fn key(k: u8) -> String {
    KEYS[k as usize % 4].to_string()
}

pub fn to_record(r: &ARec) -> WalRecord {
    match r {
        ARec::CreateNode { id, labels } => {
            WalRecord::CreateNode { id: nid(*id), labels: labels.iter().map(|l| LABELS[*l as usize % 3].to_string()).collect() }
        }
        ARec::DeleteNode { id } => WalRecord::DeleteNode { id: nid(*id) },
        ARec::CreateEdge { id, src, dst, ty } => {
            WalRecord::CreateEdge { id: eid(*id), src: nid(*src), dst: nid(*dst), edge_type: TYPES[*ty as usize % 2].to_string() }
        }
        ARec::DeleteEdge { id } => WalRecord::DeleteEdge { id: eid(*id) },
        ARec::SetNodeProp { id, k, v } => WalRecord::SetNodeProperty { id: nid(*id), key: key(*k), value: to_value(v) },
        ARec::SetEdgeProp { id, k, v } => WalRecord::SetEdgeProperty { id: eid(*id), key: key(*k), value: to_value(v) },
        ARec::RemoveNodeProp { id, k } => WalRecord::RemoveNodeProperty { id: nid(*id), key: key(*k) },
        ARec::RemoveEdgeProp { id, k } => WalRecord::RemoveEdgeProperty { id: eid(*id), key: key(*k) },
        ARec::AddLabel { id, l } => WalRecord::AddNodeLabel { id: nid(*id), label: LABELS[*l as usize % 3].to_string() },
        ARec::RemoveLabel { id, l } => WalRecord::RemoveNodeLabel { id: nid(*id), label: LABELS[*l as usize % 3].to_string() },
    }
}

fn has_big(r: &ARec) -> bool {
    fn big(v: &V) -> bool {
        match v {
            V::Big { .. } => true,
            V::List(l) => l.iter().any(big),
            V::Map(m) => m.iter().any(|(_, x)| big(x)),
            _ => false,
        }
    }
    matches!(r, ARec::SetNodeProp { v, .. } | ARec::SetEdgeProp { v, .. } if big(v))
}

pub fn arec_strategy() -> impl Strategy<Value = ARec> {
    prop_oneof![
        3 => (0u8..8, proptest::collection::vec(0u8..3, 0..=3)).prop_map(|(id, labels)| ARec::CreateNode { id, labels }),
        1 => (0u8..8).prop_map(|id| ARec::DeleteNode { id }),
        2 => (0u8..8, 0u8..8, 0u8..8, 0u8..2).prop_map(|(id, src, dst, ty)| ARec::CreateEdge { id, src, dst, ty }),
        1 => (0u8..8).prop_map(|id| ARec::DeleteEdge { id }),
        4 => (0u8..8, 0u8..4, value_strategy()).prop_map(|(id, k, v)| ARec::SetNodeProp { id, k, v }),
        2 => (0u8..8, 0u8..4, value_strategy()).prop_map(|(id, k, v)| ARec::SetEdgeProp { id, k, v }),
        1 => (0u8..8, 0u8..4).prop_map(|(id, k)| ARec::RemoveNodeProp { id, k }),
        1 => (0u8..8, 0u8..4).prop_map(|(id, k)| ARec::RemoveEdgeProp { id, k }),
        1 => (0u8..8, 0u8..3).prop_map(|(id, l)| ARec::AddLabel { id, l }),
        1 => (0u8..8, 0u8..3).prop_map(|(id, l)| ARec::RemoveLabel { id, l }),
    ]
}

/// One entry of a record stream: kind (0 data, 1 commit, 2 abort, 3 checkpoint), hash of the canonical text, short text.
#[derive(Debug, Clone, Serialize, Deserialize)]
pub struct Item {
    pub kind: u8,
    pub h: u64,
    #[serde(default)]
    pub short: String,
}

impl PartialEq for Item {
    fn eq(&self, o: &Item) -> bool {
        self.kind == o.kind && self.h == o.h
    }
}

const DATA: u8 = 0;
const COMMIT: u8 = 1;
const ABORT: u8 = 2;
const CHECKPOINT: u8 = 3;

pub fn item_of(r: &WalRecord) -> Item {
    let (kind, text) = match r {
        WalRecord::TxCommit { tx_id } => (COMMIT, format!("COMMIT {}", tx_id.as_u64())),
        WalRecord::TxAbort { tx_id } => (ABORT, format!("ABORT {}", tx_id.as_u64())),
        WalRecord::Checkpoint { tx_id } => (CHECKPOINT, format!("CHECKPOINT {}", tx_id.as_u64())),
        other => (DATA, record_text(other).unwrap_or_default()),
    };
    Item { kind, h: hash_of(&text), short: truncate(&text, 48) }
}

/// The specification of `WalRecovery::recover` ("returns only records that were part of committed transactions", in
/// log order, commit and checkpoint markers included, aborted and unfinished transactions dropped).
pub fn model_recover(raw: &[Item]) -> Vec<Item> {
    let mut pending: Vec<Item> = Vec::new();
    let mut out = Vec::new();
    for it in raw {
        match it.kind {
            COMMIT => {
                out.append(&mut pending);
                out.push(it.clone());
            }
            ABORT => pending.clear(),
            CHECKPOINT => {
                // the harness never checkpoints inside an open transaction (`pending` is empty here)
                pending.clear();
                out.push(it.clone());
            }
            _ => pending.push(it.clone()),
        }
    }
    out
}

fn first_diff(a: &[Item], b: &[Item]) -> String {
    let i = a.iter().zip(b.iter()).position(|(x, y)| x != y).unwrap_or(a.len().min(b.len()));
    format!(
        "{} vs {} entries; first difference at #{i}: {:?} vs {:?}",
        a.len(),
        b.len(),
        a.get(i).map(|x| x.short.as_str()),
        b.get(i).map(|x| x.short.as_str())
    )
}

// ------------------------------------------------------------------------------------------------
// Durability modes
// ------------------------------------------------------------------------------------------------

#[derive(Debug, Clone, Copy, PartialEq, Eq, Serialize, Deserialize)]
pub enum XMode {
    Sync,
    /// `Batch { 1 h, n records }`: the count decides
    BatchN(u64),
    /// `Batch { 0 ms, 1 record }`: every record is synced
    BatchEvery,
    /// `Batch { ms, 1000 records }`: the clock decides (only where on-disk lengths are not part of the oracle)
    BatchTimed(u64),
    Adaptive,
    NoSync,
}

fn durability(m: XMode) -> WD {
    match m {
        XMode::Sync => WD::Sync,
        XMode::BatchN(n) => WD::Batch { max_delay_ms: 3_600_000, max_records: n.max(1) },
        XMode::BatchEvery => WD::Batch { max_delay_ms: 0, max_records: 1 },
        XMode::BatchTimed(ms) => WD::Batch { max_delay_ms: ms.max(1), max_records: 1000 },
        XMode::Adaptive => WD::Adaptive { target_interval_ms: 50 },
        XMode::NoSync => WD::NoSync,
    }
}

fn config(m: XMode, max_log_size: u64) -> WalConfig {
    WalConfig { durability: durability(m), max_log_size, ..WalConfig::default() }
}

fn mode_strategy(timed: bool) -> BoxedStrategy<XMode> {
    let det = prop_oneof![
        3 => Just(XMode::Sync),
        2 => (1u64..5).prop_map(XMode::BatchN),
        1 => Just(XMode::BatchEvery),
        2 => Just(XMode::Adaptive),
        2 => Just(XMode::NoSync),
    ];
    if timed { prop_oneof![9 => det, 1 => (1u64..4).prop_map(XMode::BatchTimed)].boxed() } else { det.boxed() }
}

fn size_strategy() -> impl Strategy<Value = u64> {
    prop_oneof![
        3 => Just(64u64 * 1024 * 1024),
        2 => Just(64u64),
        3 => 64u64..512,
        2 => 512u64..4096,
        1 => 60_000u64..140_000,
    ]
}

// ------------------------------------------------------------------------------------------------
// Runtime and the two managers behind one face
// ------------------------------------------------------------------------------------------------

fn runtime() -> Result<tokio::runtime::Runtime, Failure> {
    tokio::runtime::Builder::new_current_thread()
        .enable_all()
        .build()
        .map_err(|e| Failure { signature: "infra/tokio-runtime".into(), what: format!("cannot build a tokio runtime: {e}") })
}

enum Mgr {
    A(AsyncWalManager),
    S(WalManager),
}

impl Mgr {
    fn open(rt: &tokio::runtime::Runtime, is_async: bool, dir: &Path, cfg: WalConfig) -> GResult<Mgr> {
        if is_async { Ok(Mgr::A(rt.block_on(AsyncWalManager::with_config(dir, cfg))?)) } else { Ok(Mgr::S(WalManager::with_config(dir, cfg)?)) }
    }
    fn log(&self, rt: &tokio::runtime::Runtime, r: &WalRecord) -> GResult<()> {
        match self {
            Mgr::A(m) => rt.block_on(m.log(r)),
            Mgr::S(m) => m.log(r),
        }
    }
    fn checkpoint(&self, rt: &tokio::runtime::Runtime, tx: TxId, epoch: EpochId) -> GResult<()> {
        match self {
            Mgr::A(m) => rt.block_on(m.checkpoint(tx, epoch)),
            Mgr::S(m) => m.checkpoint(tx, epoch),
        }
    }
    fn rotate(&self, rt: &tokio::runtime::Runtime) -> GResult<()> {
        match self {
            Mgr::A(m) => rt.block_on(m.rotate()),
            Mgr::S(m) => m.rotate(),
        }
    }
    fn flush(&self, rt: &tokio::runtime::Runtime) -> GResult<()> {
        match self {
            Mgr::A(m) => rt.block_on(m.flush()),
            Mgr::S(m) => m.flush(),
        }
    }
    fn sync(&self, rt: &tokio::runtime::Runtime) -> GResult<()> {
        match self {
            Mgr::A(m) => rt.block_on(m.sync()),
            Mgr::S(m) => m.sync(),
        }
    }
    fn record_count(&self) -> u64 {
        match self {
            Mgr::A(m) => m.record_count(),
            Mgr::S(m) => m.record_count(),
        }
    }
    fn log_files(&self, rt: &tokio::runtime::Runtime) -> GResult<Vec<PathBuf>> {
        match self {
            Mgr::A(m) => rt.block_on(m.log_files()),
            Mgr::S(m) => m.log_files(),
        }
    }
    fn checkpoint_epoch(&self, rt: &tokio::runtime::Runtime) -> Option<EpochId> {
        match self {
            Mgr::A(m) => rt.block_on(m.checkpoint_epoch()),
            Mgr::S(m) => m.checkpoint_epoch(),
        }
    }
    fn durability_mode(&self) -> WD {
        match self {
            Mgr::A(m) => m.durability_mode(),
            Mgr::S(m) => m.durability_mode(),
        }
    }
}

fn werr<T>(sig: &str, ctx: &str, r: Result<GResult<T>, Failure>) -> Result<T, Failure> {
    match r? {
        Ok(v) => Ok(v),
        Err(e) => fail(format!("{sig}/{ctx}-error"), format!("{ctx} failed: {e}")),
    }
}

/// `wal_<8 digits>.log` → sequence
fn seq_of(name: &str) -> Option<u64> {
    let s = name.strip_prefix("wal_")?.strip_suffix(".log")?;
    if s.len() == 8 && s.bytes().all(|b| b.is_ascii_digit()) { s.parse().ok() } else { None }
}

/// All regular files of a WAL directory, sorted by name.
fn read_dir_files(dir: &Path) -> Vec<(String, Vec<u8>)> {
    let mut v = Vec::new();
    if let Ok(rd) = std::fs::read_dir(dir) {
        for e in rd.flatten() {
            if e.path().is_file() {
                v.push((e.file_name().to_string_lossy().to_string(), std::fs::read(e.path()).unwrap_or_default()));
            }
        }
    }
    v.sort();
    v
}

/// Independent reader: the records of the `wal_*.log` files in sequence order, up to the first invalid record of each.
fn disk_stream(files: &[(String, Vec<u8>)]) -> Vec<Item> {
    let mut logs: Vec<(u64, &Vec<u8>)> = files.iter().filter_map(|(n, b)| seq_of(n).map(|s| (s, b))).collect();
    logs.sort_by_key(|x| x.0);
    logs.iter().flat_map(|(_, b)| parse_log(b).into_iter().map(|(_, _, r)| item_of(&r))).collect()
}

/// File-name discipline: every file is `wal_<8 digits>.log` (or `checkpoint.meta` for the synchronous manager) and the
/// sequences form one contiguous ascending range; it starts at 0 unless a checkpoint may have retired files.
fn check_names(sig: &str, files: &[(String, Vec<u8>)], may_retire: bool, min_hi: u64) -> Result<(u64, u64), Failure> {
    let mut seqs = Vec::new();
    for (n, _) in files {
        match seq_of(n) {
            Some(s) => seqs.push(s),
            None if n == "checkpoint.meta" => {}
            None => return fail(format!("{sig}/unexpected-file"), format!("unexpected file {n:?} in the WAL directory")),
        }
    }
    seqs.sort_unstable();
    let (Some(lo), Some(hi)) = (seqs.first().copied(), seqs.last().copied()) else {
        return fail(format!("{sig}/no-log-file"), "the WAL directory holds no log file");
    };
    if seqs.windows(2).any(|w| w[1] != w[0] + 1) {
        return fail(format!("{sig}/sequence-gap"), format!("log file sequences are not contiguous: {seqs:?}"));
    }
    if lo != 0 && !may_retire {
        return fail(format!("{sig}/file-removed"), format!("log files below sequence {lo} are gone although no checkpoint could retire them"));
    }
    if hi < min_hi {
        return fail(format!("{sig}/sequence-reused"), format!("highest sequence {hi} is below {min_hi} (explicit rotations + earlier maximum)"));
    }
    Ok((lo, hi))
}

// ------------------------------------------------------------------------------------------------
// C05 `async_wal_manager`
// ------------------------------------------------------------------------------------------------

#[derive(Debug, Clone, PartialEq, Serialize, Deserialize)]
pub enum AStep {
    Log(ARec),
    Commit,
    Abort,
    /// what `GrafeoDB::wal_checkpoint` does: commit marker, `checkpoint(tx, epoch)`, sync
    Checkpoint { epoch: u8 },
    Rotate,
    Flush,
    Sync,
    /// `start_background_sync()` / `stop_background_sync()` (no-ops for the synchronous manager)
    StartBg,
    StopBg,
    /// close and reopen: commit marker, then 0 = checkpoint(epoch 0) + sync (what `GrafeoDB::close` does), 1 = sync,
    /// 2 = flush only; the manager is dropped, the directory recovered and compared, and the manager reopened
    Reopen { how: u8 },
}

#[derive(Debug, Clone, PartialEq, Serialize, Deserialize)]
pub struct AsyncCase {
    pub max_log_size: u64,
    pub mode: XMode,
    pub steps: Vec<AStep>,
}

pub fn async_case_strategy(max_steps: usize) -> impl Strategy<Value = AsyncCase> {
    let step = prop_oneof![
        14 => arec_strategy().prop_map(AStep::Log),
        3 => Just(AStep::Commit),
        1 => Just(AStep::Abort),
        // epoch 0 (what the engine passes) in 3 of 4 checkpoints; a positive epoch lets the manager retire old files
        2 => prop_oneof![3 => Just(0u8), 1 => 1u8..12].prop_map(|epoch| AStep::Checkpoint { epoch }),
        2 => Just(AStep::Rotate),
        1 => Just(AStep::Flush),
        1 => Just(AStep::Sync),
        1 => prop_oneof![Just(AStep::StartBg), Just(AStep::StopBg)],
        2 => (0u8..3).prop_map(|how| AStep::Reopen { how }),
    ];
    (size_strategy(), mode_strategy(true), proptest::collection::vec(step, 1..=max_steps))
        .prop_map(|(max_log_size, mode, steps)| AsyncCase { max_log_size, mode, steps })
}

/// What one manager did with a case.
struct Outcome {
    /// recovered stream at every reopen
    recovered: Vec<Vec<Item>>,
    files_max: usize,
    retired: bool,
}

fn run_manager(c: &AsyncCase, is_async: bool) -> Result<Outcome, Failure> {
    let sig = if is_async { "c05/async" } else { "c05/async/sync-reference" };
    let rt = runtime()?;
    let scratch = scratch_dir();
    let wdir = scratch.path().join("wal");
    let cfg = config(c.mode, c.max_log_size);
    let mut wal = Some(werr(sig, "open", guard("with_config", || Mgr::open(&rt, is_async, &wdir, cfg.clone())))?);
    let mut raw: Vec<Item> = Vec::new();
    // index into `raw` behind the last checkpoint that was allowed to retire files (positive epoch)
    let mut floor = 0usize;
    let mut may_retire = false;
    let mut tx = 0u64;
    let mut count_since_open = 0u64;
    let mut explicit_rotations = 0u64;
    let mut hi_seen = 0u64;
    let mut bg_running = false;
    let mut out = Outcome { recovered: Vec::new(), files_max: 0, retired: false };
    let mut steps = c.steps.clone();
    steps.push(AStep::Reopen { how: 0 });
    let n_steps = steps.len();
    for (si, st) in steps.iter().enumerate() {
        let w = wal.as_ref().unwrap();
        let log = |rec: WalRecord, raw: &mut Vec<Item>, count: &mut u64| -> Result<(), Failure> {
            werr(sig, "log", guard("log", || w.log(&rt, &rec)))?;
            raw.push(item_of(&rec));
            *count += 1;
            Ok(())
        };
        match st {
            AStep::Log(r) => log(to_record(r), &mut raw, &mut count_since_open)?,
            AStep::Commit => {
                tx += 1;
                log(WalRecord::TxCommit { tx_id: TxId::new(tx) }, &mut raw, &mut count_since_open)?;
            }
            AStep::Abort => {
                tx += 1;
                log(WalRecord::TxAbort { tx_id: TxId::new(tx) }, &mut raw, &mut count_since_open)?;
            }
            AStep::Checkpoint { epoch } => {
                tx += 1;
                log(WalRecord::TxCommit { tx_id: TxId::new(tx) }, &mut raw, &mut count_since_open)?;
                werr(sig, "checkpoint", guard("checkpoint", || w.checkpoint(&rt, TxId::new(tx), EpochId::new(u64::from(*epoch)))))?;
                // checkpoint() logs the checkpoint record itself
                raw.push(item_of(&WalRecord::Checkpoint { tx_id: TxId::new(tx) }));
                count_since_open += 1;
                werr(sig, "sync", guard("sync", || w.sync(&rt)))?;
                let last_epoch = Some(u64::from(*epoch));
                if *epoch > 0 {
                    may_retire = true;
                    // everything in front of the checkpoint record is dispensable from here on
                    floor = raw.len() - 1;
                }
                let got = guard("checkpoint_epoch", || w.checkpoint_epoch(&rt))?.map(|e| e.as_u64());
                if got != last_epoch {
                    return fail(format!("{sig}/checkpoint-epoch"), format!("checkpoint_epoch() = {got:?} after checkpoint(.., {epoch})"));
                }
            }
            AStep::Rotate => {
                werr(sig, "rotate", guard("rotate", || w.rotate(&rt)))?;
                explicit_rotations += 1;
            }
            AStep::Flush => werr(sig, "flush", guard("flush", || w.flush(&rt)))?,
            AStep::Sync => werr(sig, "sync", guard("sync", || w.sync(&rt)))?,
            AStep::StartBg => {
                if let Mgr::A(m) = w {
                    let started = guard("start_background_sync", || rt.block_on(m.start_background_sync()))?;
                    let want = matches!(durability(c.mode), WD::Batch { .. }) && !bg_running;
                    if started != want {
                        return fail(
                            "c05/async/background-sync-return",
                            format!("start_background_sync() returned {started}; mode {:?}, already running: {bg_running}", c.mode),
                        );
                    }
                    bg_running |= started;
                }
            }
            AStep::StopBg => {
                if let Mgr::A(m) = w {
                    guard("stop_background_sync", || rt.block_on(m.stop_background_sync()))?;
                    bg_running = false;
                }
            }
            AStep::Reopen { how } => {
                tx += 1;
                log(WalRecord::TxCommit { tx_id: TxId::new(tx) }, &mut raw, &mut count_since_open)?;
                match how % 3 {
                    0 => {
                        werr(sig, "checkpoint", guard("checkpoint", || w.checkpoint(&rt, TxId::new(tx), EpochId::new(0))))?;
                        raw.push(item_of(&WalRecord::Checkpoint { tx_id: TxId::new(tx) }));
                        count_since_open += 1;
                        werr(sig, "sync", guard("sync", || w.sync(&rt)))?;
                    }
                    1 => werr(sig, "sync", guard("sync", || w.sync(&rt)))?,
                    _ => werr(sig, "flush", guard("flush", || w.flush(&rt)))?,
                }
                // cheap API facts before the manager goes away
                let rc = guard("record_count", || w.record_count())?;
                if rc != count_since_open {
                    return fail(format!("{sig}/record-count"), format!("record_count() = {rc} after {count_since_open} acknowledged appends since open"));
                }
                if guard("durability_mode", || w.durability_mode())? != cfg.durability {
                    return fail(format!("{sig}/durability-mode"), "durability_mode() differs from the configuration");
                }
                let listed: Vec<String> = werr(sig, "log_files", guard("log_files", || w.log_files(&rt)))?
                    .iter()
                    .map(|p| p.file_name().map(|n| n.to_string_lossy().to_string()).unwrap_or_default())
                    .collect();
                if bg_running {
                    if let Mgr::A(m) = w {
                        guard("stop_background_sync", || rt.block_on(m.stop_background_sync()))?;
                    }
                    bg_running = false;
                }
                let old = wal.take();
                guard("drop", move || drop(old))?;

                let files = read_dir_files(&wdir);
                let (lo, hi) = check_names(sig, &files, may_retire, hi_seen + explicit_rotations)?;
                hi_seen = hi;
                explicit_rotations = 0;
                out.files_max = out.files_max.max((hi - lo + 1) as usize);
                out.retired |= lo > 0;
                let mut on_disk: Vec<(u64, String)> = files.iter().filter_map(|(n, _)| seq_of(n).map(|s| (s, n.clone()))).collect();
                on_disk.sort();
                let names: Vec<String> = on_disk.into_iter().map(|(_, n)| n).collect();
                if listed != names {
                    return fail(format!("{sig}/log-files-listing"), format!("log_files() = {listed:?}, directory holds {names:?}"));
                }

                let recs = if is_async {
                    werr(sig, "recover", guard("recover", || WalRecovery::new(&wdir).recover()))?
                } else {
                    // full replay: with checkpoint.meta the synchronous manager's directories run into the listed
                    // rotation+checkpoint finding, which is not what this reference is for
                    werr(sig, "recover", guard("recover", || WalRecovery::new(&wdir).recover_from_checkpoint(None)))?
                };
                let got: Vec<Item> = recs.iter().map(item_of).collect();
                let want = model_recover(&raw);
                let ctx = || format!("reopen at step {si} of {n_steps} ({:?}, max_log_size {}, files {lo}..={hi})", c.mode, c.max_log_size);
                let good = if may_retire {
                    // a suffix of the committed stream that still holds everything behind the last retiring checkpoint
                    let keep = model_recover(&raw[floor..]);
                    got.len() >= keep.len() && got.len() <= want.len() && want[want.len() - got.len()..] == got[..]
                } else {
                    got == want
                };
                if !good {
                    let disk = model_recover(&disk_stream(&files));
                    let where_ = if disk == got { "the files, read in sequence order by an independent reader, hold exactly what recovery returned: the write side lost, misplaced or reordered records" } else { "the files, read in sequence order by an independent reader, hold something else than recovery returned" };
                    let sigx = if disk == got { format!("{sig}/acknowledged-records-not-in-files") } else { format!("{sig}/recovered-records-mismatch") };
                    return fail(sigx, format!("{}: recovered vs acknowledged+committed: {}; {where_}", ctx(), first_diff(&got, &want)));
                }
                out.recovered.push(got);
                wal = Some(werr(sig, "open", guard("with_config", || Mgr::open(&rt, is_async, &wdir, cfg.clone())))?);
                count_since_open = 0;
            }
        }
    }
    let old = wal.take();
    guard("drop", move || drop(old))?;
    guard("drop runtime", move || drop(rt))?;
    Ok(out)
}

pub fn check_async_case(c: &AsyncCase) -> CaseResult {
    let a = run_manager(c, true)?;
    let s = run_manager(c, false)?;
    let retiring = c.steps.iter().any(|s| matches!(s, AStep::Checkpoint { epoch } if *epoch > 0));
    if !retiring {
        for (i, (x, y)) in a.recovered.iter().zip(s.recovered.iter()).enumerate() {
            if x != y {
                return fail(
                    "c05/async/differs-from-sync-manager",
                    format!("reopen #{i}: AsyncWalManager vs WalManager fed the same calls: {}", first_diff(x, y)),
                );
            }
        }
    }
    let logs = c.steps.iter().filter(|s| matches!(s, AStep::Log(_))).count();
    let mid = c.steps.iter().position(|s| matches!(s, AStep::Reopen { .. } | AStep::Checkpoint { .. }));
    let logged_after = mid.is_some_and(|m| c.steps[m..].iter().any(|s| matches!(s, AStep::Log(_))));
    let big = c.steps.iter().any(|s| matches!(s, AStep::Log(r) if has_big(r)));
    let class = format!(
        "{}{}{}",
        if a.retired { "files-retired" } else if a.files_max > 1 { "rotated" } else { "single-file" },
        if big { "/big-value" } else { "" },
        match c.mode {
            XMode::Sync => "/sync",
            XMode::BatchN(_) | XMode::BatchEvery | XMode::BatchTimed(_) => "/batch",
            XMode::Adaptive => "/adaptive",
            XMode::NoSync => "/nosync",
        }
    );
    ok(logged_after && logs >= 2, class, hash_dbg(c))
}

// ------------------------------------------------------------------------------------------------
// C05 `wal_flusher`
// ------------------------------------------------------------------------------------------------

#[derive(Debug, Clone, PartialEq, Serialize, Deserialize)]
pub enum FStep {
    Log(ARec),
    Commit,
    Abort,
    Rotate,
    Flush,
    /// give the flusher thread a chance to run (`yield_now`; no clock involved)
    Yield,
}

#[derive(Debug, Clone, Copy, PartialEq, Eq, Serialize, Deserialize)]
pub enum FEnd {
    Shutdown,
    ShutdownTwice,
    Drop,
}

#[derive(Debug, Clone, PartialEq, Serialize, Deserialize)]
pub struct FSession {
    pub steps: Vec<FStep>,
    pub end: FEnd,
}

#[derive(Debug, Clone, PartialEq, Serialize, Deserialize)]
pub struct FlusherCase {
    pub max_log_size: u64,
    pub mode: XMode,
    /// target interval of the flusher in ms (0 = sync continuously)
    pub interval_ms: u8,
    pub sessions: Vec<FSession>,
    pub reps: u8,
}

pub fn flusher_case_strategy(max_steps: usize, reps: u8) -> impl Strategy<Value = FlusherCase> {
    let step = prop_oneof![
        14 => arec_strategy().prop_map(FStep::Log),
        3 => Just(FStep::Commit),
        1 => Just(FStep::Abort),
        2 => Just(FStep::Rotate),
        1 => Just(FStep::Flush),
        2 => Just(FStep::Yield),
    ];
    let end = prop_oneof![3 => Just(FEnd::Shutdown), 1 => Just(FEnd::ShutdownTwice), 3 => Just(FEnd::Drop)];
    let session = (proptest::collection::vec(step, 1..=max_steps), end).prop_map(|(steps, end)| FSession { steps, end });
    (
        prop_oneof![2 => Just(64u64 * 1024 * 1024), 1 => Just(64u64), 2 => 64u64..512, 2 => 512u64..4096, 1 => 60_000u64..140_000],
        mode_strategy(false),
        prop_oneof![2 => Just(0u8), 2 => Just(1u8), 1 => Just(2u8)],
        proptest::collection::vec(session, 1..=3),
    )
        .prop_map(move |(max_log_size, mode, interval_ms, sessions)| FlusherCase { max_log_size, mode, interval_ms, sessions, reps })
}

fn flusher_rep(c: &FlusherCase) -> Result<(bool, bool), Failure> {
    let sig = "c05/flusher";
    let scratch = scratch_dir();
    let wdir = scratch.path().join("wal");
    let cfg = config(c.mode, c.max_log_size);
    let mut raw: Vec<Item> = Vec::new();
    let mut tx = 0u64;
    let mut rotated = false;
    let mut buffered_at_end = false;
    for (si, s) in c.sessions.iter().enumerate() {
        let wal = Arc::new(werr(sig, "open", guard("WalManager::with_config", || WalManager::with_config(&wdir, cfg.clone())))?);
        let mut flusher = Some(guard("AdaptiveFlusher::new", || AdaptiveFlusher::new(Arc::clone(&wal), u64::from(c.interval_ms)))?);
        let ti = guard("target_interval", || flusher.as_ref().unwrap().target_interval())?;
        if ti != Duration::from_millis(u64::from(c.interval_ms)) {
            return fail(format!("{sig}/target-interval"), format!("target_interval() = {ti:?}, configured {} ms", c.interval_ms));
        }
        let mut steps = s.steps.clone();
        steps.push(FStep::Commit);
        let mut count = 0u64;
        for st in &steps {
            let rec = match st {
                FStep::Log(r) => Some(to_record(r)),
                FStep::Commit => {
                    tx += 1;
                    Some(WalRecord::TxCommit { tx_id: TxId::new(tx) })
                }
                FStep::Abort => {
                    tx += 1;
                    Some(WalRecord::TxAbort { tx_id: TxId::new(tx) })
                }
                FStep::Rotate => {
                    werr(sig, "rotate", guard("rotate", || wal.rotate()))?;
                    None
                }
                FStep::Flush => {
                    werr(sig, "flush", guard("flush", || wal.flush()))?;
                    None
                }
                FStep::Yield => {
                    std::thread::yield_now();
                    None
                }
            };
            if let Some(rec) = rec {
                werr(sig, "log", guard("log", || wal.log(&rec)))?;
                raw.push(item_of(&rec));
                count += 1;
            }
        }
        // in Sync mode only commit markers flush, in Batch{n} only every n-th record: something may sit in the buffer
        if matches!(c.mode, XMode::BatchN(n) if n > 1) {
            buffered_at_end = true;
        }
        // the flusher goes away; its final flush is the only thing that syncs the tail
        let mut f = flusher.take().unwrap();
        match s.end {
            FEnd::Drop => guard("drop flusher", move || drop(f))?,
            FEnd::Shutdown | FEnd::ShutdownTwice => {
                let n = if s.end == FEnd::ShutdownTwice { 2 } else { 1 };
                for k in 0..n {
                    let stats = match guard("AdaptiveFlusher::shutdown", || f.shutdown())? {
                        Ok(s) => s,
                        Err(e) => return fail(format!("{sig}/shutdown-error"), format!("shutdown() #{k} failed: {e}")),
                    };
                    // schedule-independent facts about the statistics
                    if stats.exceeded_target_count > stats.flush_count
                        || stats.max_flush_time_us > stats.total_flush_time_us
                        || stats.avg_flush_time_us() > stats.max_flush_time_us
                        || (stats.flush_count == 0 && stats.total_flush_time_us != 0)
                    {
                        return fail(format!("{sig}/stats-inconsistent"), format!("shutdown() #{k} returned {stats:?}"));
                    }
                }
                guard("drop flusher", move || drop(f))?;
            }
        }
        // "graceful shutdown with final flush guarantee": with the manager still alive (nothing but the flusher's final
        // sync has emptied its buffer) the files hold every acknowledged record, in order, and nothing else
        let files = read_dir_files(&wdir);
        let disk = disk_stream(&files);
        if disk != raw {
            return fail(
                format!("{sig}/final-flush-missing-records"),
                format!(
                    "session {si} ({:?}, max_log_size {}, interval {} ms, end {:?}): files after the flusher went away vs acknowledged records: {}",
                    c.mode,
                    c.max_log_size,
                    c.interval_ms,
                    s.end,
                    first_diff(&disk, &raw)
                ),
            );
        }
        let rc = guard("record_count", || wal.record_count())?;
        if rc != count {
            return fail(format!("{sig}/record-count"), format!("record_count() = {rc} after {count} acknowledged appends"));
        }
        if Arc::strong_count(&wal) != 1 {
            return fail(format!("{sig}/flusher-thread-alive"), "the flusher thread still holds the WalManager after shutdown / drop");
        }
        guard("drop", move || drop(wal))?;
        let files = read_dir_files(&wdir);
        let (_, hi) = check_names(sig, &files, false, 0)?;
        rotated |= hi > 0;
        let got: Vec<Item> =
            werr(sig, "recover", guard("recover", || WalRecovery::new(&wdir).recover()))?.iter().map(item_of).collect();
        let want = model_recover(&raw);
        if got != want {
            return fail(
                format!("{sig}/recovered-records-mismatch"),
                format!("session {si} ({:?}, max_log_size {}, interval {} ms): recovered vs committed: {}", c.mode, c.max_log_size, c.interval_ms, first_diff(&got, &want)),
            );
        }
    }
    Ok((rotated, buffered_at_end || c.mode == XMode::Sync))
}

pub fn check_flusher_case(c: &FlusherCase) -> CaseResult {
    let mut rotated = false;
    let mut buffered = false;
    for _ in 0..c.reps.max(1) {
        let (r, b) = flusher_rep(c)?;
        rotated |= r;
        buffered |= b;
    }
    let logs: usize = c.sessions.iter().map(|s| s.steps.iter().filter(|x| matches!(x, FStep::Log(_))).count()).sum();
    let class = format!(
        "{}{}/interval-{}ms",
        if rotated { "rotated" } else { "single-file" },
        if buffered { "/buffering-mode" } else { "/write-through-mode" },
        c.interval_ms
    );
    ok(logs >= 2, class, hash_dbg(c))
}

// ------------------------------------------------------------------------------------------------
// C06 `async_crash_images`
// ------------------------------------------------------------------------------------------------

#[derive(Debug, Clone, PartialEq, Serialize, Deserialize)]
pub enum CStep {
    Log(ARec),
    Commit,
    Abort,
    Sync,
    Flush,
    /// commit marker + `checkpoint(tx, 0)`
    Checkpoint,
    Rotate,
    /// clean close (commit marker, sync, drop) and reopen
    Reopen,
}

#[derive(Debug, Clone, PartialEq, Serialize, Deserialize)]
pub struct ACrashCase {
    pub max_log_size: u64,
    pub mode: XMode,
    pub steps: Vec<CStep>,
    /// records written after the recovery (continuation)
    pub cont: Vec<ARec>,
}

pub fn acrash_case_strategy(max_steps: usize, max_cont: usize) -> impl Strategy<Value = ACrashCase> {
    let step = prop_oneof![
        14 => arec_strategy().prop_map(CStep::Log),
        4 => Just(CStep::Commit),
        1 => Just(CStep::Abort),
        2 => Just(CStep::Sync),
        1 => Just(CStep::Flush),
        1 => Just(CStep::Checkpoint),
        2 => Just(CStep::Rotate),
        1 => Just(CStep::Reopen),
    ];
    (
        prop_oneof![3 => Just(64u64 * 1024 * 1024), 1 => Just(64u64), 3 => 64u64..512, 2 => 512u64..4096],
        mode_strategy(false),
        proptest::collection::vec(step, 1..=max_steps),
        proptest::collection::vec(arec_strategy(), 0..=max_cont),
    )
        .prop_map(|(max_log_size, mode, steps, cont)| ACrashCase { max_log_size, mode, steps, cont })
}

#[derive(Debug, Serialize, Deserialize)]
struct XReq {
    dir: String,
    max_log_size: u64,
    mode: XMode,
    cont: Option<Vec<ARec>>,
}

#[derive(Debug, Default, Serialize, Deserialize)]
struct XRep {
    err: Option<(String, String)>,
    /// `recover()` of the directory as found
    rec1: Option<Vec<Item>>,
    /// `recover()` after reopen with `AsyncWalManager`, abort marker, continuation records, commit marker, sync, drop
    rec2: Option<Vec<Item>>,
}

fn worker_inner(req: &XReq, rep: &mut XRep) -> Result<(), Failure> {
    let sig = "c06/async";
    let dir = PathBuf::from(&req.dir);
    let r1 = werr(sig, "recover", guard("recover", || WalRecovery::new(&dir).recover()))?;
    rep.rec1 = Some(r1.iter().map(item_of).map(|i| Item { short: String::new(), ..i }).collect());
    let Some(cont) = &req.cont else { return Ok(()) };
    let rt = runtime()?;
    let cfg = config(req.mode, req.max_log_size);
    let m = werr(sig, "reopen", guard("AsyncWalManager::with_config", || rt.block_on(AsyncWalManager::with_config(&dir, cfg))))?;
    // what `GrafeoDB::with_config` does after a recovery: abort whatever recovery dropped, so that the next commit
    // marker cannot commit it
    let mut recs = vec![WalRecord::TxAbort { tx_id: TxId::new(CONT_TX) }];
    recs.extend(cont.iter().map(to_record));
    recs.push(WalRecord::TxCommit { tx_id: TxId::new(CONT_TX) });
    for r in &recs {
        werr(sig, "log-after-recovery", guard("log", || rt.block_on(m.log(r))))?;
    }
    werr(sig, "sync-after-recovery", guard("sync", || rt.block_on(m.sync())))?;
    guard("drop", move || drop(m))?;
    let r2 = werr(sig, "recover-after-continuation", guard("recover", || WalRecovery::new(&dir).recover()))?;
    rep.rec2 = Some(r2.iter().map(item_of).map(|i| Item { short: String::new(), ..i }).collect());
    guard("drop runtime", move || drop(rt))?;
    Ok(())
}

const CONT_TX: u64 = 777_777;

/// Worker side (`c06` worker, request lines starting with `WALX `).
pub fn worker(request: &str) -> String {
    let req: XReq = match serde_json::from_str(request) {
        Ok(r) => r,
        Err(e) => return format!("ERR bad request: {e}"),
    };
    let mut rep = XRep::default();
    if let Err(f) = worker_inner(&req, &mut rep) {
        rep.err = Some((f.signature, f.what));
    }
    serde_json::to_string(&rep).unwrap_or_else(|e| format!("ERR cannot serialise reply: {e}"))
}

fn call_worker(pool: &WorkerPool, req: &XReq, ctr: &Counters) -> Result<XRep, Failure> {
    let line = format!("WALX {}", serde_json::to_string(req).map_err(|e| Failure { signature: "c06/harness".into(), what: e.to_string() })?);
    let mut reply = pool.call(&line, Duration::from_secs(20));
    if reply == Reply::Timeout {
        ctr.retries.fetch_add(1, Ordering::Relaxed);
        reply = pool.call(&line, Duration::from_secs(60));
    }
    match reply {
        Reply::Timeout => fail("c06/async/hang", "recovery / reopen of the crash image did not return within 20 s nor, retried alone, within 60 s"),
        Reply::Died(st) => fail(format!("c06/async/worker-died:{st}"), format!("worker process died on the crash image: {st}")),
        Reply::Line(l) => {
            if let Some(p) = l.strip_prefix("PANIC ") {
                let t = unesc(p);
                let (sig, msg) = t.split_once('\t').unwrap_or((t.as_str(), ""));
                return fail(sig.to_string(), format!("panic while recovering / reopening the crash image: {msg}"));
            }
            if l.starts_with("ERR ") {
                return fail("c06/harness", l);
            }
            serde_json::from_str::<XRep>(&l).map_err(|e| Failure { signature: "c06/harness".into(), what: format!("bad reply: {e}") })
        }
    }
}

/// What the recording of a case yields.
struct ARecording {
    /// every record acknowledged, in order
    raw: Vec<Item>,
    /// log files at the crash, in sequence order
    files: Vec<(String, Vec<u8>)>,
    /// index of the file that was active at the last durable point, and its length then
    durable_file: usize,
    durable_len: usize,
    /// number of records acknowledged at the last durable point
    durable_records: usize,
}

fn log_files_of(files: Vec<(String, Vec<u8>)>) -> Vec<(String, Vec<u8>)> {
    let mut v: Vec<(u64, String, Vec<u8>)> = files.into_iter().filter_map(|(n, b)| seq_of(&n).map(|s| (s, n, b))).collect();
    v.sort_by_key(|x| x.0);
    v.into_iter().map(|(_, n, b)| (n, b)).collect()
}

fn record_async(c: &ACrashCase) -> Result<ARecording, Failure> {
    let sig = "c06/async";
    let rt = runtime()?;
    let scratch = scratch_dir();
    let wdir = scratch.path().join("wal");
    let cfg = config(c.mode, c.max_log_size);
    let open = |rt: &tokio::runtime::Runtime| werr(sig, "open", guard("AsyncWalManager::with_config", || rt.block_on(AsyncWalManager::with_config(&wdir, cfg.clone()))));
    let mut wal = Some(open(&rt)?);
    let mut raw: Vec<Item> = Vec::new();
    let mut tx = 0u64;
    let mut durable: Option<(Vec<(String, Vec<u8>)>, usize)> = None;
    for (si, st) in c.steps.iter().enumerate() {
        let w = wal.as_ref().unwrap();
        let mut is_durable = false;
        let log = |rec: WalRecord, raw: &mut Vec<Item>| -> Result<(), Failure> {
            werr(sig, "log", guard("log", || rt.block_on(w.log(&rec))))?;
            raw.push(item_of(&rec));
            Ok(())
        };
        match st {
            CStep::Log(r) => {
                log(to_record(r), &mut raw)?;
                is_durable = c.mode == XMode::BatchEvery;
            }
            CStep::Commit => {
                tx += 1;
                log(WalRecord::TxCommit { tx_id: TxId::new(tx) }, &mut raw)?;
                // "Sync: fsync after every commit"
                is_durable = matches!(c.mode, XMode::BatchEvery | XMode::Sync);
            }
            CStep::Abort => {
                tx += 1;
                log(WalRecord::TxAbort { tx_id: TxId::new(tx) }, &mut raw)?;
                is_durable = c.mode == XMode::BatchEvery;
            }
            CStep::Sync => {
                werr(sig, "sync", guard("sync", || rt.block_on(w.sync())))?;
                is_durable = true;
            }
            CStep::Flush => werr(sig, "flush", guard("flush", || rt.block_on(w.flush())))?,
            CStep::Checkpoint => {
                tx += 1;
                log(WalRecord::TxCommit { tx_id: TxId::new(tx) }, &mut raw)?;
                werr(sig, "checkpoint", guard("checkpoint", || rt.block_on(w.checkpoint(TxId::new(tx), EpochId::new(0)))))?;
                raw.push(item_of(&WalRecord::Checkpoint { tx_id: TxId::new(tx) }));
                is_durable = true;
            }
            CStep::Rotate => werr(sig, "rotate", guard("rotate", || rt.block_on(w.rotate())))?,
            CStep::Reopen => {
                tx += 1;
                log(WalRecord::TxCommit { tx_id: TxId::new(tx) }, &mut raw)?;
                werr(sig, "sync", guard("sync", || rt.block_on(w.sync())))?;
                let old = wal.take();
                guard("drop", move || drop(old))?;
                wal = Some(open(&rt)?);
                is_durable = true;
            }
        }
        if is_durable {
            // a successful sync / checkpoint / close acknowledges everything logged so far: it is in the files
            let files = log_files_of(read_dir_files(&wdir));
            let disk = disk_stream(&files);
            if disk != raw {
                return fail(
                    "c06/async/acknowledged-records-not-in-files-at-durable-point",
                    format!(
                        "step {si} ({st:?} under {:?}, max_log_size {}) is a durable point, but the files do not hold the records acknowledged so far: files vs acknowledged: {}",
                        c.mode,
                        c.max_log_size,
                        first_diff(&disk, &raw)
                    ),
                );
            }
            durable = Some((files, raw.len()));
        }
    }
    // the process dies here; what it had handed to the OS is what a flush leaves in the files (a flush is no durable
    // point: every byte behind the last durable point may or may not have reached the disk)
    let w = wal.as_ref().unwrap();
    werr(sig, "flush", guard("flush", || rt.block_on(w.flush())))?;
    let files = log_files_of(read_dir_files(&wdir));
    let disk = disk_stream(&files);
    if disk != raw {
        return fail(
            "c06/async/flushed-records-not-in-files",
            format!("after the final flush ({:?}, max_log_size {}) files vs acknowledged: {}", c.mode, c.max_log_size, first_diff(&disk, &raw)),
        );
    }
    let old = wal.take();
    guard("drop", move || drop(old))?;
    guard("drop runtime", move || drop(rt))?;
    let (durable_file, durable_len, durable_records) = match &durable {
        None => (0, 0, 0),
        Some((dfiles, n)) => {
            // append-only: what was there at the durable point is a prefix of what is there now
            for (i, (name, bytes)) in dfiles.iter().enumerate() {
                let now = files.get(i);
                if now.is_none_or(|(n2, b2)| n2 != name || !b2.starts_with(bytes)) {
                    return fail("c06/async/synced-bytes-changed", format!("{name}: the bytes present at the last durable point are not a prefix of the file at the crash"));
                }
            }
            let j = dfiles.len().saturating_sub(1);
            (j, dfiles.last().map_or(0, |f| f.1.len()), *n)
        }
    };
    Ok(ARecording { raw, files, durable_file, durable_len, durable_records })
}

/// A crash image: file `j` cut to `len`, earlier files whole, later files absent (`rotated_empty`: file `j + 1` present
/// and empty), optionally a stale temp file of a checkpoint.
#[derive(Debug, Clone)]
struct AImage {
    kind: &'static str,
    j: usize,
    len: usize,
    rotated_empty: bool,
    tmp: Option<Vec<u8>>,
    cont: bool,
}

fn build_aimages(rec: &ARecording, thorough: bool, want_cont: bool) -> Vec<AImage> {
    let mut cuts: Vec<(usize, usize)> = Vec::new();
    for j in rec.durable_file..rec.files.len() {
        let start = if j == rec.durable_file { rec.durable_len.min(rec.files[j].1.len()) } else { 0 };
        for l in start..=rec.files[j].1.len() {
            cuts.push((j, l));
        }
    }
    let max_exh = if thorough { 4096 } else { 1024 };
    let stride = cuts.len().div_ceil(max_exh).max(1);
    let mut chosen: Vec<(usize, usize)> = cuts.iter().copied().step_by(stride).collect();
    if stride > 1 {
        // record boundaries (and the byte in front of each) are always included
        for j in rec.durable_file..rec.files.len() {
            let start = if j == rec.durable_file { rec.durable_len } else { 0 };
            for (_, end, _) in parse_log(&rec.files[j].1) {
                if end > start {
                    chosen.push((j, end - 1));
                    chosen.push((j, end));
                }
            }
        }
        if let Some(last) = cuts.last() {
            chosen.push(*last);
        }
        chosen.sort_unstable();
        chosen.dedup();
    }
    let cont_every = if thorough { 4 } else { (chosen.len() / 24).max(1) };
    let mut v: Vec<AImage> = chosen
        .iter()
        .enumerate()
        .map(|(i, (j, len))| AImage { kind: "truncate", j: *j, len: *len, rotated_empty: false, tmp: None, cont: want_cont && i % cont_every == 0 })
        .collect();
    let last_j = rec.files.len() - 1;
    let last_len = rec.files[last_j].1.len();
    // a freshly rotated empty file behind every whole file, and behind a cut in the middle of the tail
    for j in rec.durable_file..rec.files.len() {
        let full = rec.files[j].1.len();
        v.push(AImage { kind: "rotated-empty", j, len: full, rotated_empty: true, tmp: None, cont: want_cont });
    }
    let mid_start = if last_j == rec.durable_file { rec.durable_len.min(last_len) } else { 0 };
    v.push(AImage { kind: "rotated-empty", j: last_j, len: mid_start + (last_len - mid_start) / 2, rotated_empty: true, tmp: None, cont: false });
    // a checkpoint temp file left behind (the directory may have been written by the synchronous manager before)
    for (k, t) in [Vec::new(), vec![0xffu8; 7], vec![0u8; 40]].into_iter().enumerate() {
        v.push(AImage { kind: "stale-tmp", j: last_j, len: last_len, rotated_empty: false, tmp: Some(t), cont: want_cont && k == 1 });
    }
    v
}

/// Brings `dir` to the image. All log contents are prefixes of the recorded files, so the length identifies the
/// content: `state` remembers what the directory currently holds and only what differs is rewritten.
fn materialize_aimage(dir: &Path, rec: &ARecording, img: &AImage, state: &mut BTreeMap<String, usize>) -> std::io::Result<()> {
    std::fs::create_dir_all(dir)?;
    let mut want: BTreeMap<String, usize> = BTreeMap::new();
    for (i, (name, bytes)) in rec.files.iter().enumerate() {
        if i < img.j {
            want.insert(name.clone(), bytes.len());
        } else if i == img.j {
            want.insert(name.clone(), img.len);
        }
    }
    let next_name = {
        let s = seq_of(&rec.files[img.j].0).unwrap_or(0) + 1;
        format!("wal_{s:08}.log")
    };
    if img.rotated_empty {
        want.insert(next_name, 0);
    }
    let stale: Vec<String> = state.keys().filter(|n| !want.contains_key(*n)).cloned().collect();
    for n in stale {
        let _ = std::fs::remove_file(dir.join(&n));
        state.remove(&n);
    }
    for (name, len) in &want {
        if state.get(name) == Some(len) {
            continue;
        }
        let content: &[u8] = rec.files.iter().find(|(n, _)| n == name).map_or(&[][..], |(_, b)| &b[..*len]);
        std::fs::write(dir.join(name), content)?;
        state.insert(name.clone(), *len);
    }
    let tmp = dir.join("checkpoint.meta.tmp");
    match &img.tmp {
        Some(t) => std::fs::write(&tmp, t)?,
        None => {
            let _ = std::fs::remove_file(&tmp);
        }
    }
    Ok(())
}

pub fn check_acrash_case(c: &ACrashCase, pool: &WorkerPool, ctr: &Counters, thorough: bool) -> CaseResult {
    let rec = record_async(c)?;
    if rec.files.is_empty() {
        return fail("c06/async/no-log-file", "the WAL directory holds no log file at the crash");
    }
    let images = build_aimages(&rec, thorough, !c.cont.is_empty());
    let root = scratch_dir();
    let shared = root.path().join("img");
    let mut state: BTreeMap<String, usize> = BTreeMap::new();
    let mut specific: Option<Failure> = None;
    let mut any_torn = false;
    let mut any_mix = false;
    let io = |e: std::io::Error| Failure { signature: "infra/scratch-io".into(), what: e.to_string() };
    for (n, img) in images.iter().enumerate() {
        // images with a continuation are written to (and removed with) a directory of their own
        let dir = if img.cont {
            let d = root.path().join(format!("cont{n}"));
            materialize_aimage(&d, &rec, img, &mut BTreeMap::new()).map_err(io)?;
            d
        } else {
            materialize_aimage(&shared, &rec, img, &mut state).map_err(io)?;
            shared.clone()
        };
        let req = XReq { dir: dir.to_string_lossy().to_string(), max_log_size: c.max_log_size, mode: c.mode, cont: img.cont.then(|| c.cont.clone()) };
        let rep = call_worker(pool, &req, ctr);
        if img.cont {
            let _ = std::fs::remove_dir_all(&dir);
        }
        let ctx = format!(
            "[{} image: {} cut to {} of {} bytes, {} later file(s) absent{}; {:?}, max_log_size {}]",
            img.kind,
            rec.files[img.j].0,
            img.len,
            rec.files[img.j].1.len(),
            rec.files.len() - 1 - img.j,
            if img.rotated_empty { ", next file present and empty" } else { "" },
            c.mode,
            c.max_log_size
        );
        let rep = rep.map_err(|f| Failure { signature: f.signature, what: format!("{ctx} {}", f.what) })?;
        ctr.images.fetch_add(1, Ordering::Relaxed);
        if let Some((sig, what)) = &rep.err {
            return fail(sig.clone(), format!("{ctx} {what}"));
        }
        // the intact records of the image, by the independent reader: a prefix of what was acknowledged
        let intact: Vec<Item> = rec.files[..img.j]
            .iter()
            .map(|(_, b)| &b[..])
            .chain(std::iter::once(&rec.files[img.j].1[..img.len]))
            .flat_map(|b| parse_log(b).into_iter().map(|(_, _, r)| item_of(&r)))
            .collect();
        let k = intact.len();
        if k > rec.raw.len() || intact[..] != rec.raw[..k] {
            return fail("c06/harness", format!("{ctx} the image is not a prefix of the acknowledged records"));
        }
        let cut_end = parse_log(&rec.files[img.j].1[..img.len]).last().map_or(0, |p| p.1);
        let torn = cut_end < img.len;
        if torn {
            any_torn = true;
            ctr.torn.fetch_add(1, Ordering::Relaxed);
        }
        if img.kind != "truncate" || img.j > rec.durable_file {
            any_mix = true;
            ctr.mixes.fetch_add(1, Ordering::Relaxed);
        }
        let Some(got) = &rep.rec1 else { return fail("c06/harness", "no records in reply") };
        let want = model_recover(&rec.raw[..k]);
        // lower bound of the statement: everything committed in front of the last durable point
        let must = model_recover(&rec.raw[..rec.durable_records.min(k)]);
        if *got != want {
            let is_prefix = got.len() <= want.len() && want[..got.len()] == got[..];
            let sig = if !is_prefix {
                "c06/async/not-a-prefix"
            } else if got.len() < must.len() {
                "c06/async/durable-records-lost"
            } else {
                "c06/async/committed-records-dropped"
            };
            return fail(sig, format!("{ctx} {k} intact records, torn tail: {torn}; committed-in-the-image vs recovered: {}", first_diff(&want, got)));
        }
        if got.len() < must.len() {
            return fail("c06/harness", format!("{ctx} lower bound above the exact answer"));
        }
        if img.cont {
            ctr.conts.fetch_add(1, Ordering::Relaxed);
            let Some(got2) = &rep.rec2 else { return fail("c06/harness", "continuation reply incomplete") };
            let mut raw2: Vec<Item> = rec.raw[..k].to_vec();
            raw2.push(item_of(&WalRecord::TxAbort { tx_id: TxId::new(CONT_TX) }));
            raw2.extend(c.cont.iter().map(|r| item_of(&to_record(r))));
            raw2.push(item_of(&WalRecord::TxCommit { tx_id: TxId::new(CONT_TX) }));
            let want2 = model_recover(&raw2);
            if *got2 != want2 {
                let what = format!("{ctx} continuation of {} records, torn tail: {torn}: expected vs recovered: {}", c.cont.len(), first_diff(&want2, got2));
                if torn && *got2 == want {
                    if specific.is_none() {
                        specific = Some(Failure {
                            signature: "c06/async/writes-after-torn-tail-lost".into(),
                            what: format!(
                                "{what}; everything written after the recovery is gone: AsyncWalManager::with_config appends behind the torn \
                                 bytes, and replay stops in front of them"
                            ),
                        });
                    }
                } else {
                    return fail("c06/async/continuation-mismatch", what);
                }
            }
        }
    }
    if let Some(f) = specific {
        return Err(f);
    }
    let class = format!(
        "{}{}",
        if rec.files.len() > 1 { "multi-file" } else { "single-file" },
        match c.mode {
            XMode::Sync => "/sync",
            XMode::BatchN(_) | XMode::BatchTimed(_) => "/batch-n",
            XMode::BatchEvery => "/batch-every-record",
            XMode::Adaptive => "/adaptive",
            XMode::NoSync => "/nosync",
        }
    );
    ok(any_torn || any_mix, class, hash_dbg(c))
}

// ------------------------------------------------------------------------------------------------
// Registration
// ------------------------------------------------------------------------------------------------

pub fn run_c05(r: &mut Run) {
    r.rule.push_str(
        " async_wal_manager: AsyncWalManager under a current-thread tokio runtime; max_log_size 64 B (rotation at every record) \
         .. 4 KiB, ~100 KiB and 64 MiB (30%: never rotates by size); all durability modes incl. clock-driven Batch (10%); one \
         checkpoint in four carries a positive epoch (old files may be retired: suffix oracle). Non-trivial = records logged \
         after a checkpoint or reopen; classes show rotation / retirement / big values / mode. wal_flusher: WalManager with a \
         running AdaptiveFlusher (0, 1, 2 ms), 1-3 sessions ended by shutdown / double shutdown / drop of the flusher, every \
         case run `reps` times; non-trivial = at least 2 data records.",
    );
    r.assumptions.push(
        "async_wal_manager: the manager is driven the way GrafeoDB drives the synchronous one (commit marker before every \
         checkpoint; abort marker = the pending records are dropped); a checkpoint with a positive epoch declares everything \
         logged before it dispensable (recovery may return any suffix of the committed stream that still holds everything \
         behind that checkpoint); the differential with WalManager uses full replay (recover_from_checkpoint(None)) and is \
         asserted for cases without a positive-epoch checkpoint"
            .into(),
    );
    r.assumptions.push(
        "wal_flusher: no checkpoints (rotation + checkpoint + recover() is the listed C05 finding of the synchronous manager); \
         the only oracle facts are schedule-independent: files after shutdown/drop of the flusher == acknowledged records, \
         recovery == committed records, consistency of FlusherStats"
            .into(),
    );
    let thorough = r.is_thorough();
    let max_steps = if thorough { 120 } else { 40 };
    r.subcheck("async_wal_manager", r.cases(2000, 100_000), move || async_case_strategy(max_steps), check_async_case);
    let (fsteps, reps) = if thorough { (60, 4) } else { (24, 2) };
    r.subcheck("wal_flusher", r.cases(600, 20_000), move || flusher_case_strategy(fsteps, reps), check_flusher_case);
}

pub fn run_c06(r: &mut Run, pool: &WorkerPool, ctr: &Counters) {
    r.rule.push_str(
        " async_crash_images: per generated step sequence on an AsyncWalManager (deterministic durability modes; records, \
         commit / abort markers, sync, flush, checkpoint, rotate, clean close+reopen; crash after a final flush) the images \
         are: the byte stream of the log files cut at every byte behind the last durable point (exhaustive up to 1 KiB quick / \
         4 KiB thorough, strided beyond, record boundaries always; files behind the cut absent), a freshly rotated empty file \
         behind every whole file and behind a mid-tail cut, a stale checkpoint.meta.tmp (empty / garbage); continuation \
         (reopen with AsyncWalManager, abort marker, records, commit, sync, recover) on a strided subset. Non-trivial = a cut \
         strictly inside a record, a cut in a file behind the durable one, or a rotation / temp-file image.",
    );
    r.assumptions.push(
        "async_crash_images: durable points are sync(), checkpoint(), clean close, a commit marker under Sync and every record \
         under Batch{0 ms, 1}; fsyncs triggered by Batch{max_records} are not counted (weaker lower bound, never stronger); the \
         crash model is a prefix of the byte stream the process wrote (earlier files whole); the continuation writes the abort \
         marker GrafeoDB writes after a recovery"
            .into(),
    );
    let thorough = r.is_thorough();
    let (max_steps, max_cont) = if thorough { (40, 8) } else { (16, 4) };
    r.subcheck("async_crash_images", r.cases(128, 4000), move || acrash_case_strategy(max_steps, max_cont), |c: &ACrashCase| {
        check_acrash_case(c, pool, ctr, thorough)
    });
}
