//! Harness-owned scheduler for C20 (hooks H2/H3).
//!
//! `run_controlled(n, schedule, bodies)` runs `n` logical threads on real OS threads but lets only one of them
//! run at a time. Control changes hands only at yield points: the `sched_point("…")` calls placed in grafeo
//! between critical sections (never while a lock is held), and the `Yielder::point("op")` calls the bodies
//! make between operations. At every yield point the next thread is chosen by the next byte of the generated
//! schedule (`runnable[b % runnable.len()]`); when the schedule is exhausted the current thread keeps running.
//! The run is therefore a pure function of (bodies, schedule).
//!
//! The grafeo-side callback is global; it looks the controller up in a thread-local, so threads that do not
//! belong to a controlled run (other shards of the driver) are not affected.

use std::cell::RefCell;
use std::sync::{Arc, Condvar, Mutex, Once};
use std::time::Duration;

pub struct Controller {
    st: Mutex<St>,
    cv: Condvar,
}

struct St {
    current: usize,
    finished: Vec<bool>,
    schedule: Vec<u8>,
    pos: usize,
    /// switches of the running thread at a yield point inside an operation (not at an op boundary)
    interior_preemptions: u32,
    switches: u32,
    yields: u32,
    trace: Vec<(u8, &'static str)>,
    stalled: bool,
}

thread_local! {
    static CTRL: RefCell<Option<(Arc<Controller>, usize)>> = const { RefCell::new(None) };
}

static INSTALL: Once = Once::new();

fn install() {
    INSTALL.call_once(|| {
        grafeo_common::verif::set_scheduler(Some(Arc::new(|name: &'static str| {
            let c = CTRL.with(|c| c.borrow().clone());
            if let Some((ctrl, tid)) = c {
                ctrl.yield_point(tid, name, true);
            }
        })));
    });
}

const STALL: Duration = Duration::from_secs(120);

impl Controller {
    fn pick_next(st: &mut St, me: usize, me_runnable: bool) -> Option<usize> {
        let runnable: Vec<usize> = (0..st.finished.len()).filter(|t| !st.finished[*t] && (me_runnable || *t != me)).collect();
        if runnable.is_empty() {
            return None;
        }
        if st.pos < st.schedule.len() {
            let b = st.schedule[st.pos] as usize;
            st.pos += 1;
            Some(runnable[b % runnable.len()])
        } else if me_runnable {
            Some(me)
        } else {
            Some(runnable[0])
        }
    }

    fn wait_turn(&self, mut st: std::sync::MutexGuard<'_, St>, me: usize) {
        while st.current != me && !st.stalled {
            let (g, to) = self.cv.wait_timeout(st, STALL).unwrap();
            st = g;
            if to.timed_out() && st.current != me {
                // give up control: every thread runs free from here on; the run is reported as stalled
                st.stalled = true;
                self.cv.notify_all();
            }
        }
    }

    pub fn yield_point(&self, me: usize, name: &'static str, interior: bool) {
        let mut st = self.st.lock().unwrap();
        if st.stalled {
            return;
        }
        st.yields += 1;
        if st.trace.len() < 400 {
            st.trace.push((me as u8, name));
        }
        let next = Self::pick_next(&mut st, me, true).unwrap_or(me);
        if next != me {
            st.switches += 1;
            if interior {
                st.interior_preemptions += 1;
            }
            st.current = next;
            self.cv.notify_all();
            self.wait_turn(st, me);
        }
    }

    fn start(&self, me: usize) {
        let st = self.st.lock().unwrap();
        self.wait_turn(st, me);
    }

    fn finish(&self, me: usize) {
        let mut st = self.st.lock().unwrap();
        st.finished[me] = true;
        if let Some(next) = Self::pick_next(&mut st, me, false) {
            st.current = next;
        }
        self.cv.notify_all();
    }
}

/// Handed to each body for op-boundary yields.
pub struct Yielder {
    ctrl: Arc<Controller>,
    tid: usize,
}

impl Yielder {
    pub fn point(&self, name: &'static str) {
        self.ctrl.yield_point(self.tid, name, false);
    }
}

pub struct RunInfo {
    pub interior_preemptions: u32,
    pub switches: u32,
    pub yields: u32,
    pub stalled: bool,
    pub trace: Vec<(u8, &'static str)>,
}

pub type Body<T> = Box<dyn FnOnce(&Yielder) -> T + Send + 'static>;

/// Runs the bodies under the schedule. A body that panics yields `Err(message)` for that thread.
pub fn run_controlled<T: Send + 'static>(schedule: &[u8], bodies: Vec<Body<T>>) -> (Vec<Result<T, String>>, RunInfo) {
    install();
    let n = bodies.len();
    let first = if schedule.is_empty() { 0 } else { schedule[0] as usize % n.max(1) };
    let ctrl = Arc::new(Controller {
        st: Mutex::new(St {
            current: first,
            finished: vec![false; n],
            schedule: schedule.iter().skip(1).copied().collect(),
            pos: 0,
            interior_preemptions: 0,
            switches: 0,
            yields: 0,
            trace: Vec::new(),
            stalled: false,
        }),
        cv: Condvar::new(),
    });
    let mut handles = Vec::new();
    for (tid, body) in bodies.into_iter().enumerate() {
        let ctrl = Arc::clone(&ctrl);
        handles.push(std::thread::spawn(move || {
            CTRL.with(|c| *c.borrow_mut() = Some((Arc::clone(&ctrl), tid)));
            ctrl.start(tid);
            let y = Yielder { ctrl: Arc::clone(&ctrl), tid };
            let r = crate::driver::catch(|| body(&y));
            CTRL.with(|c| *c.borrow_mut() = None);
            ctrl.finish(tid);
            r.map_err(|p| format!("{}\t{}", p.signature(), p.msg))
        }));
    }
    let mut out = Vec::new();
    for h in handles {
        out.push(match h.join() {
            Ok(r) => r,
            Err(_) => Err("panic@<thread>:join failed".to_string()),
        });
    }
    let st = ctrl.st.lock().unwrap();
    let info = RunInfo {
        interior_preemptions: st.interior_preemptions,
        switches: st.switches,
        yields: st.yields,
        stalled: st.stalled,
        trace: st.trace.clone(),
    };
    (out, info)
}

/// All interleavings of `lens.len()` sequences (given by their lengths) that preserve each sequence's order;
/// each interleaving is a list of (thread, index-in-thread).
pub fn interleavings(lens: &[usize]) -> Vec<Vec<(usize, usize)>> {
    fn rec(lens: &[usize], pos: &mut Vec<usize>, cur: &mut Vec<(usize, usize)>, out: &mut Vec<Vec<(usize, usize)>>) {
        if pos.iter().zip(lens).all(|(p, l)| p == l) {
            out.push(cur.clone());
            return;
        }
        for t in 0..lens.len() {
            if pos[t] < lens[t] {
                cur.push((t, pos[t]));
                pos[t] += 1;
                rec(lens, pos, cur, out);
                pos[t] -= 1;
                cur.pop();
            }
        }
    }
    let mut out = Vec::new();
    rec(lens, &mut vec![0; lens.len()], &mut Vec::new(), &mut out);
    out
}
