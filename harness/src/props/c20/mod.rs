//! C20 — concurrent use is safe: no lost writes, duplicate ids or torn indexes.
//!
//! Controlled mode (hooks H2/H3, `sched.rs`): 2–3 logical threads, each a short generated op sequence on shared
//! entities, plus a generated schedule. The harness owns the interleaving at the granularity of the critical
//! sections inside each operation. Oracle: linearizability — the return value of every operation and the final
//! observable state (C14's full battery: label index, adjacency both directions, degrees, property index vs scan,
//! min/max pruning, counts, deleted ids; for RDF all eight pattern shapes through every index) must equal what
//! *some* sequential order of the operations (preserving each thread's program order) produces on the reference
//! model; all such orders are enumerated.
//!
//! Sub-checks: `lpg` (LpgStore), `rdf` (RdfStore, insert/remove of the same triples), `buffer` (BufferManager:
//! never more than the hard limit, accounting returns to zero), `free` (uncontrolled: real threads on one GrafeoDB
//! behind a barrier, repeated; ids unique, acknowledged creations visible, derived structures agree with the
//! primary data at quiescence, commit epochs unique and increasing, no panic, terminates).
//!
//! Further uncontrolled sub-checks cover the shared components the schedule hooks do not reach (each in its own
//! file, plumbing in `free_util.rs`): `free_sessions` (sessions executing GQL / Cypher on one database; plan cache),
//! `free_wal` (WalManager: log / sync / rotate / checkpoint, recovery at the end), `free_hnsw` (HnswIndex),
//! `free_catalog`, `free_arena`, `free_grant` (MemoryGrant resize / split / merge on one BufferManager) and
//! `free_cache` (QueryCache) in `free_misc.rs`.

mod free_hnsw;
mod free_misc;
mod free_sessions;
mod free_util;
mod free_wal;
mod sched;

use std::collections::{BTreeMap, BTreeSet};
use std::sync::{Arc, Barrier, Mutex};

use grafeo_common::memory::buffer::{BufferManager, BufferManagerConfig, MemoryRegion};
use grafeo_common::types::{EdgeId, NodeId, Value};
use grafeo_core::graph::lpg::{LpgStore, LpgStoreConfig};
use grafeo_core::graph::rdf::{RdfStore, RdfStoreConfig, Term, Triple, TriplePattern};
use grafeo_engine::GrafeoDB;
use proptest::prelude::*;
use serde::{Deserialize, Serialize};

use crate::driver::{CaseResult, Failure, Run, fail, guard, hash_dbg, ok, pick};

use crate::props::c14::model::{KEYS, LABELS, TYPES};
use crate::props::c14::{self, Cmd, EdgeMode, IdMap, MEdge, MNode, Model, Op, Outcome, Tgt, apply_model, apply_store, battery, check_outcome};

use sched::{Body, interleavings, run_controlled};

// ------------------------------------------------------------------------------------------------
// lpg
// ------------------------------------------------------------------------------------------------

#[derive(Clone, Debug, Serialize, Deserialize)]
pub struct LpgCase {
    pub backward: bool,
    pub setup: Vec<Op>,
    pub index_key: Option<u8>,
    pub threads: Vec<Vec<Op>>,
    pub schedule: Vec<u8>,
}

fn live() -> impl Strategy<Value = Tgt> {
    any::<u16>().prop_map(|i| Tgt { i, k: 0 })
}

/// Small ints and two strings: values far away from C14's float / 2^53 findings.
fn tame_value() -> impl Strategy<Value = c14::V> {
    prop_oneof![3 => (0i64..4).prop_map(c14::V::Int), 1 => Just(c14::V::Str("a".into())), 1 => Just(c14::V::Str("b".into()))]
}

fn props() -> impl Strategy<Value = Vec<(u8, c14::V)>> {
    proptest::collection::vec((0u8..2, tame_value()), 0..=2)
}

/// The setup only ever uses labels A, B and edge type R: label C and type S are first used by the concurrent
/// threads, so their interning (name -> id) can race.
fn setup_op() -> impl Strategy<Value = Op> {
    prop_oneof![
        5 => (proptest::collection::vec(0u8..2, 0..=2), props()).prop_map(|(labels, props)| Op::CreateNode { labels, props }),
        4 => (live(), live()).prop_map(|(src, dst)| Op::CreateEdge { src, dst, ty: 0, mode: EdgeMode::Normal, props: Vec::new() }),
        1 => (live(), 0u8..2).prop_map(|(t, label)| Op::AddLabel { t, label }),
    ]
}

/// Concurrent ops: all aimed at the (few) entities that exist after the setup, so that threads collide.
fn thread_op() -> impl Strategy<Value = Op> {
    prop_oneof![
        3 => (prop_oneof![2 => proptest::collection::vec(0u8..3, 0..=2), 1 => Just(vec![2u8])], props()).prop_map(|(labels, props)| Op::CreateNode { labels, props }),
        3 => live().prop_map(|t| Op::DeleteNode { t }),
        // DETACH DELETE is two store calls (delete_node_edges, delete_node), not one operation: not generated here
        4 => (live(), live(), 0u8..2).prop_map(|(src, dst, ty)| Op::CreateEdge { src, dst, ty, mode: EdgeMode::Normal, props: Vec::new() }),
        3 => live().prop_map(|t| Op::DeleteEdge { t }),
        4 => (live(), 0u8..2, tame_value()).prop_map(|(t, key, val)| Op::SetNodeProp { t, key, val }),
        2 => (live(), 0u8..2).prop_map(|(t, key)| Op::RemoveNodeProp { t, key }),
        4 => (live(), prop_oneof![1 => 0u8..3, 1 => Just(2u8)]).prop_map(|(t, label)| Op::AddLabel { t, label }),
        3 => (live(), 0u8..3).prop_map(|(t, label)| Op::RemoveLabel { t, label }),
    ]
}

fn lpg_strategy(max_threads: usize, max_ops: usize) -> impl Strategy<Value = LpgCase> {
    (
        any::<bool>(),
        proptest::collection::vec(setup_op(), 1..8),
        proptest::option::of(0u8..2),
        proptest::collection::vec(proptest::collection::vec(thread_op(), 1..=max_ops), 2..=max_threads),
        proptest::collection::vec(any::<u8>(), 0..24),
    )
        .prop_map(|(backward, setup, index_key, threads, schedule)| LpgCase { backward, setup, index_key, threads, schedule })
}

#[derive(Clone, Debug)]
struct Got {
    outcome: Outcome,
    created_node: Option<NodeId>,
    created_edge: Option<EdgeId>,
}

fn run_lpg(c: &LpgCase) -> CaseResult {
    run_lpg_with(c, &c.schedule)
}

/// Two threads, every schedule: all 2^depth choice sequences at the first `depth` yield points are run
/// (beyond them the running thread continues), so the interleavings of the two programs at the instrumented
/// granularity are enumerated completely for programs with at most `depth` yield points.
fn run_lpg_all_schedules(c: &LpgCase, depth: u32) -> CaseResult {
    let mut last = None;
    let mut nontrivial = false;
    let mut known: BTreeSet<String> = BTreeSet::new();
    for bits in 0u32..(1u32 << depth) {
        let schedule: Vec<u8> = (0..depth).map(|i| ((bits >> i) & 1) as u8).collect();
        match run_lpg_with(c, &schedule) {
            Ok(okc) => {
                nontrivial |= okc.nontrivial;
                known.extend(okc.known.iter().cloned());
                last = Some(okc);
            }
            Err(f) => return Err(Failure { signature: f.signature, what: format!("schedule {schedule:?}: {}", f.what) }),
        }
    }
    let mut okc = last.expect("at least one schedule");
    okc.nontrivial = nontrivial;
    okc.class = format!("all-{}-schedules", 1u32 << depth);
    okc.known = known.into_iter().collect();
    Ok(okc)
}

fn run_lpg_with(c: &LpgCase, schedule: &[u8]) -> CaseResult {
    let store = Arc::new(if c.backward {
        LpgStore::new()
    } else {
        LpgStore::with_config(LpgStoreConfig { backward_edges: false, ..LpgStoreConfig::default() })
    });
    let mut model = Model::new(c.backward);
    let mut ids = IdMap::new();
    // the setup must create at least two nodes so that threads have something to share
    let mut setup = vec![
        Op::CreateNode { labels: vec![0], props: vec![] },
        Op::CreateNode { labels: vec![1], props: vec![] },
    ];
    setup.extend(c.setup.iter().cloned());
    if let Some(k) = c.index_key {
        setup.push(Op::CreateIndex { key: k });
    }
    for op in &setup {
        c14::step(&store, &mut model, &mut ids, op).map_err(|f| Failure { signature: format!("c20/setup/{}", f.signature), what: f.what })?;
    }
    // resolve every thread op against the post-setup state
    let cmds: Vec<Vec<Cmd>> = c.threads.iter().map(|t| t.iter().map(|op| model.resolve(op)).collect()).collect();
    let n_ops: usize = cmds.iter().map(Vec::len).sum();
    if n_ops > 9 {
        return ok(false, "skipped-too-many-ops", hash_dbg(c));
    }
    let bodies: Vec<Body<Result<Vec<Got>, Failure>>> = cmds
        .iter()
        .map(|my| {
            let store = Arc::clone(&store);
            let my = my.clone();
            let mut local = ids.clone();
            Box::new(move |y: &sched::Yielder| {
                let mut out = Vec::new();
                for cmd in &my {
                    y.point("op");
                    let o = apply_store(&store, cmd, &mut local)?;
                    let (cn, ce) = match (&o, cmd) {
                        (Outcome::Created(m), Cmd::CreateNode { .. }) => (Some(local.node(*m)), None),
                        (Outcome::Created(m), Cmd::CreateEdge { .. }) => (None, Some(local.edge(*m))),
                        _ => (None, None),
                    };
                    out.push(Got { outcome: o, created_node: cn, created_edge: ce });
                }
                Ok(out)
            }) as Body<Result<Vec<Got>, Failure>>
        })
        .collect();
    let (results, info) = run_controlled(schedule, bodies);
    if info.stalled {
        return fail("c20/lpg/stall", format!("no progress for 120 s; trace {:?}", info.trace));
    }
    let mut gots: Vec<Vec<Got>> = Vec::new();
    for r in results {
        match r {
            Ok(Ok(g)) => gots.push(g),
            Ok(Err(f)) => return Err(Failure { signature: format!("c20/lpg/{}", f.signature), what: format!("{}; trace {:?}", f.what, info.trace) }),
            Err(p) => {
                let sig = p.split('\t').next().unwrap_or("panic").to_string();
                return fail(sig, format!("thread panicked: {p}; trace {:?}", info.trace));
            }
        }
    }
    // ids handed out must be unique
    let mut seen_n = BTreeSet::new();
    let mut seen_e = BTreeSet::new();
    for g in gots.iter().flatten() {
        if let Some(n) = g.created_node {
            if !seen_n.insert(n.as_u64()) || ids.rnodes.contains_key(&n.as_u64()) {
                return fail("c20/lpg/duplicate-node-id", format!("node id {n:?} handed out twice; trace {:?}", info.trace));
            }
        }
        if let Some(e) = g.created_edge {
            if !seen_e.insert(e.as_u64()) || ids.redges.contains_key(&e.as_u64()) {
                return fail("c20/lpg/duplicate-edge-id", format!("edge id {e:?} handed out twice; trace {:?}", info.trace));
            }
        }
    }
    // linearizability: some sequential order explains all return values and the final state
    let lens: Vec<usize> = cmds.iter().map(Vec::len).collect();
    let mut first_err: Option<Failure> = None;
    let mut ghost_explained = false;
    // per order that got as far as the battery: did it fail only on an index-path lookup?
    let mut only_index_errors: Vec<bool> = Vec::new();
    let mut tried = 0usize;
    'order: for order in interleavings(&lens) {
        tried += 1;
        let mut m = model.clone();
        let mut idm = ids.clone();
        for (t, i) in &order {
            let cmd = &cmds[*t][*i];
            let got = &gots[*t][*i];
            let exp = apply_model(&mut m, cmd);
            match (&exp, got) {
                (Outcome::Created(_), Got { created_node: Some(n), .. }) => {
                    if idm.bind_node(*n).is_err() {
                        continue 'order;
                    }
                }
                (Outcome::Created(_), Got { created_edge: Some(e), .. }) => {
                    if idm.bind_edge(*e).is_err() {
                        continue 'order;
                    }
                }
                _ => {
                    if let Err(f) = check_outcome(cmd, &got.outcome, &exp, &m) {
                        if f.signature.contains("ghost-of-deleted-id") {
                            ghost_explained = true;
                        }
                        if std::env::var("C20_DEBUG").is_ok() {
                            eprintln!("order {order:?}: outcome: {} :: {}", f.signature, f.what);
                        }
                        if first_err.is_none() {
                            first_err = Some(f);
                        }
                        continue 'order;
                    }
                }
            }
        }
        match battery(&store, &m, &idm) {
            Ok(()) => {
                let shared = shares_entity(&cmds);
                let nontrivial = info.interior_preemptions > 0 && shared;
                let class = format!(
                    "{}thr/{}{}",
                    cmds.len(),
                    if info.interior_preemptions > 0 { "interior-preemption" } else if info.switches > 0 { "op-level-switch" } else { "sequential" },
                    if shared { "/shared" } else { "" }
                );
                return ok(nontrivial, class, hash_dbg(c));
            }
            Err(f) => {
                // a sequential order whose only disagreement is C14's known sequential defect (a property written
                // to an already deleted id is stored and stays readable) explains the run up to that defect
                if f.signature.contains("ghost-of-deleted-id") {
                    ghost_explained = true;
                }
                only_index_errors.push(f.signature.contains("/indexed/"));
                if std::env::var("C20_DEBUG").is_ok() {
                    eprintln!("order {order:?}: battery: {} :: {}", f.signature, f.what);
                }
                if first_err.is_none() || tried == 1 {
                    first_err = Some(f);
                }
            }
        }
    }
    // known race: two threads write the same node property whose key is indexed; the index update and the
    // property write are separate steps, so a stale index entry can survive (only index-path lookups are wrong)
    let indexed_race = c.index_key.is_some_and(|k| {
        let writers: Vec<BTreeSet<u64>> = cmds
            .iter()
            .map(|t| {
                t.iter()
                    .filter_map(|cmd| match cmd {
                        Cmd::SetNodeProp { id, key, .. } | Cmd::RemoveNodeProp { id, key } if *key == k => Some(*id),
                        _ => None,
                    })
                    .collect()
            })
            .collect();
        (0..writers.len()).any(|i| (i + 1..writers.len()).any(|j| writers[i].intersection(&writers[j]).next().is_some()))
    });
    // some order explains everything up to an index-path lookup
    if indexed_race && only_index_errors.iter().any(|x| *x) {
        return crate::driver::ok_with_known(false, "explained-by-indexed-set-race", hash_dbg(c), vec!["c20/known/indexed-property-write-race".to_string()]);
    }
    if ghost_explained {
        return crate::driver::ok_with_known(false, "explained-by-set-on-deleted-id", hash_dbg(c), vec!["c20/known/set-property-on-deleted-id".to_string()]);
    }
    let f = first_err.unwrap_or(Failure { signature: "no-order".into(), what: String::new() });
    fail(
        format!("c20/lpg/not-linearizable:{}", f.signature),
        format!(
            "no sequential order of {:?} explains the outcome ({tried} orders tried); e.g. {}; interior preemptions {}, trace {:?}",
            cmds, f.what, info.interior_preemptions, info.trace
        ),
    )
}

fn cmd_entities(c: &Cmd) -> Vec<(bool, u64)> {
    match c {
        Cmd::DeleteNode { id } | Cmd::DetachDeleteNode { id } => vec![(false, *id)],
        Cmd::CreateEdge { src, dst, .. } => vec![(false, *src), (false, *dst)],
        Cmd::DeleteEdge { id } => vec![(true, *id)],
        Cmd::SetNodeProp { id, .. } | Cmd::RemoveNodeProp { id, .. } | Cmd::AddLabel { id, .. } | Cmd::RemoveLabel { id, .. } => vec![(false, *id)],
        Cmd::SetEdgeProp { id, .. } | Cmd::RemoveEdgeProp { id, .. } => vec![(true, *id)],
        _ => vec![],
    }
}

fn shares_entity(cmds: &[Vec<Cmd>]) -> bool {
    let sets: Vec<BTreeSet<(bool, u64)>> = cmds.iter().map(|t| t.iter().flat_map(cmd_entities).collect()).collect();
    for i in 0..sets.len() {
        for j in i + 1..sets.len() {
            if sets[i].intersection(&sets[j]).next().is_some() {
                return true;
            }
        }
    }
    false
}

// ------------------------------------------------------------------------------------------------
// rdf
// ------------------------------------------------------------------------------------------------

#[derive(Clone, Debug, Serialize, Deserialize)]
pub struct RdfCase {
    pub index_objects: bool,
    /// (insert?, triple index)
    pub setup: Vec<(bool, u8)>,
    pub threads: Vec<Vec<(bool, u8)>>,
    pub schedule: Vec<u8>,
}

/// Four triples sharing subjects, predicates and objects, so that index entries are shared between them.
fn triple(i: u8) -> Triple {
    let (s, p, o) = match i % 4 {
        0 => ("s0", "p0", "o0"),
        1 => ("s0", "p0", "o1"),
        2 => ("s0", "p1", "o0"),
        _ => ("s1", "p0", "o0"),
    };
    Triple::new(Term::iri(format!("http://v/{s}")), Term::iri(format!("http://v/{p}")), Term::iri(format!("http://v/{o}")))
}

fn rdf_strategy(max_threads: usize) -> impl Strategy<Value = RdfCase> {
    let op = (any::<bool>(), prop_oneof![5 => Just(0u8), 2 => 0u8..4]);
    (
        any::<bool>(),
        proptest::collection::vec(op.clone(), 0..4),
        proptest::collection::vec(proptest::collection::vec(op, 1..=3), 2..=max_threads),
        proptest::collection::vec(any::<u8>(), 0..24),
    )
        .prop_map(|(index_objects, setup, threads, schedule)| RdfCase { index_objects, setup, threads, schedule })
}

fn rdf_observe(store: &RdfStore) -> Result<BTreeMap<String, Vec<String>>, Failure> {
    let mut out = BTreeMap::new();
    let show = |t: &Triple| format!("{t:?}");
    let terms = |f: fn(&Triple) -> Term| -> Vec<Term> {
        let mut v: Vec<Term> = (0..4).map(|i| f(&triple(i))).collect();
        v.sort_by_key(|t| format!("{t:?}"));
        v.dedup();
        v
    };
    let subs = terms(|t| t.subject().clone());
    let preds = terms(|t| t.predicate().clone());
    let objs = terms(|t| t.object().clone());
    let mut add = |name: String, mut v: Vec<String>| {
        v.sort();
        out.insert(name, v);
    };
    add("triples".into(), guard("triples", || store.triples())?.iter().map(|t| show(t)).collect());
    add("len".into(), vec![guard("len", || store.len())?.to_string()]);
    for i in 0..4u8 {
        add(format!("contains{i}"), vec![guard("contains", || store.contains(&triple(i)))?.to_string()]);
    }
    let opt = |v: &[Term]| -> Vec<Option<Term>> {
        let mut o: Vec<Option<Term>> = vec![None];
        o.extend(v.iter().cloned().map(Some));
        o
    };
    for s in opt(&subs) {
        for p in opt(&preds) {
            for o in opt(&objs) {
                let pat = TriplePattern { subject: s.clone(), predicate: p.clone(), object: o.clone() };
                let found = guard("find", || store.find(&pat))?;
                add(format!("find({s:?},{p:?},{o:?})"), found.iter().map(|t| show(t)).collect());
            }
        }
    }
    for s in &subs {
        add(format!("with_subject({s:?})"), guard("triples_with_subject", || store.triples_with_subject(s))?.iter().map(|t| show(t)).collect());
    }
    for p in &preds {
        add(format!("with_predicate({p:?})"), guard("triples_with_predicate", || store.triples_with_predicate(p))?.iter().map(|t| show(t)).collect());
    }
    for o in &objs {
        add(format!("with_object({o:?})"), guard("triples_with_object", || store.triples_with_object(o))?.iter().map(|t| show(t)).collect());
    }
    Ok(out)
}

fn run_rdf(c: &RdfCase) -> CaseResult {
    let store = Arc::new(RdfStore::with_config(RdfStoreConfig { index_objects: c.index_objects, ..RdfStoreConfig::default() }));
    let mut base: BTreeSet<u8> = BTreeSet::new();
    for (ins, t) in &c.setup {
        let t = t % 4;
        if *ins {
            store.insert(triple(t));
            base.insert(t);
        } else {
            store.remove(&triple(t));
            base.remove(&t);
        }
    }
    let n_ops: usize = c.threads.iter().map(Vec::len).sum();
    if n_ops > 9 {
        return ok(false, "skipped-too-many-ops", hash_dbg(c));
    }
    let bodies: Vec<Body<Vec<bool>>> = c
        .threads
        .iter()
        .map(|ops| {
            let store = Arc::clone(&store);
            let ops = ops.clone();
            Box::new(move |y: &sched::Yielder| {
                let mut out = Vec::new();
                for (ins, t) in &ops {
                    y.point("op");
                    out.push(if *ins { store.insert(triple(*t)) } else { store.remove(&triple(*t)) });
                }
                out
            }) as Body<Vec<bool>>
        })
        .collect();
    let (results, info) = run_controlled(&c.schedule, bodies);
    if info.stalled {
        return fail("c20/rdf/stall", format!("no progress for 120 s; trace {:?}", info.trace));
    }
    let mut gots = Vec::new();
    for r in results {
        match r {
            Ok(g) => gots.push(g),
            Err(p) => return fail(p.split('\t').next().unwrap_or("panic").to_string(), format!("thread panicked: {p}")),
        }
    }
    let observed = rdf_observe(&store)?;
    let lens: Vec<usize> = c.threads.iter().map(Vec::len).collect();
    let mut returns_ok_somewhere = false;
    for order in interleavings(&lens) {
        let mut set = base.clone();
        let mut good = true;
        for (t, i) in &order {
            let (ins, tr) = c.threads[*t][*i];
            let tr = tr % 4;
            let exp = if ins { set.insert(tr) } else { set.remove(&tr) };
            if exp != gots[*t][*i] {
                good = false;
                break;
            }
        }
        if !good {
            continue;
        }
        returns_ok_somewhere = true;
        // the sequential reference: a fresh store driven in this order
        let reference = RdfStore::with_config(RdfStoreConfig { index_objects: c.index_objects, ..RdfStoreConfig::default() });
        for t in &set {
            reference.insert(triple(*t));
        }
        let expected = rdf_observe(&reference)?;
        if expected == observed {
            let same_triple = {
                let per: Vec<BTreeSet<u8>> = c.threads.iter().map(|t| t.iter().map(|(_, x)| x % 4).collect()).collect();
                (0..per.len()).any(|i| (i + 1..per.len()).any(|j| per[i].intersection(&per[j]).next().is_some()))
            };
            let class = format!(
                "{}thr/{}{}",
                c.threads.len(),
                if info.interior_preemptions > 0 { "interior-preemption" } else if info.switches > 0 { "op-level-switch" } else { "sequential" },
                if same_triple { "/same-triple" } else { "" }
            );
            return ok(info.interior_preemptions > 0 && same_triple, class, hash_dbg(c));
        }
    }
    // which access path disagrees with the primary set?
    let prim = observed.get("triples").cloned().unwrap_or_default();
    let mut torn: Vec<String> = Vec::new();
    for (k, v) in &observed {
        if k.starts_with("find(None,None,None)") && *v != prim {
            torn.push(k.clone());
        }
        if k.starts_with("with_") || k.starts_with("find(Some") {
            for t in v {
                if !prim.contains(t) {
                    torn.push(format!("{k} holds {t} which the primary set lacks"));
                }
            }
        }
    }
    let sig = if !returns_ok_somewhere {
        "c20/rdf/not-linearizable:return-values"
    } else if !torn.is_empty() {
        "c20/rdf/not-linearizable:index-holds-triple-the-primary-set-lacks"
    } else {
        "c20/rdf/not-linearizable:final-state"
    };
    fail(
        sig,
        format!(
            "threads {:?} (setup {:?}) returned {gots:?}; no sequential order explains the final state; torn: {torn:?}; primary {prim:?}; interior preemptions {}; trace {:?}",
            c.threads, c.setup, info.interior_preemptions, info.trace
        ),
    )
}

// ------------------------------------------------------------------------------------------------
// buffer manager
// ------------------------------------------------------------------------------------------------

#[derive(Clone, Debug, Serialize, Deserialize)]
pub struct BufCase {
    pub budget_kb: u16,
    /// per thread: (allocate? , size selector / grant selector)
    pub threads: Vec<Vec<(bool, u8)>>,
    pub schedule: Vec<u8>,
}

fn buf_strategy() -> impl Strategy<Value = BufCase> {
    (
        4u16..64,
        proptest::collection::vec(proptest::collection::vec((prop_oneof![3 => Just(true), 1 => Just(false)], any::<u8>()), 1..=4), 2..=3),
        proptest::collection::vec(any::<u8>(), 0..24),
    )
        .prop_map(|(budget_kb, threads, schedule)| BufCase { budget_kb, threads, schedule })
}

fn run_buffer(c: &BufCase) -> CaseResult {
    let budget = c.budget_kb as usize * 1024;
    let cfg = BufferManagerConfig { budget, background_eviction: false, spill_path: None, ..BufferManagerConfig::default() };
    let hard = (budget as f64 * cfg.hard_limit_fraction) as usize;
    let bm = guard("BufferManager::new", || BufferManager::new(cfg))?;
    let peak = Arc::new(Mutex::new(0usize));
    let bodies: Vec<Body<(u32, u32)>> = c
        .threads
        .iter()
        .map(|ops| {
            let bm = Arc::clone(&bm);
            let ops = ops.clone();
            let peak = Arc::clone(&peak);
            Box::new(move |y: &sched::Yielder| {
                let mut grants = Vec::new();
                let (mut granted, mut refused) = (0u32, 0u32);
                for (alloc, sel) in &ops {
                    y.point("op");
                    if *alloc {
                        // sizes between 1/8 and 5/8 of the hard limit: two concurrent requests can exceed it together
                        let size = (hard / 8) * (1 + (*sel as usize % 5));
                        match bm.try_allocate(size.max(1), MemoryRegion::ExecutionBuffers) {
                            Some(g) => {
                                granted += 1;
                                grants.push(g);
                            }
                            None => refused += 1,
                        }
                    } else if !grants.is_empty() {
                        let i = pick(u16::from(*sel) << 8, grants.len());
                        drop(grants.remove(i));
                    }
                    let now = bm.stats().total_allocated;
                    let mut p = peak.lock().unwrap();
                    if now > *p {
                        *p = now;
                    }
                }
                drop(grants);
                (granted, refused)
            }) as Body<(u32, u32)>
        })
        .collect();
    let (results, info) = run_controlled(&c.schedule, bodies);
    if info.stalled {
        return fail("c20/buffer/stall", "no progress for 120 s");
    }
    let mut granted = 0;
    let mut refused = 0;
    for r in results {
        match r {
            Ok((g, f)) => {
                granted += g;
                refused += f;
            }
            Err(p) => return fail(p.split('\t').next().unwrap_or("panic").to_string(), format!("thread panicked: {p}")),
        }
    }
    let peak = *peak.lock().unwrap();
    if peak > hard {
        return fail(
            "c20/buffer/hard-limit-exceeded",
            format!("allocated {peak} bytes at a quiescent point of a thread, hard limit {hard}; interior preemptions {}; trace {:?}", info.interior_preemptions, info.trace),
        );
    }
    let left = bm.stats().total_allocated;
    if left != 0 {
        return fail("c20/buffer/accounting-not-zero", format!("{left} bytes still accounted after every grant was dropped"));
    }
    let class = format!(
        "{}{}",
        if info.interior_preemptions > 0 { "interior-preemption" } else { "no-interior-preemption" },
        if refused > 0 { "/some-refused" } else { "" }
    );
    ok(info.interior_preemptions > 0 && granted >= 2, class, hash_dbg(c))
}

// ------------------------------------------------------------------------------------------------
// free-running threads on one GrafeoDB
// ------------------------------------------------------------------------------------------------

#[derive(Clone, Debug, Serialize, Deserialize)]
pub struct FreeCase {
    pub threads: u8,
    /// per thread a program of (kind, a, b)
    pub programs: Vec<Vec<(u8, u16, u8)>>,
    pub index_x: bool,
}

fn free_strategy() -> impl Strategy<Value = FreeCase> {
    (2u8..=4, proptest::collection::vec(proptest::collection::vec((0u8..9, any::<u16>(), 0u8..4), 4..24), 4), any::<bool>())
        .prop_map(|(threads, programs, index_x)| FreeCase { threads, programs, index_x })
}

fn run_free(c: &FreeCase) -> CaseResult {
    let db = Arc::new(GrafeoDB::new_in_memory());
    if c.index_x {
        db.create_property_index("x");
    }
    // shared starting nodes
    // shared nodes carry labels A / B only: label C is first used by the racing threads
    let shared: Vec<NodeId> = (0..3).map(|i| db.create_node_with_props(&[LABELS[i % 2]], [("x", Value::Int64(i as i64))])).collect();
    let n = (c.threads as usize).min(c.programs.len()).max(2);
    let barrier = Arc::new(Barrier::new(n));
    let mut handles = Vec::new();
    for t in 0..n {
        let db = Arc::clone(&db);
        let prog = c.programs[t].clone();
        let barrier = Arc::clone(&barrier);
        let shared = shared.clone();
        handles.push(std::thread::spawn(move || {
            crate::driver::catch(move || {
                let mut created_nodes: Vec<NodeId> = Vec::new();
                let mut created_edges: Vec<EdgeId> = Vec::new();
                let mut deleted_nodes: Vec<NodeId> = Vec::new();
                let mut deleted_edges: Vec<EdgeId> = Vec::new();
                let mut epochs: Vec<u64> = Vec::new();
                barrier.wait();
                for (kind, a, b) in &prog {
                    let shared = shared.clone();
                    // shared nodes are never deleted; own nodes only while this thread has not deleted them
                    // (writing to a deleted id is C14's sequential finding, not a concurrency question)
                    let dn = deleted_nodes.clone();
                    let shared_t = shared.clone();
                    let target = move |own: &Vec<NodeId>| -> NodeId {
                        let mut all = shared_t.clone();
                        all.extend(own.iter().copied().filter(|n| !dn.contains(n)));
                        all[pick(*a, all.len())]
                    };
                    match kind {
                        0 => created_nodes.push(db.create_node_with_props(&[LABELS[*b as usize % 3]], [("x", Value::Int64(i64::from(*b)))])),
                        1 => {
                            let (s, d) = (target(&created_nodes), shared[*b as usize % shared.len()]);
                            created_edges.push(db.create_edge(s, d, TYPES[*b as usize % 2]));
                        }
                        2 => db.set_node_property(target(&created_nodes), KEYS[*b as usize % 2], Value::Int64(i64::from(*b))),
                        3 => {
                            db.add_node_label(target(&created_nodes), LABELS[*b as usize % 3]);
                        }
                        4 => {
                            db.remove_node_label(target(&created_nodes), LABELS[*b as usize % 3]);
                        }
                        5 => {
                            if !created_edges.is_empty() {
                                let e = created_edges[pick(*a, created_edges.len())];
                                if db.delete_edge(e) {
                                    deleted_edges.push(e);
                                }
                            }
                        }
                        6 => {
                            // only own nodes are deleted, so that "acknowledged creations are visible" stays decidable
                            if !created_nodes.is_empty() {
                                let nd = created_nodes[pick(*a, created_nodes.len())];
                                if !deleted_nodes.contains(&nd) && db.delete_node(nd) {
                                    deleted_nodes.push(nd);
                                }
                            }
                        }
                        7 => {
                            let tm = db.verif_tx_manager();
                            let tx = tm.begin();
                            if let Ok(e) = tm.commit(tx) {
                                epochs.push(e.as_u64());
                            }
                        }
                        _ => {
                            let _ = db.store().nodes_by_label(LABELS[*b as usize % 3]);
                            let _ = db.node_count();
                            db.store().ensure_statistics_fresh();
                        }
                    }
                }
                (created_nodes, created_edges, deleted_nodes, deleted_edges, epochs)
            })
        }));
    }
    let mut all_nodes: Vec<NodeId> = shared.clone();
    let mut all_edges: Vec<EdgeId> = Vec::new();
    let mut dead_nodes: BTreeSet<u64> = BTreeSet::new();
    let mut dead_edges: BTreeSet<u64> = BTreeSet::new();
    let mut epochs: Vec<u64> = Vec::new();
    for h in handles {
        match h.join() {
            Ok(Ok((cn, ce, dn, de, ep))) => {
                all_nodes.extend(cn);
                all_edges.extend(ce);
                dead_nodes.extend(dn.iter().map(|n| n.as_u64()));
                dead_edges.extend(de.iter().map(|e| e.as_u64()));
                epochs.extend(ep);
            }
            Ok(Err(p)) => return fail(p.signature(), format!("thread panicked at {}: {}", p.file, p.msg)),
            Err(_) => return fail("c20/free/join", "thread join failed"),
        }
    }
    // identifiers unique
    let mut ns: Vec<u64> = all_nodes.iter().map(|n| n.as_u64()).collect();
    ns.sort_unstable();
    if ns.windows(2).any(|w| w[0] == w[1]) {
        return fail("c20/free/duplicate-node-id", format!("node ids {ns:?}"));
    }
    let mut es: Vec<u64> = all_edges.iter().map(|e| e.as_u64()).collect();
    es.sort_unstable();
    if es.windows(2).any(|w| w[0] == w[1]) {
        return fail("c20/free/duplicate-edge-id", format!("edge ids {es:?}"));
    }
    // commit epochs unique
    let mut ep = epochs.clone();
    ep.sort_unstable();
    if ep.windows(2).any(|w| w[0] == w[1]) {
        return fail("c20/free/duplicate-commit-epoch", format!("commit epochs {ep:?}"));
    }
    // acknowledged creations visible (unless this history deleted them)
    for nid in &all_nodes {
        let present = db.get_node(*nid).is_some();
        if present == dead_nodes.contains(&nid.as_u64()) {
            return fail("c20/free/acknowledged-node-lost", format!("node {nid:?}: present={present}, deleted by its creator={}", !present));
        }
    }
    for eid in &all_edges {
        let present = db.get_edge(*eid).is_some();
        if present == dead_edges.contains(&eid.as_u64()) {
            return fail("c20/free/acknowledged-edge-lost", format!("edge {eid:?}: present={present}"));
        }
    }
    // derived structures agree with the primary data: rebuild C14's model from the primary enumeration
    if let Err(f) = reconstruct_and_battery(db.store(), &ns, &es, c.index_x, "free") {
        // the recorded race (C20-indexed-property-write-race) reached by real threads: x is indexed, at least two
        // threads write x of a node (only shared nodes can be written by two threads) and the only disagreement is an
        // index-path lookup
        let x_writers = (0..n).filter(|t| c.programs[*t].iter().any(|(kind, _, b)| *kind == 2 && b % 2 == 0)).count();
        if c.index_x && x_writers >= 2 && f.signature.contains("/indexed/") {
            return crate::driver::ok_with_known(false, "explained-by-indexed-set-race", hash_dbg(c), vec!["c20/known/indexed-property-write-race".to_string()]);
        }
        return Err(f);
    }
    ok(n >= 2 && all_nodes.len() > 3, format!("{n}thr"), hash_dbg(c))
}

/// Rebuilds C14's model from the primary data (`get_node` / `get_edge` of every id ever handed out: present ones
/// with their labels and properties, absent ones as deleted) and runs C14's full battery of derived-structure
/// cross-checks against it. `ns` / `es` must be sorted and free of duplicates.
pub(super) fn reconstruct_and_battery(store: &LpgStore, ns: &[u64], es: &[u64], index_x: bool, sub: &str) -> Result<(), Failure> {
    let mut model = Model::new(true);
    let mut ids = IdMap::new();
    for nid in ns.iter() {
        let m = ids.bind_node(NodeId::new(*nid)).map_err(|f| Failure { signature: format!("c20/{sub}/{}", f.signature), what: f.what })?;
        match store.get_node(NodeId::new(*nid)) {
            Some(nd) => {
                let mut mn = MNode::default();
                for l in &nd.labels {
                    if let Some(i) = LABELS.iter().position(|x| *x == l.as_str()) {
                        mn.labels.insert(i as u8);
                    }
                }
                for (k, v) in &nd.properties {
                    if let Some(i) = KEYS.iter().position(|x| *x == k.as_str()) {
                        mn.props.insert(i as u8, c14::from_value(v));
                    }
                }
                model.nodes.insert(m, mn);
            }
            None => {
                model.dead_nodes.insert(m);
            }
        }
    }
    model.next_node = ns.len() as u64;
    for eid in es.iter() {
        let m = ids.bind_edge(EdgeId::new(*eid)).map_err(|f| Failure { signature: format!("c20/{sub}/{}", f.signature), what: f.what })?;
        match store.get_edge(EdgeId::new(*eid)) {
            Some(ed) => {
                let ty = TYPES.iter().position(|x| *x == ed.edge_type.as_str()).unwrap_or(0) as u8;
                model.edges.insert(m, MEdge { src: ids.mnode(ed.src), dst: ids.mnode(ed.dst), ty, props: BTreeMap::new() });
            }
            None => {
                model.dead_edges.insert(m);
            }
        }
    }
    model.next_edge = es.len() as u64;
    if index_x {
        model.indexes.insert(0);
    }
    battery(store, &model, &ids).map_err(|f| Failure {
        signature: format!("c20/{sub}/derived-structures-disagree:{}", f.signature),
        what: format!("after the threads finished: {}", f.what),
    })
}

pub fn run(r: &mut Run) {
    r.level = "exploration";
    r.rule = "controlled: 2-3 logical threads x 1-3 generated ops on shared entities + a generated schedule (one byte per yield point: sched_point calls \
              between the critical sections inside LpgStore / RdfStore / BufferManager operations and at op boundaries); oracle = some sequential order \
              explains every return value and the final state under C14's full battery / all RDF pattern shapes; non-trivial = at least one preemption at \
              an interior yield point and two threads touch a common entity (for rdf: the same triple; for buffer: >= 2 grants). free: real threads on one \
              GrafeoDB behind a barrier; non-trivial = >= 2 threads that created entities. free_*: generated programs for 2-4 real threads \
              on one shared component (sessions + plan cache on one GrafeoDB; WalManager with tiny max_log_size; HnswIndex; Catalog; \
              ArenaAllocator; grants on one BufferManager; QueryCache), each case repeated (2x quick, 4x thorough) behind a start gate \
              (condvar barrier + bounded spin rendezvous); verdicts are functions of returned values and of the state at quiescence / at \
              a barrier, never of timing; non-trivial = >= 2 threads write (sessions: and both languages read; wal: and the log rotates; \
              hnsw: and some thread searches and some thread removes; catalog: two threads create the same name; cache: >= 2 putters \
              and >= 2 getters). distinct by hash of the case."
        .into();
    r.assumptions.push("free_* sub-checks sample interleavings the OS produces; a failure there is reported with the programs but may need several replays to show again (rates are in known_findings / corpus notes)".into());
    r.assumptions.push("free_* liveness: a run whose threads do not all finish within 120 s is reported as <sub>/stall (the stuck threads are left behind)".into());
    r.assumptions.push("free_sessions: INSERT / create_node_with_props is node creation followed by property writes (a composite, like DETACH DELETE): a concurrent reader may see the node with x = NULL; reads over labels A/B are only checked for ids, columns and x, because dirty reads and in-place writes are recorded under C01/C02".into());
    r.assumptions.push("free_wal: a checkpoint declares everything logged before it dispensable; only records whose log call is ordered after every checkpoint of the case (program order / barrier) are owed by recovery".into());
    r.assumptions.push("only interleavings at the instrumented yield points are owned by the harness; races inside a critical section or on relaxed atomics are reached only by the uncontrolled 'free' sub-check, which samples".into());
    r.assumptions.push("yield points are placed only where no lock is held, so a controlled run cannot self-deadlock; a run without progress for 120 s is reported as a stall".into());
    let thorough = r.is_thorough();
    let (mt, mo) = if thorough { (3, 3) } else { (3, 2) };
    r.subcheck("lpg", r.cases(4000, 300_000), move || lpg_strategy(mt, mo), run_lpg);
    // exhaustive over schedules: two threads, 1-2 ops each, all 2^depth choice sequences
    let depth = if thorough { 10 } else { 6 };
    r.subcheck("lpg_all_schedules", r.cases(150, 400), move || lpg_strategy(2, 2), move |c: &LpgCase| run_lpg_all_schedules(c, depth));
    r.subcheck("rdf", r.cases(6000, 300_000), move || rdf_strategy(3), run_rdf);
    r.subcheck("buffer", r.cases(6000, 300_000), buf_strategy, run_buffer);
    r.subcheck("free", r.cases(6000, 200_000), free_strategy, run_free);
    // begin / record_write / commit from several real threads behind barriers (the runner of C03's `threaded`
    // sub-check): of any set of pairwise-conflicting overlapping writers at most one commit is acknowledged, every
    // refusal has a committed conflicting writer, commit epochs are exactly base+1..base+k
    r.subcheck("tm_threads", r.cases(600, 60_000), move || crate::props::c03::threaded_strategy(if thorough { 8 } else { 6 }), |c| {
        crate::props::c03::check_threaded(c).map_err(|f| Failure { signature: f.signature.replacen("c03/", "c20/tm/", 1), what: f.what })
    });

    // uncontrolled sub-checks for the shared components no schedule controls (sessions + plan cache, WAL manager,
    // HNSW, catalog, arena, grants, query cache): real threads behind a start gate, every case repeated `reps` times,
    // a watchdog instead of a join; verdicts are functions of returned values and of the state at quiescence
    let (ops, reps) = if thorough { (40, 4u8) } else { (24, 2u8) };
    r.subcheck("free_sessions", r.cases(500, 20_000), move || free_sessions::strategy(ops, reps), free_sessions::run_case);
    r.note(format!(
        "free_sessions: {} rows read over A/B named a node inserted by another thread (overlap witness; timing-dependent, not part of any verdict)",
        free_sessions::FOREIGN_ROWS.load(std::sync::atomic::Ordering::Relaxed)
    ));
    r.subcheck("free_wal", r.cases(500, 20_000), move || free_wal::strategy(ops / 2, reps), free_wal::run_case);
    r.subcheck("free_hnsw", r.cases(600, 20_000), move || free_hnsw::strategy(ops, reps), free_hnsw::run_case);
    r.note(format!(
        "free_hnsw: {} search results named an id owned by another thread (overlap witness; timing-dependent, not part of any verdict)",
        free_hnsw::FOREIGN_HITS.load(std::sync::atomic::Ordering::Relaxed)
    ));
    r.subcheck("free_catalog", r.cases(400, 15_000), move || free_misc::catalog_strategy(ops, reps), free_misc::run_catalog);
    r.subcheck("free_arena", r.cases(400, 15_000), move || free_misc::arena_strategy(ops, reps), free_misc::run_arena);
    r.subcheck("free_grant", r.cases(300, 10_000), move || free_misc::grant_strategy(reps), free_misc::run_grant);
    r.subcheck("free_cache", r.cases(400, 15_000), move || free_misc::cache_strategy(ops, reps), free_misc::run_cache);
}
