//! Uncontrolled sub-checks for the small shared components C20 anchors: `Catalog` (`free_catalog`), the epoch arena
//! (`free_arena`), memory grants on a `BufferManager` (`free_grant`) and the `QueryCache` (`free_cache`).
//! All verdicts are functions of returned values and of the state at quiescence / at a barrier.

use std::collections::{BTreeMap, BTreeSet};
use std::sync::Arc;

use grafeo_common::memory::arena::ArenaAllocator;
use grafeo_common::memory::buffer::{BufferManager, BufferManagerConfig, MemoryGrant, MemoryRegion};
use grafeo_common::types::{EpochId, IndexId, LabelId, PropertyKeyId};
use grafeo_engine::catalog::{Catalog, IndexType};
use grafeo_engine::query::{CacheKey, QueryCache, QueryLanguage, translate_cypher, translate_gql};
use proptest::prelude::*;
use serde::{Deserialize, Serialize};

use super::free_util::{FreeBody, Gate, run_free_threads, settle};
use crate::driver::{CaseResult, Failure, fail, guard, hash_dbg, ok, pick};

// ------------------------------------------------------------------------------------------------
// catalog
// ------------------------------------------------------------------------------------------------

#[derive(Clone, Debug, Serialize, Deserialize)]
pub enum COp {
    /// kind 0 label, 1 property key, 2 edge type; one of 10 shared names
    GetOrCreate { kind: u8, name: u8 },
    Lookup { kind: u8, name: u8 },
    CreateIndex { label: u8, key: u8 },
    /// drop the pick-th index this thread created
    DropIndex { which: u16 },
    Counts,
}

#[derive(Clone, Debug, Serialize, Deserialize)]
pub struct CatalogCase {
    pub threads: Vec<Vec<COp>>,
    pub reps: u8,
}

pub fn catalog_strategy(max_ops: usize, reps: u8) -> impl Strategy<Value = CatalogCase> {
    let op = prop_oneof![
        8 => (0u8..3, 0u8..10).prop_map(|(kind, name)| COp::GetOrCreate { kind, name }),
        3 => (0u8..3, 0u8..10).prop_map(|(kind, name)| COp::Lookup { kind, name }),
        3 => (0u8..3, 0u8..3).prop_map(|(label, key)| COp::CreateIndex { label, key }),
        2 => any::<u16>().prop_map(|which| COp::DropIndex { which }),
        1 => Just(COp::Counts),
    ];
    proptest::collection::vec(proptest::collection::vec(op, 6..=max_ops), 2..=4).prop_map(move |threads| CatalogCase { threads, reps })
}

fn cname(kind: u8, name: u8) -> String {
    format!("{}{name}", ["L", "k", "T"][kind as usize % 3])
}

struct CatOut {
    /// (kind, name) -> id as seen by this thread
    ids: BTreeMap<(u8, u8), u32>,
    created_idx: Vec<(u32, u32, u32)>,
    dropped_idx: Vec<u32>,
}

fn cat_get_or_create(cat: &Catalog, kind: u8, name: &str) -> u32 {
    match kind % 3 {
        0 => cat.get_or_create_label(name).0,
        1 => cat.get_or_create_property_key(name).0,
        _ => cat.get_or_create_edge_type(name).0,
    }
}

fn cat_get_id(cat: &Catalog, kind: u8, name: &str) -> Option<u32> {
    match kind % 3 {
        0 => cat.get_label_id(name).map(|i| i.0),
        1 => cat.get_property_key_id(name).map(|i| i.0),
        _ => cat.get_edge_type_id(name).map(|i| i.0),
    }
}

fn cat_get_name(cat: &Catalog, kind: u8, id: u32) -> Option<String> {
    match kind % 3 {
        0 => cat.get_label_name(LabelId(id)).map(|s| s.to_string()),
        1 => cat.get_property_key_name(PropertyKeyId(id)).map(|s| s.to_string()),
        _ => cat.get_edge_type_name(grafeo_common::types::EdgeTypeId(id)).map(|s| s.to_string()),
    }
}

fn catalog_rep(c: &CatalogCase) -> Result<(), Failure> {
    let cat = Arc::new(guard("Catalog::new", Catalog::new)?);
    let bodies: Vec<FreeBody<Result<CatOut, Failure>>> = c
        .threads
        .iter()
        .enumerate()
        .map(|(t, prog)| {
            let cat = Arc::clone(&cat);
            let prog = prog.clone();
            Box::new(move |_g: &Gate| -> Result<CatOut, Failure> {
                let mut out = CatOut { ids: BTreeMap::new(), created_idx: Vec::new(), dropped_idx: Vec::new() };
                for (step, op) in prog.iter().enumerate() {
                    match op {
                        COp::GetOrCreate { kind, name } => {
                            let nm = cname(*kind, *name);
                            let id = cat_get_or_create(&cat, *kind, &nm);
                            if let Some(prev) = out.ids.insert((*kind % 3, *name), id) {
                                if prev != id {
                                    return fail("c20/free_catalog/id-changed", format!("thread {t} step {step}: {nm} was {prev}, now {id}"));
                                }
                            }
                            let back = cat_get_name(&cat, *kind, id);
                            if back.as_deref() != Some(nm.as_str()) {
                                return fail("c20/free_catalog/name-of-id", format!("thread {t} step {step}: get_or_create({nm}) = {id} but the name of {id} is {back:?}"));
                            }
                        }
                        COp::Lookup { kind, name } => {
                            let nm = cname(*kind, *name);
                            let got = cat_get_id(&cat, *kind, &nm);
                            if let Some(known) = out.ids.get(&(*kind % 3, *name)) {
                                if got != Some(*known) {
                                    return fail("c20/free_catalog/lookup-after-create", format!("thread {t} step {step}: {nm} was created as {known}, lookup gives {got:?}"));
                                }
                            }
                            if let Some(id) = got {
                                let back = cat_get_name(&cat, *kind, id);
                                if back.as_deref() != Some(nm.as_str()) {
                                    return fail("c20/free_catalog/name-of-id", format!("thread {t} step {step}: id of {nm} is {id} but the name of {id} is {back:?}"));
                                }
                            }
                        }
                        COp::CreateIndex { label, key } => {
                            let l = cat.get_or_create_label(&cname(0, *label));
                            let k = cat.get_or_create_property_key(&cname(1, *key));
                            let id = cat.create_index(l, k, IndexType::Hash);
                            out.created_idx.push((id.0, l.0, k.0));
                            match cat.get_index(id) {
                                Some(d) if d.label == l && d.property_key == k => {}
                                other => return fail("c20/free_catalog/index-definition", format!("thread {t} step {step}: get_index({}) = {other:?} right after creation on ({l:?},{k:?})", id.0)),
                            }
                        }
                        COp::DropIndex { which } => {
                            let alive: Vec<u32> = out.created_idx.iter().map(|x| x.0).filter(|i| !out.dropped_idx.contains(i)).collect();
                            if !alive.is_empty() {
                                let id = alive[pick(*which, alive.len())];
                                if !cat.drop_index(IndexId(id)) {
                                    return fail("c20/free_catalog/drop-own-index", format!("thread {t} step {step}: drop_index({id}) = false for an index only this thread can drop"));
                                }
                                out.dropped_idx.push(id);
                            }
                        }
                        COp::Counts => {
                            let n = cat.label_count();
                            let mine = out.ids.keys().filter(|k| k.0 == 0).count();
                            if n < mine {
                                return fail("c20/free_catalog/count-too-small", format!("thread {t} step {step}: label_count {n} < {mine} labels this thread created"));
                            }
                        }
                    }
                }
                Ok(out)
            }) as FreeBody<Result<CatOut, Failure>>
        })
        .collect();
    let outs = settle("free_catalog", run_free_threads(bodies), "one Catalog")?;
    let mut ids: BTreeMap<(u8, u8), u32> = BTreeMap::new();
    let mut created: Vec<(u32, u32, u32)> = Vec::new();
    let mut dropped: BTreeSet<u32> = BTreeSet::new();
    for o in outs {
        let o = o?;
        for (k, id) in o.ids {
            if let Some(prev) = ids.insert(k, id) {
                if prev != id {
                    return fail("c20/free_catalog/two-ids-for-one-name", format!("{} got ids {prev} and {id} in different threads", cname(k.0, k.1)));
                }
            }
        }
        created.extend(o.created_idx);
        dropped.extend(o.dropped_idx);
    }
    // index creation also creates labels / keys
    for (_, l, k) in &created {
        for (kind, id) in [(0u8, *l), (1u8, *k)] {
            let nm = cat_get_name(&cat, kind, id).unwrap_or_default();
            if let Some(n) = nm.get(1..).and_then(|s| s.parse::<u8>().ok()) {
                if let Some(prev) = ids.insert((kind, n), id) {
                    if prev != id {
                        return fail("c20/free_catalog/two-ids-for-one-name", format!("{nm} got ids {prev} and {id}"));
                    }
                }
            }
        }
    }
    for kind in 0u8..3 {
        let of_kind: Vec<(&(u8, u8), &u32)> = ids.iter().filter(|(k, _)| k.0 == kind).collect();
        let distinct: BTreeSet<u32> = of_kind.iter().map(|(_, id)| **id).collect();
        if distinct.len() != of_kind.len() {
            return fail("c20/free_catalog/one-id-for-two-names", format!("kind {kind}: {of_kind:?}"));
        }
        let count = match kind {
            0 => cat.label_count(),
            1 => cat.property_key_count(),
            _ => cat.edge_type_count(),
        };
        if count != of_kind.len() || distinct.iter().any(|i| *i as usize >= count) {
            return fail("c20/free_catalog/ids-not-dense", format!("kind {kind}: count {count}, names {} with ids {distinct:?}", of_kind.len()));
        }
        let all: Vec<String> = match kind {
            0 => cat.all_labels(),
            1 => cat.all_property_keys(),
            _ => cat.all_edge_types(),
        }
        .iter()
        .map(|s| s.to_string())
        .collect();
        for (k, id) in of_kind {
            let nm = cname(k.0, k.1);
            if all.get(*id as usize) != Some(&nm) || cat_get_id(&cat, kind, &nm) != Some(*id) || cat_get_name(&cat, kind, *id).as_deref() != Some(nm.as_str()) {
                return fail("c20/free_catalog/not-bijective", format!("{nm} <-> {id}: all names {all:?}, id of name {:?}, name of id {:?}", cat_get_id(&cat, kind, &nm), cat_get_name(&cat, kind, *id)));
            }
        }
    }
    let idx_ids: BTreeSet<u32> = created.iter().map(|x| x.0).collect();
    if idx_ids.len() != created.len() {
        return fail("c20/free_catalog/duplicate-index-id", format!("{created:?}"));
    }
    let alive: Vec<&(u32, u32, u32)> = created.iter().filter(|x| !dropped.contains(&x.0)).collect();
    if cat.index_count() != alive.len() {
        return fail("c20/free_catalog/index-count", format!("index_count {} but {} indexes are alive", cat.index_count(), alive.len()));
    }
    for (id, l, k) in &created {
        let got = cat.get_index(IndexId(*id));
        if got.is_some() == dropped.contains(id) {
            return fail("c20/free_catalog/index-presence", format!("get_index({id}) = {got:?}, dropped = {}", dropped.contains(id)));
        }
        let in_label = cat.indexes_for_label(LabelId(*l)).contains(&IndexId(*id));
        let in_pair = cat.indexes_for_label_property(LabelId(*l), PropertyKeyId(*k)).contains(&IndexId(*id));
        if in_label == dropped.contains(id) || in_pair == dropped.contains(id) {
            return fail("c20/free_catalog/index-lookup-torn", format!("index {id} on ({l},{k}): dropped {}, in label list {in_label}, in pair list {in_pair}", dropped.contains(id)));
        }
    }
    Ok(())
}

pub fn run_catalog(c: &CatalogCase) -> CaseResult {
    for _ in 0..c.reps.max(1) {
        catalog_rep(c)?;
    }
    // non-trivial: two threads create the same name
    let sets: Vec<BTreeSet<(u8, u8)>> = c
        .threads
        .iter()
        .map(|p| p.iter().filter_map(|o| if let COp::GetOrCreate { kind, name } = o { Some((*kind % 3, *name)) } else { None }).collect())
        .collect();
    let shared = (0..sets.len()).any(|i| (i + 1..sets.len()).any(|j| sets[i].intersection(&sets[j]).next().is_some()));
    ok(shared, format!("{}thr", c.threads.len()), hash_dbg(c))
}

// ------------------------------------------------------------------------------------------------
// arena
// ------------------------------------------------------------------------------------------------

#[derive(Clone, Debug, Serialize, Deserialize)]
pub enum AOp {
    /// allocate `size` bytes aligned to 1 << align_log2 in the current epoch and fill them with this thread's byte
    Alloc { size: u16, align_log2: u8 },
    NewEpoch,
    /// `arena(current_epoch()).stats()`
    Stats,
}

#[derive(Clone, Debug, Serialize, Deserialize)]
pub struct ArenaCase {
    pub chunk_size: u16,
    pub threads: Vec<Vec<AOp>>,
    pub reps: u8,
}

pub fn arena_strategy(max_ops: usize, reps: u8) -> impl Strategy<Value = ArenaCase> {
    let op = prop_oneof![
        12 => (prop_oneof![1u16..64, 64u16..400], 0u8..5).prop_map(|(size, align_log2)| AOp::Alloc { size, align_log2 }),
        2 => Just(AOp::NewEpoch),
        1 => Just(AOp::Stats),
    ];
    (prop_oneof![Just(256u16), 512u16..2048], proptest::collection::vec(proptest::collection::vec(op, 8..=max_ops), 2..=4))
        .prop_map(move |(chunk_size, threads)| ArenaCase { chunk_size, threads, reps })
}

fn arena_rep(c: &ArenaCase) -> Result<(), Failure> {
    let alloc = Arc::new(guard("ArenaAllocator::with_chunk_size", || ArenaAllocator::with_chunk_size(c.chunk_size as usize))?);
    // (address, size) of every region a thread was handed, and the epochs it created
    type Out = (Vec<(usize, usize)>, Vec<u64>);
    let bodies: Vec<FreeBody<Result<Out, Failure>>> = c
        .threads
        .iter()
        .enumerate()
        .map(|(t, prog)| {
            let alloc = Arc::clone(&alloc);
            let prog = prog.clone();
            let chunk = c.chunk_size as usize;
            Box::new(move |_g: &Gate| -> Result<Out, Failure> {
                let mut regions: Vec<(usize, usize)> = Vec::new();
                let mut epochs = Vec::new();
                let fill = 0xA0u8 + t as u8;
                for (step, op) in prog.iter().enumerate() {
                    match op {
                        AOp::Alloc { size, align_log2 } => {
                            let (size, align) = ((*size as usize).min(chunk / 2).max(1), 1usize << align_log2);
                            let p = alloc.alloc(size, align);
                            let addr = p.as_ptr() as usize;
                            if addr % align != 0 {
                                return fail("c20/free_arena/misaligned", format!("thread {t} step {step}: alloc({size}, {align}) = {addr:#x}"));
                            }
                            // SAFETY: the arena handed out `size` writable bytes at `p`; no epoch is dropped while the threads run
                            unsafe { std::ptr::write_bytes(p.as_ptr(), fill, size) };
                            regions.push((addr, size));
                        }
                        AOp::NewEpoch => epochs.push(alloc.new_epoch().as_u64()),
                        AOp::Stats => {
                            let e = alloc.current_epoch();
                            let st = alloc.arena(e).stats();
                            if st.total_used > st.total_allocated {
                                return fail("c20/free_arena/used-exceeds-allocated", format!("thread {t} step {step}: {st:?}"));
                            }
                        }
                    }
                }
                // every byte this thread wrote must still be there (nobody else was handed the same bytes)
                for (addr, size) in &regions {
                    // SAFETY: as above; the region is still owned by the arena
                    let s = unsafe { std::slice::from_raw_parts(*addr as *const u8, *size) };
                    if s.iter().any(|b| *b != fill) {
                        return fail("c20/free_arena/overwritten", format!("thread {t}: region {addr:#x}+{size} no longer holds the bytes its owner wrote"));
                    }
                }
                Ok((regions, epochs))
            }) as FreeBody<Result<Out, Failure>>
        })
        .collect();
    let outs = settle("free_arena", run_free_threads(bodies), "one ArenaAllocator")?;
    let mut all: Vec<(usize, usize, usize)> = Vec::new();
    let mut epochs: Vec<u64> = Vec::new();
    for (t, o) in outs.into_iter().enumerate() {
        let (regions, eps) = o?;
        all.extend(regions.into_iter().map(|(a, s)| (a, s, t)));
        epochs.extend(eps);
    }
    all.sort_unstable();
    for w in all.windows(2) {
        if w[0].0 + w[0].1 > w[1].0 {
            return fail("c20/free_arena/overlap", format!("regions {:#x}+{} (thread {}) and {:#x}+{} (thread {}) overlap", w[0].0, w[0].1, w[0].2, w[1].0, w[1].1, w[1].2));
        }
    }
    let mut e = epochs.clone();
    e.sort_unstable();
    if e.windows(2).any(|w| w[0] == w[1]) || e.iter().enumerate().any(|(i, x)| *x != i as u64 + 1) {
        return fail("c20/free_arena/epoch-ids", format!("new_epoch returned {epochs:?}: expected each of 1..={} once", epochs.len()));
    }
    if alloc.current_epoch().as_u64() != epochs.len() as u64 {
        return fail("c20/free_arena/current-epoch", format!("current_epoch {:?} after {} new_epoch calls", alloc.current_epoch(), epochs.len()));
    }
    let mut used = 0usize;
    for ep in 0..=epochs.len() as u64 {
        let st = guard("arena.stats", || alloc.arena(EpochId::new(ep)).stats())?;
        if st.total_allocated != st.chunk_count * c.chunk_size as usize || st.total_used > st.total_allocated {
            return fail("c20/free_arena/accounting", format!("epoch {ep}: {st:?} with chunk size {}", c.chunk_size));
        }
        used += st.total_used;
    }
    let handed: usize = all.iter().map(|r| r.1).sum();
    if used < handed {
        return fail("c20/free_arena/used-too-small", format!("arenas report {used} bytes used, {handed} bytes were handed out"));
    }
    Ok(())
}

pub fn run_arena(c: &ArenaCase) -> CaseResult {
    for _ in 0..c.reps.max(1) {
        arena_rep(c)?;
    }
    let allocs = c.threads.iter().filter(|p| p.iter().any(|o| matches!(o, AOp::Alloc { .. }))).count();
    let epochs = c.threads.iter().any(|p| p.iter().any(|o| matches!(o, AOp::NewEpoch)));
    ok(allocs >= 2, format!("{}thr{}", c.threads.len(), if epochs { "/new-epochs" } else { "" }), hash_dbg(c))
}

// ------------------------------------------------------------------------------------------------
// grants
// ------------------------------------------------------------------------------------------------

#[derive(Clone, Debug, Serialize, Deserialize)]
pub enum GOp {
    /// try_allocate `eighths`/8 of the hard limit
    Alloc { eighths: u8, region: u8 },
    /// resize the pick-th held grant to `eighths`/8 of the hard limit
    Resize { which: u16, eighths: u8 },
    Split { which: u16, half: bool },
    Merge { a: u16, b: u16 },
    Drop { which: u16 },
    /// grow the pick-th held grant `steps` times by 1/64 of the hard limit (every thread doing this reaches the
    /// limit at about the same time, which is where a check-then-add reservation goes wrong)
    Hammer { which: u16, steps: u8 },
}

#[derive(Clone, Debug, Serialize, Deserialize)]
pub struct GrantCase {
    pub budget_kb: u16,
    /// rounds[r][t] = (grow-phase ops, shrink-phase ops)
    pub rounds: Vec<Vec<(Vec<GOp>, Vec<GOp>)>>,
    pub reps: u8,
}

pub fn grant_strategy(reps: u8) -> impl Strategy<Value = GrantCase> {
    let grow = prop_oneof![
        5 => (1u8..=5, 0u8..4).prop_map(|(eighths, region)| GOp::Alloc { eighths, region }),
        5 => (any::<u16>(), 1u8..=6).prop_map(|(which, eighths)| GOp::Resize { which, eighths }),
        1 => (any::<u16>(), any::<bool>()).prop_map(|(which, half)| GOp::Split { which, half }),
        1 => (any::<u16>(), any::<u16>()).prop_map(|(a, b)| GOp::Merge { a, b }),
        4 => (any::<u16>(), prop_oneof![8u8..40, Just(64u8)]).prop_map(|(which, steps)| GOp::Hammer { which, steps }),
    ];
    let shrink = prop_oneof![
        4 => any::<u16>().prop_map(|which| GOp::Drop { which }),
        3 => (any::<u16>(), 0u8..=2).prop_map(|(which, eighths)| GOp::Resize { which, eighths }),
        1 => (any::<u16>(), any::<bool>()).prop_map(|(which, half)| GOp::Split { which, half }),
    ];
    (2usize..=4, 1usize..=3).prop_flat_map(move |(threads, rounds)| {
        (
            4u16..64,
            proptest::collection::vec(
                proptest::collection::vec((proptest::collection::vec(grow.clone(), 1..=4), proptest::collection::vec(shrink.clone(), 0..=4)), threads),
                rounds,
            ),
        )
            .prop_map(move |(budget_kb, rounds)| GrantCase { budget_kb, rounds, reps })
    })
}

fn region_of(r: u8) -> MemoryRegion {
    match r % 4 {
        0 => MemoryRegion::GraphStorage,
        1 => MemoryRegion::IndexBuffers,
        2 => MemoryRegion::ExecutionBuffers,
        _ => MemoryRegion::SpillStaging,
    }
}

fn grant_rep(c: &GrantCase) -> Result<(), Failure> {
    let budget = c.budget_kb as usize * 1024;
    let cfg = BufferManagerConfig { budget, background_eviction: false, spill_path: None, ..BufferManagerConfig::default() };
    let hard = (budget as f64 * cfg.hard_limit_fraction) as usize;
    let bm = guard("BufferManager::new", || BufferManager::new(cfg))?;
    let n = c.rounds.first().map_or(0, Vec::len);
    // shared board: what each thread holds per region at the current barrier
    let board: Arc<std::sync::Mutex<Vec<[usize; 4]>>> = Arc::new(std::sync::Mutex::new(vec![[0; 4]; n]));
    let bodies: Vec<FreeBody<Result<(), Failure>>> = (0..n)
        .map(|t| {
            let bm = Arc::clone(&bm);
            let board = Arc::clone(&board);
            let progs: Vec<(Vec<GOp>, Vec<GOp>)> = c.rounds.iter().map(|r| r[t].clone()).collect();
            Box::new(move |gate: &Gate| -> Result<(), Failure> {
                let mut held: Vec<MemoryGrant> = Vec::new();
                let apply = |held: &mut Vec<MemoryGrant>, op: &GOp, growing: bool| {
                    match op {
                        GOp::Alloc { eighths, region } => {
                            if let Some(g) = bm.try_allocate((hard / 8) * *eighths as usize, region_of(*region)) {
                                held.push(g);
                            }
                        }
                        GOp::Resize { which, eighths } => {
                            if !held.is_empty() {
                                let i = pick(*which, held.len());
                                let target = (hard / 8) * *eighths as usize;
                                // the grow phase never releases, the shrink phase never acquires
                                let cur = held[i].size();
                                if (growing && target >= cur) || (!growing && target <= cur) {
                                    let _ = held[i].resize(target);
                                }
                            }
                        }
                        GOp::Split { which, half } => {
                            if !held.is_empty() {
                                let i = pick(*which, held.len());
                                let amount = if *half { held[i].size() / 2 } else { held[i].size() };
                                if let Some(g) = held[i].split(amount) {
                                    held.push(g);
                                }
                            }
                        }
                        GOp::Merge { a, b } => {
                            if held.len() >= 2 {
                                let (i, j) = (pick(*a, held.len()), pick(*b, held.len()));
                                if i != j && held[i].region() == held[j].region() {
                                    let other = held.remove(j);
                                    let i = if j < i { i - 1 } else { i };
                                    held[i].merge(other);
                                }
                            }
                        }
                        GOp::Drop { which } => {
                            if !held.is_empty() {
                                let i = pick(*which, held.len());
                                drop(held.remove(i));
                            }
                        }
                        GOp::Hammer { which, steps } => {
                            if growing {
                                if held.is_empty() {
                                    if let Some(g) = bm.try_allocate(1, MemoryRegion::ExecutionBuffers) {
                                        held.push(g);
                                    }
                                }
                                if !held.is_empty() {
                                    let i = pick(*which, held.len());
                                    let unit = (hard / 64).max(1);
                                    for _ in 0..*steps {
                                        let cur = held[i].size();
                                        let _ = held[i].resize(cur + unit);
                                    }
                                }
                            }
                        }
                    }
                };
                let publish = |held: &Vec<MemoryGrant>| {
                    let mut mine = [0usize; 4];
                    for g in held {
                        mine[g.region().index()] += g.size();
                    }
                    board.lock().unwrap()[t] = mine;
                };
                // at a barrier nobody is inside the manager: the accounts must equal what the threads hold
                let verify = |phase: &str, round: usize| -> Result<(), Failure> {
                    let b = board.lock().unwrap().clone();
                    let st = bm.stats();
                    let mut per = [0usize; 4];
                    for row in &b {
                        for r in 0..4 {
                            per[r] += row[r];
                        }
                    }
                    let total: usize = per.iter().sum();
                    if total > hard {
                        return fail(
                            "c20/free_grant/hard-limit-exceeded",
                            format!("round {round} after the {phase} phase: the threads hold {total} bytes in grants, hard limit {hard}"),
                        );
                    }
                    if st.total_allocated != total || st.region_allocated != per {
                        return fail(
                            "c20/free_grant/accounting",
                            format!("round {round} after the {phase} phase: manager says {} / {:?}, the grants held add up to {total} / {per:?}", st.total_allocated, st.region_allocated),
                        );
                    }
                    Ok(())
                };
                for (round, (grow, shrink)) in progs.iter().enumerate() {
                    for (phase, ops, growing) in [("grow", grow, true), ("shrink", shrink, false)] {
                        for op in ops {
                            apply(&mut held, op, growing);
                        }
                        publish(&held);
                        // barrier 1: everybody has published; leader verifies; barrier 2: verification done
                        match gate.wait_leader() {
                            None => return Ok(()),
                            Some(true) => {
                                if let Err(f) = verify(phase, round) {
                                    gate.abort();
                                    return Err(f);
                                }
                            }
                            Some(false) => {}
                        }
                        if !gate.wait() {
                            return Ok(());
                        }
                    }
                }
                drop(held);
                Ok(())
            }) as FreeBody<Result<(), Failure>>
        })
        .collect();
    let outs = settle("free_grant", run_free_threads(bodies), "one BufferManager")?;
    for o in outs {
        o?;
    }
    let st = guard("stats", || bm.stats())?;
    if st.total_allocated != 0 || st.region_allocated.iter().any(|x| *x != 0) {
        return fail("c20/free_grant/accounting-not-zero", format!("after every grant was dropped: {} / {:?}", st.total_allocated, st.region_allocated));
    }
    Ok(())
}

pub fn run_grant(c: &GrantCase) -> CaseResult {
    for _ in 0..c.reps.max(1) {
        grant_rep(c)?;
    }
    let n = c.rounds.first().map_or(0, Vec::len);
    let growers = (0..n).filter(|t| c.rounds.iter().any(|r| r[*t].0.iter().any(|o| matches!(o, GOp::Alloc { .. } | GOp::Resize { .. } | GOp::Hammer { .. })))).count();
    let resizers = (0..n).filter(|t| c.rounds.iter().any(|r| r[*t].0.iter().any(|o| matches!(o, GOp::Resize { .. } | GOp::Hammer { .. })))).count();
    ok(growers >= 2, format!("{n}thr{}", if resizers >= 2 { "/concurrent-resize" } else { "" }), hash_dbg(c))
}

// ------------------------------------------------------------------------------------------------
// query cache
// ------------------------------------------------------------------------------------------------

#[derive(Clone, Debug, Serialize, Deserialize)]
pub enum QOp {
    /// `opt`: optimized cache, else parsed cache; `text` one of 6 texts; `cypher`: language; `spaced`: extra whitespace
    Put { opt: bool, text: u8, cypher: bool, spaced: bool },
    Get { opt: bool, text: u8, cypher: bool, spaced: bool },
    Invalidate { text: u8, cypher: bool },
    Clear,
    Stats,
}

#[derive(Clone, Debug, Serialize, Deserialize)]
pub struct CacheCase {
    pub capacity: u8,
    pub threads: Vec<Vec<QOp>>,
    pub reps: u8,
}

pub fn cache_strategy(max_ops: usize, reps: u8) -> impl Strategy<Value = CacheCase> {
    let op = prop_oneof![
        8 => (any::<bool>(), 0u8..6, any::<bool>(), any::<bool>()).prop_map(|(opt, text, cypher, spaced)| QOp::Put { opt, text, cypher, spaced }),
        10 => (any::<bool>(), 0u8..6, any::<bool>(), any::<bool>()).prop_map(|(opt, text, cypher, spaced)| QOp::Get { opt, text, cypher, spaced }),
        2 => (0u8..6, any::<bool>()).prop_map(|(text, cypher)| QOp::Invalidate { text, cypher }),
        1 => Just(QOp::Clear),
        1 => Just(QOp::Stats),
    ];
    (prop_oneof![Just(2u8), Just(4u8), Just(6u8), Just(40u8)], proptest::collection::vec(proptest::collection::vec(op, 8..=max_ops), 2..=4))
        .prop_map(move |(capacity, threads)| CacheCase { capacity, threads, reps })
}

/// The same text is valid GQL and Cypher; the plan stored under (text, language) is that language's translation
/// of a *language-specific* variant, so that a plan served under the wrong language is recognisable.
fn cache_text(text: u8, spaced: bool) -> String {
    let t = text % 6;
    if spaced { format!("MATCH   (n:L{t})\n  RETURN  n.p{t}") } else { format!("MATCH (n:L{t}) RETURN n.p{t}") }
}

fn cache_rep(c: &CacheCase) -> Result<(), Failure> {
    // plans: key (text, cypher) -> (plan, rendering)
    let mut plans = Vec::new();
    for t in 0u8..6 {
        for cy in [false, true] {
            // distinct plans per language: the Cypher entry projects a different property
            let src = if cy { format!("MATCH (n:L{t}) RETURN n.q{t}") } else { format!("MATCH (n:L{t}) RETURN n.p{t}") };
            let plan = guard("translate", || if cy { translate_cypher(&src) } else { translate_gql(&src) })?
                .map_err(|e| Failure { signature: "c20/free_cache/translate-error".into(), what: format!("{src}: {e}") })?;
            let shown = format!("{plan:?}");
            plans.push(((t, cy), plan, shown));
        }
    }
    let plans = Arc::new(plans);
    let cache = Arc::new(guard("QueryCache::new", || QueryCache::new(c.capacity as usize))?);
    let half = (c.capacity as usize / 2).max(1);
    let bodies: Vec<FreeBody<Result<(u64, u64), Failure>>> = c
        .threads
        .iter()
        .enumerate()
        .map(|(t, prog)| {
            let cache = Arc::clone(&cache);
            let plans = Arc::clone(&plans);
            let prog = prog.clone();
            Box::new(move |_g: &Gate| -> Result<(u64, u64), Failure> {
                let lang = |cy: bool| if cy { QueryLanguage::Cypher } else { QueryLanguage::Gql };
                let entry = |text: u8, cy: bool| plans.iter().find(|p| p.0 == (text % 6, cy)).expect("plan exists");
                let (mut parsed_gets, mut opt_gets) = (0u64, 0u64);
                for (step, op) in prog.iter().enumerate() {
                    match op {
                        QOp::Put { opt, text, cypher, spaced } => {
                            let key = CacheKey::new(cache_text(*text, *spaced), lang(*cypher));
                            let plan = entry(*text, *cypher).1.clone();
                            if *opt { cache.put_optimized(key, plan) } else { cache.put_parsed(key, plan) }
                        }
                        QOp::Get { opt, text, cypher, spaced } => {
                            let key = CacheKey::new(cache_text(*text, *spaced), lang(*cypher));
                            let got = if *opt {
                                opt_gets += 1;
                                cache.get_optimized(&key)
                            } else {
                                parsed_gets += 1;
                                cache.get_parsed(&key)
                            };
                            if let Some(p) = got {
                                let shown = format!("{p:?}");
                                if shown != entry(*text, *cypher).2 {
                                    let whose = plans.iter().find(|e| e.2 == shown).map(|e| e.0);
                                    return fail(
                                        "c20/free_cache/foreign-plan",
                                        format!("thread {t} step {step}: get({:?}, cypher={cypher}) returned the plan stored for {whose:?}", cache_text(*text, *spaced)),
                                    );
                                }
                            }
                        }
                        QOp::Invalidate { text, cypher } => cache.invalidate(&CacheKey::new(cache_text(*text, false), lang(*cypher))),
                        QOp::Clear => cache.clear(),
                        QOp::Stats => {
                            let st = cache.stats();
                            if st.parsed_size > half || st.optimized_size > half {
                                return fail("c20/free_cache/over-capacity", format!("thread {t} step {step}: {st:?} with capacity {half} per level"));
                            }
                        }
                    }
                }
                Ok((parsed_gets, opt_gets))
            }) as FreeBody<Result<(u64, u64), Failure>>
        })
        .collect();
    let outs = settle("free_cache", run_free_threads(bodies), "one QueryCache")?;
    let (mut pg, mut og) = (0u64, 0u64);
    for o in outs {
        let (p, q) = o?;
        pg += p;
        og += q;
    }
    let st = guard("stats", || cache.stats())?;
    if st.parsed_size > half || st.optimized_size > half {
        return fail("c20/free_cache/over-capacity", format!("at quiescence: {st:?} with capacity {half} per level"));
    }
    if st.parsed_hits + st.parsed_misses != pg || st.optimized_hits + st.optimized_misses != og {
        return fail("c20/free_cache/hit-miss-count", format!("{st:?} after {pg} parsed and {og} optimized lookups"));
    }
    // whatever is still cached is served under its own key
    for (key, _, shown) in plans.iter() {
        let k = CacheKey::new(cache_text(key.0, false), if key.1 { QueryLanguage::Cypher } else { QueryLanguage::Gql });
        for got in [cache.get_parsed(&k), cache.get_optimized(&k)].into_iter().flatten() {
            if format!("{got:?}") != *shown {
                return fail("c20/free_cache/foreign-plan", format!("at quiescence: key {key:?} serves another key's plan"));
            }
        }
    }
    Ok(())
}

pub fn run_cache(c: &CacheCase) -> CaseResult {
    for _ in 0..c.reps.max(1) {
        cache_rep(c)?;
    }
    let putters = c.threads.iter().filter(|p| p.iter().any(|o| matches!(o, QOp::Put { .. }))).count();
    let getters = c.threads.iter().filter(|p| p.iter().any(|o| matches!(o, QOp::Get { .. }))).count();
    ok(putters >= 2 && getters >= 2, format!("{}thr/cap{}", c.threads.len(), c.capacity), hash_dbg(c))
}
