//! `free_hnsw`: real threads on one `HnswIndex` (insert / re-insert / remove of *own* ids, search, get, len).
//!
//! Oracle (holds for every interleaving, because an id is only ever written by the thread that owns it):
//! * per operation: `remove(own)` returns what the owner's model says, `contains(own)` / `get(own)` right after any
//!   own operation equal the owner's model (vector bitwise, non-cosine);
//! * per search result (the interleaving-independent part of C18's result oracle): at most k results, no id twice,
//!   no NaN, ascending; every id is in the union of everything the case ever inserts; an *own* id must be live in the
//!   owner's model and scored against its current vector; a setup id (never modified) against its vector; a foreign
//!   id against one of the vectors its owner ever stores under it;
//! * at quiescence: `len`, `contains`, `get`, `iter` equal the union of the setup and the owners' final models, the
//!   graph (hook H4) has no link to a missing node, and a final search obeys the full sequential oracle.

use std::collections::{BTreeMap, BTreeSet};
use std::sync::Arc;

use grafeo_common::types::NodeId;
use grafeo_core::index::vector::{HnswConfig, HnswIndex};
use proptest::prelude::*;
use serde::{Deserialize, Serialize};

use super::free_util::{FreeBody, run_free_threads, settle};
use crate::driver::{CaseResult, Failure, fail, guard, hash_dbg, ok, pick};
use crate::props::c18::{MagClass, Metric, close, metric_strategy, ref_distance, vector};

/// How many search results named an id owned by another thread (overlap witness for the evidence notes; depends on
/// timing and is not part of any verdict).
pub static FOREIGN_HITS: std::sync::atomic::AtomicU64 = std::sync::atomic::AtomicU64::new(0);

const SLOTS: usize = 6;
const SETUP_BASE: u64 = 1000;

#[derive(Clone, Debug, Serialize, Deserialize)]
pub enum HOp {
    /// insert (or re-insert) pool vector `v` under the own id `slot`
    Insert { slot: u16, v: u16 },
    Remove { slot: u16 },
    Search { q: u16, k: u8, ef: Option<u8> },
    Get { slot: u16 },
    Len,
}

#[derive(Clone, Debug, Serialize, Deserialize)]
pub struct HnswCase {
    pub dim: usize,
    pub metric: Metric,
    pub seed: u64,
    pub m: Option<usize>,
    pub efc: Option<usize>,
    pub pool: Vec<Vec<f32>>,
    /// pool indices of the vectors inserted (ids 1000, 1001, …) before the threads start; never modified
    pub setup: Vec<u16>,
    pub threads: Vec<Vec<HOp>>,
    pub reps: u8,
}

fn hop() -> impl Strategy<Value = HOp> {
    prop_oneof![
        6 => (any::<u16>(), any::<u16>()).prop_map(|(slot, v)| HOp::Insert { slot, v }),
        3 => any::<u16>().prop_map(|slot| HOp::Remove { slot }),
        5 => (any::<u16>(), prop_oneof![Just(0u8), Just(1u8), 2u8..=6, Just(40u8)], proptest::option::of(prop_oneof![Just(0u8), Just(1u8), Just(8u8), Just(64u8)]))
            .prop_map(|(q, k, ef)| HOp::Search { q, k, ef }),
        1 => any::<u16>().prop_map(|slot| HOp::Get { slot }),
        1 => Just(HOp::Len),
    ]
}

pub fn strategy(max_ops: usize, reps: u8) -> impl Strategy<Value = HnswCase> {
    (2usize..=8, metric_strategy(), prop_oneof![Just(MagClass::Ints), Just(MagClass::Unit)]).prop_flat_map(move |(dim, metric, class)| {
        (
            any::<u64>(),
            prop_oneof![3 => Just(None), 1 => Just(Some(2usize)), 1 => Just(Some(4usize))],
            prop_oneof![3 => Just(None), 1 => Just(Some(1usize)), 1 => Just(Some(8usize))],
            proptest::collection::vec(vector(class, dim), 2..16),
            proptest::collection::vec(any::<u16>(), 0..6),
            proptest::collection::vec(proptest::collection::vec(hop(), 8..=max_ops), 2..=4),
        )
            .prop_map(move |(seed, m, efc, pool, setup, threads)| HnswCase { dim, metric, seed, m, efc, pool, setup, threads, reps })
    })
}

fn own_id(t: usize, slot: u16) -> u64 {
    (t as u64 + 1) * 100 + pick(slot, SLOTS) as u64
}

fn same_bits(a: &[f32], b: &[f32]) -> bool {
    a.len() == b.len() && a.iter().zip(b).all(|(x, y)| x.to_bits() == y.to_bits())
}

/// What a thread learned; a failure found inside the thread travels as `Err`.
struct ThreadOut {
    live: BTreeMap<u64, usize>,
    searches: usize,
    foreign_hits: usize,
}

#[allow(clippy::too_many_arguments)]
fn check_result(
    c: &HnswCase,
    t: Option<usize>,
    own_live: &BTreeMap<u64, usize>,
    ever: &BTreeMap<u64, BTreeSet<usize>>,
    q: &[f32],
    k: usize,
    res: &[(NodeId, f32)],
    ctx: &str,
) -> Result<usize, Failure> {
    if res.len() > k {
        return fail("c20/free_hnsw/more-than-k", format!("{ctx}: {} results for k={k}", res.len()));
    }
    let mut seen = BTreeSet::new();
    let mut foreign = 0usize;
    for (i, (id, d)) in res.iter().enumerate() {
        let id = id.0;
        if !seen.insert(id) {
            return fail("c20/free_hnsw/duplicate-id", format!("{ctx}: id {id} twice in {res:?}"));
        }
        if d.is_nan() {
            return fail("c20/free_hnsw/nan-distance", format!("{ctx}: {res:?}"));
        }
        if i > 0 && res[i - 1].1 > *d {
            return fail("c20/free_hnsw/not-sorted", format!("{ctx}: distances not ascending: {res:?}"));
        }
        let Some(cands) = ever.get(&id) else {
            return fail("c20/free_hnsw/unknown-id-returned", format!("{ctx}: id {id} is never inserted by this case; results {res:?}"));
        };
        let is_own = t.is_some_and(|t| id / 100 == t as u64 + 1 && id < SETUP_BASE);
        let cands: Vec<usize> = if is_own || t.is_none() {
            match own_live.get(&id) {
                Some(v) => vec![*v],
                None => {
                    return fail(
                        "c20/free_hnsw/removed-id-returned",
                        format!("{ctx}: id {id} is not live (its only writer removed it or has not inserted it); results {res:?}"),
                    );
                }
            }
        } else {
            foreign += usize::from(id < SETUP_BASE);
            cands.iter().copied().collect()
        };
        let okd = cands.iter().any(|v| {
            let (dref, scale) = ref_distance(c.metric, q, &c.pool[*v]);
            close(*d, dref, scale, c.dim)
        });
        if !okd {
            let defs: Vec<f64> = cands.iter().map(|v| ref_distance(c.metric, q, &c.pool[*v]).0).collect();
            return fail(
                format!("c20/free_hnsw/distance-wrong/{}", c.metric.name()),
                format!("{ctx}: id {id} reported distance {d}; the vectors ever stored under it give {defs:?}; q={q:?}"),
            );
        }
    }
    Ok(foreign)
}

fn one_rep(c: &HnswCase) -> Result<(usize, usize), Failure> {
    let mut cfg = HnswConfig::new(c.dim, c.metric.lib());
    if let Some(m) = c.m {
        cfg = cfg.with_m(m);
    }
    if let Some(e) = c.efc {
        cfg = cfg.with_ef_construction(e);
    }
    let ix = Arc::new(guard("HnswIndex::with_seed", || HnswIndex::with_seed(cfg, c.seed))?);
    let vidx = |i: u16| pick(i, c.pool.len());
    // universe: id -> pool indices ever stored under it
    let mut ever: BTreeMap<u64, BTreeSet<usize>> = BTreeMap::new();
    let mut setup_live: BTreeMap<u64, usize> = BTreeMap::new();
    for (i, v) in c.setup.iter().enumerate() {
        let id = SETUP_BASE + i as u64;
        guard("insert", || ix.insert(NodeId::new(id), &c.pool[vidx(*v)]))?;
        ever.entry(id).or_default().insert(vidx(*v));
        setup_live.insert(id, vidx(*v));
    }
    for (t, prog) in c.threads.iter().enumerate() {
        for op in prog {
            if let HOp::Insert { slot, v } = op {
                ever.entry(own_id(t, *slot)).or_default().insert(vidx(*v));
            }
        }
    }
    let ever = Arc::new(ever);
    let case = Arc::new(c.clone());
    let bodies: Vec<FreeBody<Result<ThreadOut, Failure>>> = c
        .threads
        .iter()
        .enumerate()
        .map(|(t, prog)| {
            let ix = Arc::clone(&ix);
            let ever = Arc::clone(&ever);
            let c = Arc::clone(&case);
            let prog = prog.clone();
            Box::new(move |_g: &super::free_util::Gate| -> Result<ThreadOut, Failure> {
                let vidx = |i: u16| pick(i, c.pool.len());
                let mut live: BTreeMap<u64, usize> = BTreeMap::new();
                let mut searches = 0usize;
                let mut foreign_hits = 0usize;
                for (step, op) in prog.iter().enumerate() {
                    let mut touched: Option<u64> = None;
                    match op {
                        HOp::Insert { slot, v } => {
                            let id = own_id(t, *slot);
                            ix.insert(NodeId::new(id), &c.pool[vidx(*v)]);
                            live.insert(id, vidx(*v));
                            touched = Some(id);
                        }
                        HOp::Remove { slot } => {
                            let id = own_id(t, *slot);
                            let got = ix.remove(NodeId::new(id));
                            let exp = live.remove(&id).is_some();
                            if got != exp {
                                return fail(
                                    "c20/free_hnsw/remove-return",
                                    format!("thread {t} step {step}: remove({id}) = {got}, its only writer's model says {exp}"),
                                );
                            }
                            touched = Some(id);
                        }
                        HOp::Get { slot } => touched = Some(own_id(t, *slot)),
                        HOp::Len => {
                            let len = ix.len();
                            // lower bound that holds at any time: the setup ids plus this thread's own live ids
                            if len < c.setup.len() + live.len() {
                                return fail(
                                    "c20/free_hnsw/len-too-small",
                                    format!("thread {t} step {step}: len() = {len} < {} setup ids + {} own live ids", c.setup.len(), live.len()),
                                );
                            }
                        }
                        HOp::Search { q, k, ef } => {
                            let qv = &c.pool[vidx(*q)];
                            let res = match ef {
                                None => ix.search(qv, *k as usize),
                                Some(e) => ix.search_with_ef(qv, *k as usize, *e as usize),
                            };
                            let ctx = format!("thread {t} step {step} search(k={k}, ef={ef:?})");
                            foreign_hits += check_result(&c, Some(t), &live, &ever, qv, *k as usize, &res, &ctx)?;
                            searches += 1;
                        }
                    }
                    if let Some(id) = touched {
                        let has = ix.contains(NodeId::new(id));
                        if has != live.contains_key(&id) {
                            return fail(
                                "c20/free_hnsw/contains-own",
                                format!("thread {t} step {step} ({op:?}): contains({id}) = {has}, its only writer's model says {}", live.contains_key(&id)),
                            );
                        }
                        let got = ix.get(NodeId::new(id));
                        let good = match (live.get(&id), &got) {
                            (None, None) => true,
                            (Some(v), Some(g)) => c.metric == Metric::Cosine || same_bits(g, &c.pool[*v]),
                            _ => false,
                        };
                        if !good {
                            return fail(
                                "c20/free_hnsw/get-own",
                                format!("thread {t} step {step} ({op:?}): get({id}) = {got:?}, its only writer's model has pool vector {:?}", live.get(&id)),
                            );
                        }
                    }
                }
                Ok(ThreadOut { live, searches, foreign_hits })
            }) as FreeBody<Result<ThreadOut, Failure>>
        })
        .collect();
    let outs = settle("free_hnsw", run_free_threads(bodies), "one HnswIndex")?;
    let mut live = setup_live;
    let mut searches = 0;
    let mut foreign = 0;
    for o in outs {
        let o = o?;
        live.extend(o.live);
        searches += o.searches;
        foreign += o.foreign_hits;
    }
    // ---- quiescence -----------------------------------------------------------------------------
    let len = guard("len", || ix.len())?;
    if len != live.len() {
        return fail("c20/free_hnsw/final-len", format!("len() = {len}, the union of the threads' final sets has {} ids", live.len()));
    }
    for id in ever.keys() {
        let has = guard("contains", || ix.contains(NodeId::new(*id)))?;
        if has != live.contains_key(id) {
            return fail("c20/free_hnsw/final-contains", format!("contains({id}) = {has}, final sets say {}", live.contains_key(id)));
        }
        let got = guard("get", || ix.get(NodeId::new(*id)))?;
        let good = match (live.get(id), &got) {
            (None, None) => true,
            (Some(v), Some(g)) => c.metric == Metric::Cosine || same_bits(g, &c.pool[*v]),
            _ => false,
        };
        if !good {
            return fail("c20/free_hnsw/final-get", format!("get({id}) = {got:?}, final sets have pool vector {:?}", live.get(id)));
        }
    }
    let mut it: Vec<u64> = guard("iter", || ix.iter().map(|(id, _)| id.0).collect())?;
    it.sort_unstable();
    let want: Vec<u64> = live.keys().copied().collect();
    if it != want {
        return fail("c20/free_hnsw/final-iter", format!("iter() ids {it:?}, final sets {want:?}"));
    }
    let (ep, graph) = guard("verif_graph", || ix.verif_graph())?;
    let ids: BTreeSet<u64> = graph.iter().map(|(id, _)| id.0).collect();
    for (id, layers) in &graph {
        for (l, nbs) in layers.iter().enumerate() {
            for nb in nbs {
                if !ids.contains(&nb.0) {
                    return fail("c20/free_hnsw/dangling-link", format!("node {} layer {l} links to {} which is not in the index", id.0, nb.0));
                }
            }
        }
    }
    match ep {
        Some(e) if !ids.contains(&e.0) => return fail("c20/free_hnsw/entry-point-missing", format!("entry point {} is not in the index {ids:?}", e.0)),
        None if !ids.is_empty() => return fail("c20/free_hnsw/entry-point-missing", format!("no entry point although the index holds {ids:?}")),
        _ => {}
    }
    for q in 0..c.pool.len().min(3) {
        let k = live.len().max(1);
        let res = guard("search", || ix.search_with_ef(&c.pool[q], k, 64))?;
        check_result(c, None, &live, &ever, &c.pool[q], k, &res, &format!("final search q={q}"))?;
        if !live.is_empty() && res.is_empty() {
            return fail("c20/free_hnsw/final-search-empty", format!("search(k={k}) on {} vectors returned nothing", live.len()));
        }
    }
    Ok((searches, foreign))
}

pub fn run_case(c: &HnswCase) -> CaseResult {
    let mut foreign = 0;
    for _ in 0..c.reps.max(1) {
        foreign += one_rep(c)?.1;
    }
    // how often a search saw another thread's id depends on timing: not part of class / verdict
    FOREIGN_HITS.fetch_add(foreign as u64, std::sync::atomic::Ordering::Relaxed);
    let writers = c.threads.iter().filter(|p| p.iter().any(|o| matches!(o, HOp::Insert { .. }))).count();
    let searchers = c.threads.iter().filter(|p| p.iter().any(|o| matches!(o, HOp::Search { k, .. } if *k > 0))).count();
    let removers = c.threads.iter().filter(|p| p.iter().any(|o| matches!(o, HOp::Remove { .. }))).count();
    ok(writers >= 2 && searchers >= 1 && removers >= 1, format!("{}thr/{}", c.threads.len(), c.metric.name()), hash_dbg(c))
}
