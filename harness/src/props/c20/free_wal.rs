//! `free_wal`: real threads logging records / commit markers, syncing, flushing, rotating and checkpointing one
//! `WalManager` (small `max_log_size`, so that size-triggered rotations happen all the time), optionally with the
//! `AdaptiveFlusher` background thread syncing at full speed.
//!
//! The programs run in phases separated by barriers. After the last phase the harness appends one commit marker,
//! syncs, drops the manager and recovers the directory. Oracle (a function of the recovered records and of the
//! values `log` returned; it holds for every interleaving):
//! * recovery succeeds; no record is recovered twice; nothing is recovered that no thread logged;
//! * each thread's records appear in the order the thread logged them (files are replayed in sequence order);
//! * every record whose `log` call returned `Ok` is recovered, unless a checkpoint may legitimately have retired it:
//!   a checkpoint declares everything logged before it dispensable, so a record is *owed* exactly when every
//!   checkpoint of the case happens-before its `log` call through program order or a barrier — i.e. all records of
//!   the phases after the last phase with a checkpoint, plus, when a single thread checkpoints in that phase, that
//!   thread's own records after its last checkpoint; with no checkpoint at all every acknowledged record is owed;
//! * `record_count()` equals the number of successful appends.

use std::collections::{BTreeMap, BTreeSet};
use std::sync::Arc;

use grafeo_adapters::storage::wal::{AdaptiveFlusher, DurabilityMode, WalConfig, WalManager, WalRecord, WalRecovery};
use grafeo_common::types::{EpochId, NodeId, TxId};
use proptest::prelude::*;
use serde::{Deserialize, Serialize};

use super::free_util::{FreeBody, Gate, run_free_threads, settle};
use crate::driver::{CaseResult, Failure, fail, guard, hash_dbg, ok, scratch_dir};

#[derive(Clone, Debug, PartialEq, Serialize, Deserialize)]
pub enum WOp {
    /// a data record padded with `pad` extra bytes
    Log { pad: u8 },
    /// a TxCommit record (in `DurabilityMode::Sync` this is what syncs)
    Commit,
    Sync,
    Flush,
    Rotate,
    Checkpoint,
}

#[derive(Clone, Debug, Serialize, Deserialize)]
pub struct WalCase {
    /// 0 Sync, 1 Batch{0 ms, 1 record}, 2 Batch{1 h, 3 records}, 3 NoSync, 4 Adaptive
    pub durability: u8,
    pub max_log_size: u16,
    pub flusher: bool,
    /// `phases[p][t]` = what thread `t` does in phase `p`
    pub phases: Vec<Vec<Vec<WOp>>>,
    pub reps: u8,
}

fn wop(checkpoints: bool) -> BoxedStrategy<WOp> {
    let base = prop_oneof![
        10 => prop_oneof![Just(0u8), 0u8..40, Just(200u8)].prop_map(|pad| WOp::Log { pad }),
        3 => Just(WOp::Commit),
        2 => Just(WOp::Sync),
        1 => Just(WOp::Flush),
        2 => Just(WOp::Rotate),
    ];
    if checkpoints { prop_oneof![9 => base, 1 => Just(WOp::Checkpoint)].boxed() } else { base.boxed() }
}

pub fn strategy(max_ops: usize, reps: u8) -> impl Strategy<Value = WalCase> {
    (2usize..=4, 1usize..=3, prop_oneof![3 => Just(true), 2 => Just(false)]).prop_flat_map(move |(threads, phases, checkpoints)| {
        (
            0u8..5,
            prop_oneof![Just(64u16), 100u16..600, Just(4096u16)],
            proptest::bool::weighted(0.3),
            proptest::collection::vec(proptest::collection::vec(proptest::collection::vec(wop(checkpoints), 2..=max_ops), threads), phases),
        )
            .prop_map(move |(durability, max_log_size, flusher, phases)| WalCase { durability, max_log_size, flusher, phases, reps })
    })
}

const FINAL_TAG: u64 = 999_999_999;

fn tag(t: usize, seq: usize) -> u64 {
    (t as u64 + 1) * 1_000_000 + seq as u64
}

fn record_tag(r: &WalRecord) -> Option<u64> {
    match r {
        WalRecord::CreateNode { id, .. } => Some(id.as_u64()),
        WalRecord::TxCommit { tx_id } => Some(tx_id.as_u64()),
        _ => None,
    }
}

#[derive(Default)]
struct ThreadLog {
    /// tag -> (phase, index in the phase program, acknowledged)
    logged: Vec<(u64, usize, usize, bool)>,
    checkpoint_errs: Vec<String>,
    checkpoint_calls: usize,
    other_errs: Vec<String>,
}

fn one_rep(c: &WalCase) -> Result<(), Failure> {
    let scratch = scratch_dir();
    let dir = scratch.path().join("wal");
    let durability = match c.durability % 5 {
        0 => DurabilityMode::Sync,
        1 => DurabilityMode::Batch { max_delay_ms: 0, max_records: 1 },
        2 => DurabilityMode::Batch { max_delay_ms: 3_600_000, max_records: 3 },
        3 => DurabilityMode::NoSync,
        _ => DurabilityMode::Adaptive { target_interval_ms: 1 },
    };
    let cfg = WalConfig { durability, max_log_size: u64::from(c.max_log_size), compression: false };
    let wal = Arc::new(guard("WalManager::with_config", || WalManager::with_config(&dir, cfg))?.map_err(|e| Failure {
        signature: "c20/free_wal/open-error".into(),
        what: format!("{e}"),
    })?);
    let mut flusher = if c.flusher { Some(guard("AdaptiveFlusher::new", || AdaptiveFlusher::new(Arc::clone(&wal), 0))?) } else { None };
    let n = c.phases.first().map_or(0, Vec::len);
    let n_phases = c.phases.len();
    let bodies: Vec<FreeBody<ThreadLog>> = (0..n)
        .map(|t| {
            let wal = Arc::clone(&wal);
            let progs: Vec<Vec<WOp>> = c.phases.iter().map(|p| p[t].clone()).collect();
            Box::new(move |gate: &Gate| -> ThreadLog {
                let mut out = ThreadLog::default();
                let mut seq = 0usize;
                for (p, prog) in progs.iter().enumerate() {
                    if p > 0 && !gate.wait() {
                        return out;
                    }
                    for (i, op) in prog.iter().enumerate() {
                        match op {
                            WOp::Log { pad } => {
                                let tg = tag(t, seq);
                                seq += 1;
                                let rec = WalRecord::CreateNode { id: NodeId::new(tg), labels: vec!["p".repeat(*pad as usize)] };
                                let r = wal.log(&rec);
                                out.logged.push((tg, p, i, r.is_ok()));
                            }
                            WOp::Commit => {
                                let tg = tag(t, seq);
                                seq += 1;
                                let r = wal.log(&WalRecord::TxCommit { tx_id: TxId::new(tg) });
                                out.logged.push((tg, p, i, r.is_ok()));
                            }
                            WOp::Sync => {
                                if let Err(e) = wal.sync() {
                                    out.other_errs.push(format!("sync: {e}"));
                                }
                            }
                            WOp::Flush => {
                                if let Err(e) = wal.flush() {
                                    out.other_errs.push(format!("flush: {e}"));
                                }
                            }
                            WOp::Rotate => {
                                if let Err(e) = wal.rotate() {
                                    out.other_errs.push(format!("rotate: {e}"));
                                }
                            }
                            WOp::Checkpoint => {
                                out.checkpoint_calls += 1;
                                // epoch far above any file sequence: old files are eligible for truncation
                                if let Err(e) = wal.checkpoint(TxId::new(tag(t, 900_000 + i)), EpochId::new(1_000_000)) {
                                    out.checkpoint_errs.push(format!("{e}"));
                                }
                            }
                        }
                    }
                }
                out
            }) as FreeBody<ThreadLog>
        })
        .collect();
    let outcome = run_free_threads(bodies);
    let logs = match settle("free_wal", outcome, "one WalManager") {
        Ok(l) => l,
        Err(f) => {
            // a stalled WAL would also block the flusher's shutdown: leave it behind
            if f.signature.ends_with("/stall") {
                std::mem::forget(flusher.take());
            }
            return Err(f);
        }
    };
    // final commit marker + sync, then close
    let fin = guard("log", || wal.log(&WalRecord::TxCommit { tx_id: TxId::new(FINAL_TAG) }))?;
    if let Err(e) = fin {
        return fail("c20/free_wal/final-log-error", format!("{e}"));
    }
    if let Err(e) = guard("sync", || wal.sync())? {
        return fail("c20/free_wal/final-sync-error", format!("{e}"));
    }
    let count = guard("record_count", || wal.record_count())?;
    if let Some(mut f) = flusher.take() {
        let r = guard("AdaptiveFlusher::shutdown", || f.shutdown())?;
        if let Err(e) = r {
            return fail("c20/free_wal/flusher-shutdown-error", e);
        }
    }
    drop(wal);

    let describe = || format!("durability {:?}, max_log_size {}, flusher {}", durability, c.max_log_size, c.flusher);
    for l in &logs {
        if let Some(e) = l.other_errs.first() {
            return fail("c20/free_wal/operation-error", format!("{e} ({})", describe()));
        }
    }
    let checkpoint_errs: Vec<&String> = logs.iter().flat_map(|l| l.checkpoint_errs.iter()).collect();
    let checkpoint_calls: usize = logs.iter().map(|l| l.checkpoint_calls).sum();
    if let Some(e) = checkpoint_errs.first() {
        let checkpointers = (0..n).filter(|t| c.phases.iter().any(|p| p[*t].contains(&WOp::Checkpoint))).count();
        let sig = if checkpointers >= 2 { "c20/free_wal/concurrent-checkpoint-error" } else { "c20/free_wal/checkpoint-error" };
        return fail(sig, format!("checkpoint() returned {e} ({} of {checkpoint_calls} calls failed; {})", checkpoint_errs.len(), describe()));
    }

    let recovered = match guard("WalRecovery::recover", || WalRecovery::new(&dir).recover())? {
        Ok(r) => r,
        Err(e) => return fail("c20/free_wal/recovery-error", format!("recover() failed: {e} ({})", describe())),
    };
    let rec_tags: Vec<u64> = recovered.iter().filter_map(record_tag).collect();

    // what was logged, and what is owed
    let mut logged: BTreeMap<u64, bool> = BTreeMap::new();
    let last_cp_phase = (0..n_phases).rev().find(|p| c.phases[*p].iter().any(|prog| prog.contains(&WOp::Checkpoint)));
    let mut owed: BTreeSet<u64> = BTreeSet::new();
    for (t, l) in logs.iter().enumerate() {
        for (tg, p, i, acked) in &l.logged {
            logged.insert(*tg, *acked);
            if !*acked {
                continue;
            }
            let must = match last_cp_phase {
                None => true,
                Some(cp) if *p > cp => true,
                Some(cp) if *p == cp => {
                    let cps: Vec<usize> = (0..n).filter(|u| c.phases[cp][*u].contains(&WOp::Checkpoint)).collect();
                    cps == vec![t] && c.phases[cp][t].iter().rposition(|o| *o == WOp::Checkpoint).is_some_and(|last| *i > last)
                }
                _ => false,
            };
            if must {
                owed.insert(*tg);
            }
        }
    }
    logged.insert(FINAL_TAG, true);
    owed.insert(FINAL_TAG);
    if let Some((tg, _)) = logged.iter().find(|(_, a)| !**a) {
        return fail("c20/free_wal/log-error", format!("log() of record {tg} returned an error ({})", describe()));
    }

    let mut seen: BTreeSet<u64> = BTreeSet::new();
    for tg in &rec_tags {
        if !logged.contains_key(tg) {
            return fail("c20/free_wal/invented-record", format!("recovered record {tg} was never logged ({})", describe()));
        }
        if !seen.insert(*tg) {
            return fail("c20/free_wal/record-twice", format!("record {tg} recovered twice ({})", describe()));
        }
    }
    let lost: Vec<u64> = owed.iter().copied().filter(|tg| !seen.contains(tg)).collect();
    if !lost.is_empty() {
        let sig = if last_cp_phase.is_some() { "c20/free_wal/acknowledged-record-lost-after-checkpoint" } else { "c20/free_wal/acknowledged-record-lost" };
        return fail(
            sig,
            format!(
                "{} acknowledged records that no checkpoint can have retired are not recovered, e.g. {:?}; recovered {} of {} logged ({})",
                lost.len(),
                &lost[..lost.len().min(6)],
                seen.len(),
                logged.len(),
                describe()
            ),
        );
    }
    // per-thread order
    let mut last: BTreeMap<u64, u64> = BTreeMap::new();
    for tg in &rec_tags {
        if *tg == FINAL_TAG {
            continue;
        }
        let t = tg / 1_000_000;
        if let Some(prev) = last.insert(t, *tg) {
            if prev > *tg {
                return fail(
                    "c20/free_wal/thread-order-reversed",
                    format!("thread {}'s record {} is replayed before its earlier record {} ({})", t - 1, prev % 1_000_000, tg % 1_000_000, describe()),
                );
            }
        }
    }
    let appends = logged.len() as u64 + checkpoint_calls as u64;
    if count != appends {
        return fail("c20/free_wal/record-count", format!("record_count() = {count} after {appends} successful appends ({})", describe()));
    }
    Ok(())
}

pub fn run_case(c: &WalCase) -> CaseResult {
    for _ in 0..c.reps.max(1) {
        one_rep(c)?;
    }
    let n = c.phases.first().map_or(0, Vec::len);
    let loggers = (0..n).filter(|t| c.phases.iter().any(|p| p[*t].iter().any(|o| matches!(o, WOp::Log { .. } | WOp::Commit)))).count();
    let bytes: usize = c.phases.iter().flatten().flatten().map(|o| if let WOp::Log { pad } = o { 12 + *pad as usize } else { 0 }).sum();
    let rotating = bytes > 2 * c.max_log_size as usize || c.phases.iter().flatten().flatten().any(|o| *o == WOp::Rotate);
    let cp = c.phases.iter().flatten().flatten().any(|o| *o == WOp::Checkpoint);
    let class = format!("{n}thr/{}{}{}", if rotating { "rotating" } else { "one-file" }, if cp { "/checkpoint" } else { "" }, if c.flusher { "/flusher" } else { "" });
    ok(loggers >= 2 && rotating, class, hash_dbg(c))
}
