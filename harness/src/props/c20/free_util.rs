//! Shared plumbing of the uncontrolled ("free") sub-checks: real threads behind a start gate, panic capture per
//! thread, and a watchdog so that a deadlock inside grafeo becomes a failure signature instead of a hang of the
//! harness. Every verdict the callers draw is a function of the values the threads returned and of the state at
//! quiescence; the watchdog deadline is the only use of the clock (liveness, DESIGN.md §6).

use std::sync::mpsc;
use std::sync::{Arc, Condvar, Mutex};
use std::time::{Duration, Instant};

use crate::driver::{Failure, PanicInfo, catch};

/// No progress of a handful of microsecond-scale operations for this long = deadlock / livelock.
pub const STALL: Duration = Duration::from_secs(120);

/// A reusable barrier that can be aborted: once a participant has panicked (or returned early) nobody may wait
/// for it any more, otherwise the panic would be reported as a stall.
pub struct Gate {
    st: Mutex<GateSt>,
    cv: Condvar,
    n: usize,
    /// participants that have left the condvar barrier, over all generations (spin rendezvous, see `wait_leader`)
    released: std::sync::atomic::AtomicU64,
}

struct GateSt {
    waiting: usize,
    generation: u64,
    aborted: bool,
}

impl Gate {
    pub fn new(n: usize) -> Arc<Gate> {
        Arc::new(Gate { st: Mutex::new(GateSt { waiting: 0, generation: 0, aborted: false }), cv: Condvar::new(), n, released: std::sync::atomic::AtomicU64::new(0) })
    }

    /// Waits for all `n` participants. Returns `false` when the gate was aborted (the caller should return).
    /// The last arriver (the "leader") gets `Some(true)` from `wait_leader`.
    pub fn wait(&self) -> bool {
        self.wait_leader().is_some()
    }

    /// `None` = aborted, `Some(true)` = this participant arrived last, `Some(false)` otherwise.
    ///
    /// Waking up from a condvar takes tens of microseconds and differs per thread — longer than many of the
    /// programs run here. So after the blocking barrier the participants meet once more in a short, bounded spin:
    /// they leave within a fraction of a microsecond of each other, which is what makes them overlap.
    pub fn wait_leader(&self) -> Option<bool> {
        use std::sync::atomic::Ordering;
        let (leader, generation) = {
            let mut st = self.st.lock().unwrap();
            if st.aborted {
                return None;
            }
            st.waiting += 1;
            if st.waiting == self.n {
                st.waiting = 0;
                st.generation += 1;
                self.cv.notify_all();
                (true, st.generation)
            } else {
                let my_gen = st.generation;
                while st.generation == my_gen && !st.aborted {
                    st = self.cv.wait(st).unwrap();
                }
                if st.generation == my_gen {
                    return None;
                }
                (false, my_gen + 1)
            }
        };
        let target = generation * self.n as u64;
        self.released.fetch_add(1, Ordering::AcqRel);
        let mut spins = 0u32;
        while self.released.load(Ordering::Acquire) < target && spins < 300_000 {
            std::hint::spin_loop();
            spins += 1;
        }
        Some(leader)
    }

    pub fn abort(&self) {
        let mut st = self.st.lock().unwrap();
        st.aborted = true;
        self.cv.notify_all();
    }
}

pub type FreeBody<T> = Box<dyn FnOnce(&Gate) -> T + Send + 'static>;

pub enum FreeOutcome<T> {
    /// every thread returned (or panicked): per thread, in spawn order
    Done(Vec<Result<T, PanicInfo>>),
    /// these threads did not finish within `STALL`; they are left behind (detached)
    Stalled(Vec<usize>),
}

/// Runs the bodies on real threads. All of them pass `gate.wait()` once before their body starts (the start
/// barrier); bodies may use the same gate for further phase barriers. A panicking body aborts the gate.
pub fn run_free_threads<T: Send + 'static>(bodies: Vec<FreeBody<T>>) -> FreeOutcome<T> {
    let n = bodies.len();
    let gate = Gate::new(n);
    let (tx, rx) = mpsc::channel::<(usize, Result<T, PanicInfo>)>();
    for (i, body) in bodies.into_iter().enumerate() {
        let tgate = Arc::clone(&gate);
        let tx = tx.clone();
        let spawned = std::thread::Builder::new().name(format!("c20-free-{i}")).spawn(move || {
            let gate = tgate;
            let r = catch(|| {
                gate.wait();
                body(&gate)
            });
            if r.is_err() {
                gate.abort();
            }
            let _ = tx.send((i, r));
        });
        if spawned.is_err() {
            gate.abort();
        }
    }
    drop(tx);
    let mut out: Vec<Option<Result<T, PanicInfo>>> = (0..n).map(|_| None).collect();
    let mut got = 0usize;
    let deadline = Instant::now() + STALL;
    while got < n {
        let left = deadline.saturating_duration_since(Instant::now());
        match rx.recv_timeout(left) {
            Ok((i, r)) => {
                out[i] = Some(r);
                got += 1;
            }
            Err(mpsc::RecvTimeoutError::Timeout) => {
                gate.abort();
                return FreeOutcome::Stalled((0..n).filter(|i| out[*i].is_none()).collect());
            }
            Err(mpsc::RecvTimeoutError::Disconnected) => {
                // a thread could not be spawned / vanished without reporting
                return FreeOutcome::Stalled((0..n).filter(|i| out[*i].is_none()).collect());
            }
        }
    }
    FreeOutcome::Done(out.into_iter().map(|o| o.expect("all reported")).collect())
}

/// Unwraps a `FreeOutcome`: a stall or a panic becomes a `Failure` whose signature starts with the sub-check's
/// prefix (`c20/free_x/stall`) or is the panic site.
pub fn settle<T>(sub: &str, outcome: FreeOutcome<T>, ctx: &str) -> Result<Vec<T>, Failure> {
    match outcome {
        FreeOutcome::Stalled(who) => Err(Failure {
            signature: format!("c20/{sub}/stall"),
            what: format!("threads {who:?} made no progress for {} s (deadlock or livelock); {ctx}", STALL.as_secs()),
        }),
        FreeOutcome::Done(rs) => {
            let mut out = Vec::new();
            for (i, r) in rs.into_iter().enumerate() {
                match r {
                    Ok(v) => out.push(v),
                    Err(p) => {
                        return Err(Failure { signature: p.signature(), what: format!("thread {i} panicked at {}: {}; {ctx}", p.file, p.msg) });
                    }
                }
            }
            Ok(out)
        }
    }
}
