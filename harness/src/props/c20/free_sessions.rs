//! `free_sessions`: 2–4 real threads, each with its own `Session` on one in-memory `GrafeoDB`, executing generated
//! GQL / Cypher statements (INSERT / CREATE, MATCH … SET, MATCH … RETURN) and begin / commit / rollback over a small
//! shared graph. The plan cache, the transaction manager, the catalog-like label / key tables and the store are
//! shared between the sessions.
//!
//! The graph has three regions, so that every verdict is independent of the interleaving *and* of the recorded
//! MVCC findings (dirty reads, in-place property writes — C01/C02):
//! * label `C`: built before the threads start, never written. Every read over it must return exactly what the same
//!   text returns on a fresh single-threaded database — rows and columns (this is also the plan-cache oracle: a plan
//!   cached for another text or another language gives other columns / rows);
//! * label `A`: three shared nodes plus auto-commit insertions; `MATCH (n:A) … SET n.y|n.s = …` from every thread.
//!   Nodes of `A` are never rolled back or deleted;
//! * label `B`: insertions inside transactions (committed or rolled back) and auto-commit insertions; never SET.
//! `x` and `w` (a unique tag per insertion) are written only by the insertion itself.
//!
//! Oracle: no panic, no stall (watchdog), no statement error; every read returns the columns the text determines;
//! reads over `A`/`B` mention only ids that some insertion of the case returned, with that insertion's `x` (or NULL:
//! INSERT is node creation followed by property writes, like DETACH DELETE a composite); node and edge ids unique;
//! at quiescence every acknowledged insertion (auto-commit, or in a transaction whose commit returned Ok) is there
//! with its label, `x` and tag, every rolled-back insertion is gone through every access path, nothing else exists,
//! the derived structures agree with the primary data (C14's battery on the reconstruction), the transaction
//! manager's epoch equals the number of successful commits, the store's epoch equals the manager's, and every
//! thread saw the epoch grow strictly with each of its own commits.

use std::collections::{BTreeMap, BTreeSet};
use std::sync::Arc;

use grafeo_common::types::{EdgeId, NodeId, Value};
use grafeo_engine::{GrafeoDB, Session};
use proptest::prelude::*;
use serde::{Deserialize, Serialize};

use super::free_util::{FreeBody, Gate, run_free_threads, settle};
use crate::driver::{CaseResult, Failure, fail, guard, hash_dbg, ok, pick};

/// Rows read over A / B that named a node inserted by *another* thread (overlap witness for the evidence notes;
/// depends on timing and is not part of any verdict).
pub static FOREIGN_ROWS: std::sync::atomic::AtomicU64 = std::sync::atomic::AtomicU64::new(0);

#[derive(Clone, Debug, Serialize, Deserialize)]
pub enum SOp {
    /// via 0 GQL INSERT, 1 Cypher CREATE, 2 session API; label B when `b` (always B inside a transaction)
    Insert { via: u8, b: bool, x: u8 },
    /// `MATCH (n:A) [WHERE n.x = f] SET n.<y|s> = v`
    SetLabel { cypher: bool, key_s: bool, val: u8, filter: Option<u8> },
    /// `MATCH (n) WHERE id(n) = <shared A node> SET n.<y|s> = v`
    SetId { cypher: bool, which: u16, key_s: bool, val: u8 },
    /// a read over the immutable region, checked against the sequential reference
    ReadFixed { cypher: bool, q: u8 },
    /// a read over the mutable regions
    ReadMut { cypher: bool, q: u8, v: u8 },
    /// session API: edge of type R between two shared A nodes
    Edge { a: u16, b: u16 },
    Begin,
    Commit,
    Rollback,
}

#[derive(Clone, Debug, Serialize, Deserialize)]
pub struct SessCase {
    pub index_x: bool,
    pub programs: Vec<Vec<SOp>>,
    pub reps: u8,
}

fn sop() -> impl Strategy<Value = SOp> {
    prop_oneof![
        6 => (0u8..3, any::<bool>(), 0u8..4).prop_map(|(via, b, x)| SOp::Insert { via, b, x }),
        4 => (any::<bool>(), any::<bool>(), 0u8..4, proptest::option::of(0u8..4)).prop_map(|(cypher, key_s, val, filter)| SOp::SetLabel { cypher, key_s, val, filter }),
        2 => (any::<bool>(), any::<u16>(), any::<bool>(), 0u8..4).prop_map(|(cypher, which, key_s, val)| SOp::SetId { cypher, which, key_s, val }),
        5 => (any::<bool>(), 0u8..FIXED.len() as u8).prop_map(|(cypher, q)| SOp::ReadFixed { cypher, q }),
        4 => (any::<bool>(), 0u8..5, 0u8..4).prop_map(|(cypher, q, v)| SOp::ReadMut { cypher, q, v }),
        2 => (any::<u16>(), any::<u16>()).prop_map(|(a, b)| SOp::Edge { a, b }),
        2 => Just(SOp::Begin),
        2 => Just(SOp::Commit),
        1 => Just(SOp::Rollback),
    ]
}

pub fn strategy(max_ops: usize, reps: u8) -> impl Strategy<Value = SessCase> {
    (any::<bool>(), proptest::collection::vec(proptest::collection::vec(sop(), 6..=max_ops), 2..=4)).prop_map(move |(index_x, programs)| SessCase { index_x, programs, reps })
}

/// Reads over the immutable region. All are valid GQL and Cypher; F9 means something else in each (NOT binds
/// differently), and a SET statement has other columns in each, which is what makes a cache that confuses the
/// languages visible.
const FIXED: [&str; 11] = [
    "MATCH (n:C) RETURN id(n), n.x, n.y, n.s",
    "MATCH (n:C) WHERE n.x = 1 RETURN id(n) AS i, n.y AS yy",
    "MATCH (a:C)-[r:S]->(b:C) RETURN id(a), id(b)",
    "MATCH (a:C)-[:S]->(b:C)-[:S]->(c:C) RETURN id(a), id(c)",
    "MATCH (n:C) RETURN count(n) AS c",
    "MATCH (n:C) RETURN n.s, count(n)",
    "MATCH (n:C) RETURN sum(n.y)",
    "MATCH (n:C) RETURN DISTINCT n.s",
    "MATCH (n:C) WHERE n.y > 10 AND n.s = 'a' RETURN id(n)",
    "MATCH (n:C) WHERE NOT n.x = 1 RETURN id(n)",
    "MATCH (n:C) WHERE n.s <> 'a' RETURN id(n)",
];

fn mut_text(q: u8, v: u8) -> String {
    match q % 5 {
        0 => "MATCH (n:A) RETURN id(n), n.x".to_string(),
        1 => "MATCH (n:B) RETURN id(n), n.x".to_string(),
        2 => format!("MATCH (n:A) WHERE n.x = {v} RETURN id(n), n.x"),
        3 => "MATCH (n:A) RETURN count(n) AS c".to_string(),
        _ => "MATCH (a:A)-[r:R]->(b:A) RETURN id(a), id(b)".to_string(),
    }
}

fn set_label_text(key_s: bool, val: u8, filter: Option<u8>) -> String {
    let rhs = if key_s { format!("'{}'", ["a", "b", "q", "z"][val as usize % 4]) } else { format!("{}", 100 + i64::from(val)) };
    let key = if key_s { "s" } else { "y" };
    match filter {
        Some(f) => format!("MATCH (n:A) WHERE n.x = {f} SET n.{key} = {rhs}"),
        None => format!("MATCH (n:A) SET n.{key} = {rhs}"),
    }
}

fn set_id_text(id: u64, key_s: bool, val: u8) -> String {
    let rhs = if key_s { format!("'{}'", ["a", "b", "q", "z"][val as usize % 4]) } else { format!("{}", 100 + i64::from(val)) };
    format!("MATCH (n) WHERE id(n) = {id} SET n.{} = {rhs}", if key_s { "s" } else { "y" })
}

struct Setup {
    c_nodes: Vec<NodeId>,
    a_nodes: Vec<NodeId>,
    edges: Vec<EdgeId>,
}

fn build_setup(db: &GrafeoDB, index_x: bool) -> Setup {
    if index_x {
        db.create_property_index("x");
    }
    let mut c_nodes = Vec::new();
    for i in 0..4i64 {
        let s: &str = if i % 2 == 0 { "a" } else { "b" };
        c_nodes.push(db.create_node_with_props(&["C"], [("x", Value::Int64(i % 3)), ("y", Value::Int64(10 + i)), ("s", Value::String(s.into()))]));
    }
    let sess = db.session();
    let edges = vec![
        sess.create_edge(c_nodes[0], c_nodes[1], "S"),
        sess.create_edge(c_nodes[1], c_nodes[2], "S"),
        sess.create_edge(c_nodes[2], c_nodes[0], "S"),
        sess.create_edge(c_nodes[0], c_nodes[3], "S"),
    ];
    let a_nodes = (0..3i64).map(|i| db.create_node_with_props(&["A"], [("x", Value::Int64(i)), ("w", Value::Int64(900 + i))])).collect();
    Setup { c_nodes, a_nodes, edges }
}

type Rows = Vec<Vec<Value>>;

fn exec(sess: &Session, cypher: bool, q: &str) -> Result<(Vec<String>, Rows), Failure> {
    let r = if cypher { sess.execute_cypher(q) } else { sess.execute(q) };
    match r {
        Ok(r) => Ok((r.columns, r.rows)),
        Err(e) => {
            let msg: String = e.to_string().chars().map(|ch| if ch.is_ascii_digit() { '#' } else { ch }).take(60).collect();
            fail(format!("c20/free_sessions/statement-error:{msg}"), format!("{} {q:?} failed under concurrency: {e}", if cypher { "Cypher" } else { "GQL" }))
        }
    }
}

fn canon(rows: &Rows) -> Vec<String> {
    let mut v: Vec<String> = rows.iter().map(|r| format!("{r:?}")).collect();
    v.sort();
    v
}

fn as_i(v: &Value) -> Option<i64> {
    if let Value::Int64(i) = v { Some(*i) } else { None }
}

/// (language, text) -> (columns, canonical rows) on a fresh single-threaded database holding only the setup.
type Reference = BTreeMap<(bool, String), (Vec<String>, Vec<String>)>;

fn reference(c: &SessCase) -> Result<Reference, Failure> {
    let db = guard("GrafeoDB::new_in_memory", GrafeoDB::new_in_memory)?;
    guard("setup", || build_setup(&db, c.index_x))?;
    let mut out = Reference::new();
    let mut texts: BTreeSet<(bool, String)> = BTreeSet::new();
    for cy in [false, true] {
        for q in FIXED {
            texts.insert((cy, q.to_string()));
        }
    }
    // reads over the mutable regions and SET statements: only their columns are taken from here. The SETs run last
    // and on this scratch database only.
    let mut later: BTreeSet<(bool, String)> = BTreeSet::new();
    for op in c.programs.iter().flatten() {
        match op {
            SOp::ReadMut { cypher, q, v } => {
                texts.insert((*cypher, mut_text(*q, *v)));
            }
            SOp::SetLabel { cypher, key_s, val, filter } => {
                later.insert((*cypher, set_label_text(*key_s, *val, *filter)));
            }
            _ => {}
        }
    }
    let sess = db.session();
    for (cy, q) in texts.into_iter().chain(later) {
        let (cols, rows) = guard("reference", || exec(&sess, cy, &q))?.map_err(|f| Failure { signature: format!("c20/free_sessions/reference/{}", f.signature), what: f.what })?;
        out.insert((cy, q), (cols, canon(&rows)));
    }
    Ok(out)
}

#[derive(Clone, Debug)]
struct Ins {
    id: u64,
    tag: i64,
    b: bool,
    x: i64,
    /// Some(true) acknowledged (auto-commit or committed), Some(false) rolled back
    kept: bool,
}

#[derive(Default)]
struct ThreadOut {
    inserts: Vec<Ins>,
    /// (edge id, kept)
    edges: Vec<(u64, bool)>,
    /// (id, x) pairs read from A / B, to be checked against the insertions of all threads
    seen: Vec<(i64, Option<i64>, String)>,
    commits: u64,
    statements: usize,
}

fn thread_body(t: usize, db: &GrafeoDB, setup: &Setup, prog: &[SOp], refr: &Reference) -> Result<ThreadOut, Failure> {
    let mut out = ThreadOut::default();
    let mut sess = db.session();
    let tm = Arc::clone(db.verif_tx_manager());
    let mut in_tx = false;
    let mut tx_inserts: Vec<usize> = Vec::new();
    let mut tx_edges: Vec<usize> = Vec::new();
    let mut last_epoch = 0u64;
    let check_cols = |cy: bool, q: &str, cols: &[String]| -> Result<(), Failure> {
        match refr.get(&(cy, q.to_string())) {
            Some((want, _)) if want.as_slice() != cols => fail(
                "c20/free_sessions/columns-of-another-query",
                format!("thread {t}: {} {q:?} returned columns {cols:?}; on a fresh database the same text returns {want:?}", if cy { "Cypher" } else { "GQL" }),
            ),
            _ => Ok(()),
        }
    };
    for (step, op) in prog.iter().enumerate() {
        match op {
            SOp::Insert { via, b, x } => {
                let b = *b || in_tx;
                let label = if b { "B" } else { "A" };
                let tag = (t as i64 + 1) * 1000 + step as i64;
                let xv = i64::from(*x);
                let id = match via % 3 {
                    2 => sess.create_node_with_props(&[label], [("x", Value::Int64(xv)), ("w", Value::Int64(tag))]).as_u64(),
                    v => {
                        let cy = v == 1;
                        let q = format!("{} (:{label} {{x: {xv}, w: {tag}}})", if cy { "CREATE" } else { "INSERT" });
                        let (_, rows) = exec(&sess, cy, &q)?;
                        out.statements += 1;
                        match rows.first().and_then(|r| r.first()).and_then(as_i) {
                            Some(i) if rows.len() == 1 => i as u64,
                            _ => return fail("c20/free_sessions/insert-no-id", format!("thread {t} step {step}: {q:?} returned {rows:?}")),
                        }
                    }
                };
                out.inserts.push(Ins { id, tag, b, x: xv, kept: true });
                if in_tx {
                    tx_inserts.push(out.inserts.len() - 1);
                }
            }
            SOp::SetLabel { cypher, key_s, val, filter } => {
                let q = set_label_text(*key_s, *val, *filter);
                let (cols, _) = exec(&sess, *cypher, &q)?;
                out.statements += 1;
                check_cols(*cypher, &q, &cols)?;
            }
            SOp::SetId { cypher, which, key_s, val } => {
                let id = setup.a_nodes[pick(*which, setup.a_nodes.len())].as_u64();
                exec(&sess, *cypher, &set_id_text(id, *key_s, *val))?;
                out.statements += 1;
            }
            SOp::ReadFixed { cypher, q } => {
                let text = FIXED[*q as usize % FIXED.len()];
                let (cols, rows) = exec(&sess, *cypher, text)?;
                out.statements += 1;
                check_cols(*cypher, text, &cols)?;
                if let Some((_, want)) = refr.get(&(*cypher, text.to_string())) {
                    let got = canon(&rows);
                    if got != *want {
                        return fail(
                            "c20/free_sessions/immutable-region-read-differs",
                            format!("thread {t} step {step}: {} {text:?} over nodes nobody writes returned {got:?}, sequentially {want:?}", if *cypher { "Cypher" } else { "GQL" }),
                        );
                    }
                }
            }
            SOp::ReadMut { cypher, q, v } => {
                let text = mut_text(*q, *v);
                let (cols, rows) = exec(&sess, *cypher, &text)?;
                out.statements += 1;
                check_cols(*cypher, &text, &cols)?;
                match q % 5 {
                    0 | 1 | 2 => {
                        for r in &rows {
                            let (Some(id), xs) = (r.first().and_then(as_i), r.get(1)) else {
                                return fail("c20/free_sessions/read-shape", format!("thread {t} step {step}: {text:?} returned row {r:?}"));
                            };
                            let x = match xs {
                                Some(Value::Int64(i)) => Some(*i),
                                Some(Value::Null) | None => None,
                                other => return fail("c20/free_sessions/read-shape", format!("thread {t} step {step}: {text:?} returned x = {other:?}")),
                            };
                            if q % 5 == 2 && x != Some(i64::from(*v)) {
                                return fail("c20/free_sessions/filter-not-applied", format!("thread {t} step {step}: {text:?} returned row {r:?}"));
                            }
                            out.seen.push((id, x, text.clone()));
                        }
                    }
                    3 => {
                        let n = rows.first().and_then(|r| r.first()).and_then(as_i);
                        if rows.len() != 1 || n.is_none_or(|n| n < setup.a_nodes.len() as i64) {
                            return fail("c20/free_sessions/count-too-small", format!("thread {t} step {step}: {text:?} returned {rows:?}; {} nodes of A exist from the start and are never deleted", setup.a_nodes.len()));
                        }
                    }
                    _ => {
                        let shared: Vec<i64> = setup.a_nodes.iter().map(|n| n.as_u64() as i64).collect();
                        for r in &rows {
                            let okr = r.len() == 2 && r.iter().all(|v| as_i(v).is_some_and(|i| shared.contains(&i)));
                            if !okr {
                                return fail("c20/free_sessions/edge-read", format!("thread {t} step {step}: {text:?} returned row {r:?}; R edges only join {shared:?}"));
                            }
                        }
                    }
                }
            }
            SOp::Edge { a, b } => {
                let (s, d) = (setup.a_nodes[pick(*a, setup.a_nodes.len())], setup.a_nodes[pick(*b, setup.a_nodes.len())]);
                let e = sess.create_edge(s, d, "R").as_u64();
                out.edges.push((e, true));
                if in_tx {
                    tx_edges.push(out.edges.len() - 1);
                }
            }
            SOp::Begin => {
                if !in_tx {
                    if let Err(e) = sess.begin_tx() {
                        return fail("c20/free_sessions/begin-error", format!("thread {t} step {step}: {e}"));
                    }
                    in_tx = true;
                }
            }
            SOp::Commit => {
                if in_tx {
                    if let Err(e) = sess.commit() {
                        return fail("c20/free_sessions/commit-error", format!("thread {t} step {step}: commit of a transaction nobody conflicts with: {e}"));
                    }
                    in_tx = false;
                    tx_inserts.clear();
                    tx_edges.clear();
                    out.commits += 1;
                    let now = tm.current_epoch().as_u64();
                    if now <= last_epoch {
                        return fail("c20/free_sessions/epoch-not-increasing", format!("thread {t} step {step}: epoch {now} after an own commit, {last_epoch} after the previous one"));
                    }
                    last_epoch = now;
                }
            }
            SOp::Rollback => {
                if in_tx {
                    if let Err(e) = sess.rollback() {
                        return fail("c20/free_sessions/rollback-error", format!("thread {t} step {step}: {e}"));
                    }
                    in_tx = false;
                    for i in tx_inserts.drain(..) {
                        out.inserts[i].kept = false;
                    }
                    for i in tx_edges.drain(..) {
                        out.edges[i].1 = false;
                    }
                }
            }
        }
    }
    if in_tx {
        if let Err(e) = sess.rollback() {
            return fail("c20/free_sessions/rollback-error", format!("thread {t} at the end: {e}"));
        }
        for i in tx_inserts.drain(..) {
            out.inserts[i].kept = false;
        }
        for i in tx_edges.drain(..) {
            out.edges[i].1 = false;
        }
    }
    Ok(out)
}

fn one_rep(c: &SessCase, refr: &Arc<Reference>) -> Result<usize, Failure> {
    let db = Arc::new(guard("GrafeoDB::new_in_memory", GrafeoDB::new_in_memory)?);
    let setup = Arc::new(guard("setup", || build_setup(&db, c.index_x))?);
    let bodies: Vec<FreeBody<Result<ThreadOut, Failure>>> = c
        .programs
        .iter()
        .enumerate()
        .map(|(t, prog)| {
            let db = Arc::clone(&db);
            let setup = Arc::clone(&setup);
            let prog = prog.clone();
            let refr = Arc::clone(refr);
            Box::new(move |_g: &Gate| thread_body(t, &db, &setup, &prog, &refr)) as FreeBody<Result<ThreadOut, Failure>>
        })
        .collect();
    let outs = settle("free_sessions", run_free_threads(bodies), "sessions on one GrafeoDB")?;
    let mut inserts: Vec<Ins> = Vec::new();
    let mut edges: Vec<(u64, bool)> = Vec::new();
    let mut seen = Vec::new();
    let mut commits = 0u64;
    let mut statements = 0usize;
    for o in outs {
        let o = o?;
        let own: BTreeSet<i64> = o.inserts.iter().map(|i| i.id as i64).collect();
        let shared: BTreeSet<i64> = setup.a_nodes.iter().map(|n| n.as_u64() as i64).collect();
        let foreign = o.seen.iter().filter(|(id, _, _)| !own.contains(id) && !shared.contains(id)).count();
        FOREIGN_ROWS.fetch_add(foreign as u64, std::sync::atomic::Ordering::Relaxed);
        inserts.extend(o.inserts);
        edges.extend(o.edges);
        seen.extend(o.seen);
        commits += o.commits;
        statements += o.statements;
    }
    // ---- identifiers unique ----------------------------------------------------------------------
    let mut node_ids: Vec<u64> = setup.c_nodes.iter().chain(setup.a_nodes.iter()).map(|n| n.as_u64()).collect();
    node_ids.extend(inserts.iter().map(|i| i.id));
    node_ids.sort_unstable();
    if let Some(w) = node_ids.windows(2).find(|w| w[0] == w[1]) {
        return fail("c20/free_sessions/duplicate-node-id", format!("node id {} was handed out twice; insertions {inserts:?}", w[0]));
    }
    let mut edge_ids: Vec<u64> = setup.edges.iter().map(|e| e.as_u64()).collect();
    edge_ids.extend(edges.iter().map(|e| e.0));
    edge_ids.sort_unstable();
    if let Some(w) = edge_ids.windows(2).find(|w| w[0] == w[1]) {
        return fail("c20/free_sessions/duplicate-edge-id", format!("edge id {} was handed out twice", w[0]));
    }
    // ---- what the reads saw ----------------------------------------------------------------------
    let mut x_of: BTreeMap<i64, i64> = inserts.iter().map(|i| (i.id as i64, i.x)).collect();
    for (i, n) in setup.a_nodes.iter().enumerate() {
        x_of.insert(n.as_u64() as i64, i as i64);
    }
    for (id, x, text) in &seen {
        match x_of.get(id) {
            None => return fail("c20/free_sessions/read-unknown-node", format!("{text:?} returned node {id} which no insertion of this run created")),
            Some(want) if x.is_some_and(|x| x != *want) => {
                return fail("c20/free_sessions/read-wrong-x", format!("{text:?} returned node {id} with x = {x:?}; it was inserted with x = {want} and x is never written again"));
            }
            _ => {}
        }
    }
    // ---- epochs ----------------------------------------------------------------------------------
    let tm = db.verif_tx_manager();
    let epoch = tm.current_epoch().as_u64();
    if epoch != commits {
        return fail("c20/free_sessions/epoch-vs-commits", format!("{commits} commits returned Ok, the transaction manager's epoch is {epoch} (commit epochs must be unique and consecutive)"));
    }
    let store = db.store();
    if store.current_epoch().as_u64() != epoch {
        return fail("c20/free_sessions/store-epoch-behind", format!("store epoch {:?}, transaction manager epoch {epoch} after all commits returned", store.current_epoch()));
    }
    if tm.active_count() != 0 {
        return fail("c20/free_sessions/transaction-left-active", format!("{} transactions still active after every session committed or rolled back", tm.active_count()));
    }
    // ---- acknowledged insertions visible, rolled-back ones gone -----------------------------------
    for ins in &inserts {
        let got = guard("get_node", || store.get_node(NodeId::new(ins.id)))?;
        match (ins.kept, got) {
            (true, None) => {
                return fail("c20/free_sessions/acknowledged-insert-lost", format!("{ins:?}: the insertion returned this id, the node is not there at quiescence"));
            }
            (false, Some(n)) => {
                return fail("c20/free_sessions/rolled-back-insert-visible", format!("{ins:?}: rolled back, but get_node returns {n:?}"));
            }
            (true, Some(n)) => {
                let labels: Vec<String> = n.labels.iter().map(|l| l.to_string()).collect();
                let w = n.properties.iter().find(|(k, _)| k.as_str() == "w").map(|(_, v)| v.clone());
                let x = n.properties.iter().find(|(k, _)| k.as_str() == "x").map(|(_, v)| v.clone());
                if labels != vec![if ins.b { "B" } else { "A" }.to_string()] || w != Some(Value::Int64(ins.tag)) || x != Some(Value::Int64(ins.x)) {
                    return fail("c20/free_sessions/acknowledged-insert-damaged", format!("{ins:?}: node at quiescence is {n:?}"));
                }
            }
            (false, None) => {}
        }
    }
    for (e, kept) in &edges {
        let present = guard("get_edge", || store.get_edge(EdgeId::new(*e)))?.is_some();
        if present != *kept {
            let sig = if *kept { "c20/free_sessions/acknowledged-edge-lost" } else { "c20/free_sessions/rolled-back-edge-visible" };
            return fail(sig, format!("edge {e}: kept = {kept}, present = {present}"));
        }
    }
    // through the query engine, fresh session: exactly the kept insertions (plus the setup)
    let sess = db.session();
    for (label, b) in [("A", false), ("B", true)] {
        let q = format!("MATCH (n:{label}) RETURN id(n), n.w");
        let (_, rows) = guard("final scan", || exec(&sess, false, &q))??;
        let got: BTreeSet<(i64, i64)> = rows.iter().filter_map(|r| Some((as_i(r.first()?)?, as_i(r.get(1)?)?))).collect();
        let mut want: BTreeSet<(i64, i64)> = inserts.iter().filter(|i| i.kept && i.b == b).map(|i| (i.id as i64, i.tag)).collect();
        if !b {
            want.extend(setup.a_nodes.iter().enumerate().map(|(i, n)| (n.as_u64() as i64, 900 + i as i64)));
        }
        if got != want || rows.len() != want.len() {
            let missing: Vec<_> = want.difference(&got).collect();
            let extra: Vec<_> = got.difference(&want).collect();
            let sig = if !missing.is_empty() { "c20/free_sessions/final-scan-misses-acknowledged-insert" } else { "c20/free_sessions/final-scan-extra-node" };
            return fail(sig, format!("{q:?} at quiescence ({} rows): missing (id, tag) {missing:?}, unexpected {extra:?}", rows.len()));
        }
    }
    // ---- derived structures agree with the primary data -------------------------------------------
    super::reconstruct_and_battery(store, &node_ids, &edge_ids, c.index_x, "free_sessions")?;
    Ok(statements)
}

pub fn run_case(c: &SessCase) -> CaseResult {
    let refr = Arc::new(reference(c)?);
    for _ in 0..c.reps.max(1) {
        one_rep(c, &refr)?;
    }
    let writers = c.programs.iter().filter(|p| p.iter().any(|o| matches!(o, SOp::Insert { .. } | SOp::SetLabel { .. } | SOp::SetId { .. }))).count();
    let tx = c.programs.iter().any(|p| {
        let b = p.iter().position(|o| matches!(o, SOp::Begin));
        b.is_some_and(|b| p[b..].iter().any(|o| matches!(o, SOp::Insert { .. })))
    });
    let both_langs = c.programs.iter().flatten().any(|o| matches!(o, SOp::ReadFixed { cypher: true, .. })) && c.programs.iter().flatten().any(|o| matches!(o, SOp::ReadFixed { cypher: false, .. }));
    let class = format!("{}thr{}{}", c.programs.len(), if tx { "/tx-insert" } else { "" }, if c.index_x { "/index" } else { "" });
    ok(writers >= 2 && both_langs, class, hash_dbg(c))
}
