//! C16 — not built yet.

use crate::driver::Run;

pub fn run(r: &mut Run) {
    r.inconclusive("C16: check not built yet");
}
