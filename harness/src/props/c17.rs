//! C17 — not built yet.

use crate::driver::Run;

pub fn run(r: &mut Run) {
    r.inconclusive("C17: check not built yet");
}
