//! C05 — a persistent database reopens to exactly the state it was closed with.
//!
//! Sub-checks
//! * `reopen`        model-based histories over a persistent `GrafeoDB` (every mutating direct-API call with
//!                   every value type, mutating statements, `wal_checkpoint()`, 1–5 open/close cycles, every
//!                   durability mode); after every reopen `dump(db) == dump(model)`; ids handed out never collide.
//! * `wal_manager`   records logged directly through `WalManager` (max_log_size from 64 B: forced rotations,
//!                   explicit `rotate()`, commit+checkpoint at generated positions, reopen cycles) and read back
//!                   through `WalRecovery::recover()` the way `GrafeoDB::with_config` does.
//! * `rotation_64mib` the database-level rotation (only reachable by writing > 64 MiB of log).
//!
//! The history generator, abstract model and canonical dump are reused by C06 (`crate::props::c05::…`).

use std::collections::{BTreeMap, BTreeSet};
use std::path::Path;

use proptest::prelude::*;
use serde::{Deserialize, Serialize};

use grafeo_adapters::storage::wal::{
    DurabilityMode as WalDurability, WalConfig, WalManager, WalRecord, WalRecovery,
};
use grafeo_common::types::{EdgeId, EpochId, NodeId, PropertyKey, Timestamp, TxId, Value};
use grafeo_engine::config::{Config, DurabilityMode};
use grafeo_engine::GrafeoDB;

use crate::driver::{CaseResult, Failure, Findings, Run, fail, guard, hash_dbg, ok, pick, scratch_dir};

// ------------------------------------------------------------------------------------------------
// Values (plain data; floats as bit patterns so that NaN payloads survive the replay file)
// ------------------------------------------------------------------------------------------------

#[derive(Debug, Clone, PartialEq, Serialize, Deserialize)]
pub enum V {
    Null,
    Bool(bool),
    Int(i64),
    /// f64 bit pattern
    F(u64),
    Str(String),
    Bytes(Vec<u8>),
    /// microseconds
    Ts(i64),
    /// f32 bit patterns
    Vector(Vec<u32>),
    List(Vec<V>),
    Map(Vec<(String, V)>),
    /// a large value described compactly: kind 0 = string of `len` bytes, 1 = bytes, 2 = list of `len / 8` integers
    /// (lengths around and above 64 KiB: one WAL record then exceeds any small internal buffer or limit)
    Big { kind: u8, len: u32 },
}

pub fn to_value(v: &V) -> Value {
    match v {
        V::Big { kind, len } => {
            let n = *len as usize;
            match kind % 3 {
                0 => Value::from("abcdefghij".repeat(n / 10 + 1)[..n].to_string().as_str()),
                1 => Value::from((0..n).map(|i| (i % 251) as u8).collect::<Vec<u8>>()),
                _ => Value::List((0..(n / 8).max(1)).map(|i| Value::Int64(i as i64)).collect::<Vec<_>>().into()),
            }
        }
        V::Null => Value::Null,
        V::Bool(b) => Value::Bool(*b),
        V::Int(i) => Value::Int64(*i),
        V::F(bits) => Value::Float64(f64::from_bits(*bits)),
        V::Str(s) => Value::from(s.as_str()),
        V::Bytes(b) => Value::from(b.clone()),
        V::Ts(t) => Value::Timestamp(Timestamp::from_micros(*t)),
        V::Vector(x) => {
            let f: Vec<f32> = x.iter().map(|b| f32::from_bits(*b)).collect();
            Value::from(f.as_slice())
        }
        V::List(l) => Value::List(l.iter().map(to_value).collect::<Vec<_>>().into()),
        V::Map(m) => {
            let mut bm = BTreeMap::new();
            for (k, v) in m {
                bm.insert(PropertyKey::new(k.as_str()), to_value(v));
            }
            Value::Map(std::sync::Arc::new(bm))
        }
    }
}

/// Canonical text of a value: floats bitwise, every variant tagged, maps in key order.
pub fn canon(v: &Value) -> String {
    let mut s = String::new();
    canon_into(v, &mut s);
    s
}

fn canon_into(v: &Value, o: &mut String) {
    use std::fmt::Write;
    match v {
        Value::Null => o.push_str("null"),
        Value::Bool(b) => {
            let _ = write!(o, "b:{b}");
        }
        Value::Int64(i) => {
            let _ = write!(o, "i:{i}");
        }
        Value::Float64(f) => {
            let _ = write!(o, "f:{:016x}", f.to_bits());
        }
        Value::String(s) => {
            let _ = write!(o, "s:{:?}", s.as_str());
        }
        Value::Bytes(b) => {
            o.push_str("y:");
            for x in b.iter() {
                let _ = write!(o, "{x:02x}");
            }
        }
        Value::Timestamp(t) => {
            let _ = write!(o, "t:{}", t.as_micros());
        }
        Value::List(l) => {
            o.push_str("l:[");
            for (i, x) in l.iter().enumerate() {
                if i > 0 {
                    o.push(',');
                }
                canon_into(x, o);
            }
            o.push(']');
        }
        Value::Map(m) => {
            o.push_str("m:{");
            for (i, (k, x)) in m.iter().enumerate() {
                if i > 0 {
                    o.push(',');
                }
                let _ = write!(o, "{:?}=", k.as_str());
                canon_into(x, o);
            }
            o.push('}');
        }
        Value::Vector(x) => {
            o.push_str("v:[");
            for (i, f) in x.iter().enumerate() {
                if i > 0 {
                    o.push(',');
                }
                let _ = write!(o, "{:08x}", f.to_bits());
            }
            o.push(']');
        }
    }
}

pub fn canon_v(v: &V) -> String {
    canon(&to_value(v))
}

fn f64_bits() -> impl Strategy<Value = u64> {
    prop_oneof![
        3 => (-1000i32..1000).prop_map(|i| (f64::from(i) / 8.0).to_bits()),
        1 => Just(0.0f64.to_bits()),
        1 => Just((-0.0f64).to_bits()),
        1 => Just(f64::INFINITY.to_bits()),
        1 => Just(f64::NEG_INFINITY.to_bits()),
        1 => Just(f64::NAN.to_bits()),
        1 => Just(0x7ff8_0000_0000_0001u64),  // quiet NaN with payload
        1 => Just(0xfff4_0000_dead_beefu64),  // negative signalling NaN with payload
        1 => Just(1u64),                       // smallest subnormal
        1 => Just(f64::MAX.to_bits()),
        1 => Just(9_007_199_254_740_993.0f64.to_bits()),
        1 => any::<u64>(),
    ]
}

fn f32_bits() -> impl Strategy<Value = u32> {
    prop_oneof![
        3 => (-100i16..100).prop_map(|i| (f32::from(i) / 4.0).to_bits()),
        1 => Just(f32::NAN.to_bits()),
        1 => Just(0x7fc0_0001u32),
        1 => Just((-0.0f32).to_bits()),
        1 => Just(f32::INFINITY.to_bits()),
        1 => any::<u32>(),
    ]
}

fn string_value() -> impl Strategy<Value = String> {
    prop_oneof![
        2 => Just(String::new()),
        4 => "[a-z]{1,6}",
        1 => Just("héllo wörld ✓ 日本".to_string()),
        1 => Just("quote'\"\\ \n\t\0 end".to_string()),
        1 => (200usize..600).prop_map(|n| "x".repeat(n)),
    ]
}

fn leaf_value() -> impl Strategy<Value = V> {
    prop_oneof![
        1 => Just(V::Null),
        1 => any::<bool>().prop_map(V::Bool),
        3 => prop_oneof![
            3 => (-50i64..50).prop_map(V::Int),
            1 => Just(V::Int(i64::MIN)), 1 => Just(V::Int(i64::MAX)),
            1 => Just(V::Int((1i64 << 53) + 1)), 1 => Just(V::Int(-(1i64 << 53) - 1)),
            1 => any::<i64>().prop_map(V::Int),
        ],
        3 => f64_bits().prop_map(V::F),
        3 => string_value().prop_map(V::Str),
        2 => prop_oneof![
            1 => Just(V::Bytes(vec![])),
            2 => proptest::collection::vec(any::<u8>(), 0..24).prop_map(V::Bytes),
            1 => Just(V::Bytes(vec![0, 255, 0, 10, 13])),
        ],
        2 => prop_oneof![
            2 => (-1_000_000i64..1_000_000).prop_map(V::Ts),
            1 => Just(V::Ts(i64::MIN)), 1 => Just(V::Ts(i64::MAX)), 1 => Just(V::Ts(0)),
        ],
        2 => proptest::collection::vec(f32_bits(), 0..6).prop_map(V::Vector),
        1 => (0u8..3, prop_oneof![3 => 65_000u32..66_500, 2 => 100_000u32..200_000, 1 => 30_000u32..64_000])
            .prop_map(|(kind, len)| V::Big { kind, len }),
    ]
}

pub fn value_strategy() -> impl Strategy<Value = V> {
    leaf_value().prop_recursive(3, 12, 4, |inner| {
        prop_oneof![
            1 => proptest::collection::vec(inner.clone(), 0..4).prop_map(V::List),
            1 => proptest::collection::vec(("[a-c]{0,2}", inner), 0..4).prop_map(V::Map),
        ]
    })
}

// ------------------------------------------------------------------------------------------------
// Canonical dump
// ------------------------------------------------------------------------------------------------

#[derive(Debug, Clone, PartialEq, Eq, Default, Serialize, Deserialize)]
pub struct NodeDump {
    pub id: u64,
    pub labels: Vec<String>,
    pub props: Vec<(String, String)>,
}

#[derive(Debug, Clone, PartialEq, Eq, Default, Serialize, Deserialize)]
pub struct EdgeDump {
    pub id: u64,
    pub src: u64,
    pub ty: String,
    pub dst: u64,
    pub props: Vec<(String, String)>,
}

#[derive(Debug, Clone, PartialEq, Eq, Default, Serialize, Deserialize)]
pub struct Dump {
    pub nodes: Vec<NodeDump>,
    pub edges: Vec<EdgeDump>,
}

/// Canonical dump of a live database (sorted by id; labels and properties sorted).
pub fn dump_db(db: &GrafeoDB) -> Dump {
    let mut nodes: Vec<NodeDump> = db
        .iter_nodes()
        .map(|n| {
            let mut labels: Vec<String> = n.labels.iter().map(|l| l.to_string()).collect();
            labels.sort();
            let mut props: Vec<(String, String)> =
                n.properties.iter().map(|(k, v)| (k.as_str().to_string(), canon(v))).collect();
            props.sort();
            NodeDump { id: n.id.as_u64(), labels, props }
        })
        .collect();
    nodes.sort_by_key(|n| n.id);
    let mut edges: Vec<EdgeDump> = db
        .iter_edges()
        .map(|e| {
            let mut props: Vec<(String, String)> =
                e.properties.iter().map(|(k, v)| (k.as_str().to_string(), canon(v))).collect();
            props.sort();
            EdgeDump { id: e.id.as_u64(), src: e.src.as_u64(), ty: e.edge_type.to_string(), dst: e.dst.as_u64(), props }
        })
        .collect();
    edges.sort_by_key(|e| e.id);
    Dump { nodes, edges }
}

/// Short description of the first difference between two dumps.
pub fn diff_dumps(got: &Dump, want: &Dump) -> String {
    let gn: BTreeMap<u64, &NodeDump> = got.nodes.iter().map(|n| (n.id, n)).collect();
    let wn: BTreeMap<u64, &NodeDump> = want.nodes.iter().map(|n| (n.id, n)).collect();
    let mut out = Vec::new();
    if got.nodes.len() != gn.len() {
        out.push("duplicate node ids in dump".to_string());
    }
    for (id, w) in &wn {
        match gn.get(id) {
            None => out.push(format!("node {id} missing (want {w:?})")),
            Some(g) if g != w => out.push(format!("node {id}: got {g:?} want {w:?}")),
            _ => {}
        }
    }
    for (id, g) in &gn {
        if !wn.contains_key(id) {
            out.push(format!("extra node {id}: {g:?}"));
        }
    }
    let ge: BTreeMap<u64, &EdgeDump> = got.edges.iter().map(|n| (n.id, n)).collect();
    let we: BTreeMap<u64, &EdgeDump> = want.edges.iter().map(|n| (n.id, n)).collect();
    for (id, w) in &we {
        match ge.get(id) {
            None => out.push(format!("edge {id} missing (want {w:?})")),
            Some(g) if g != w => out.push(format!("edge {id}: got {g:?} want {w:?}")),
            _ => {}
        }
    }
    for (id, g) in &ge {
        if !we.contains_key(id) {
            out.push(format!("extra edge {id}: {g:?}"));
        }
    }
    let n = out.len();
    out.truncate(6);
    format!("{n} differences: {}", out.join("; "))
}

// ------------------------------------------------------------------------------------------------
// Abstract model
// ------------------------------------------------------------------------------------------------

#[derive(Debug, Clone, Default, PartialEq, Eq)]
pub struct MNode {
    pub labels: BTreeSet<String>,
    pub props: BTreeMap<String, String>,
}

#[derive(Debug, Clone, Default, PartialEq, Eq)]
pub struct MEdge {
    pub src: u64,
    pub dst: u64,
    pub ty: String,
    pub props: BTreeMap<String, String>,
}

/// Abstract LPG: deleting a node does not cascade to its edges (LpgStore::delete_node: "Caller should use
/// delete_node_edges() first if detach is needed").
#[derive(Debug, Clone, Default)]
pub struct Model {
    pub nodes: BTreeMap<u64, MNode>,
    pub edges: BTreeMap<u64, MEdge>,
    /// every node / edge id ever handed out or seen (live or deleted)
    pub ever_nodes: BTreeSet<u64>,
    pub ever_edges: BTreeSet<u64>,
    /// Properties written to an id that is not (or no longer) a live entity. The store keys properties by id only:
    /// they are unobservable until an entity with that id is created (only possible when an id is handed out
    /// again, e.g. after unlogged statement-created entities were lost), and a delete clears them.
    pub hidden_node_props: BTreeMap<u64, BTreeMap<String, String>>,
    pub hidden_edge_props: BTreeMap<u64, BTreeMap<String, String>>,
}

impl Model {
    pub fn from_dump(d: &Dump) -> Model {
        let mut m = Model::default();
        for n in &d.nodes {
            m.nodes.insert(
                n.id,
                MNode { labels: n.labels.iter().cloned().collect(), props: n.props.iter().cloned().collect() },
            );
            m.ever_nodes.insert(n.id);
        }
        for e in &d.edges {
            m.edges.insert(
                e.id,
                MEdge { src: e.src, dst: e.dst, ty: e.ty.clone(), props: e.props.iter().cloned().collect() },
            );
            m.ever_edges.insert(e.id);
        }
        m
    }

    pub fn dump(&self) -> Dump {
        Dump {
            nodes: self
                .nodes
                .iter()
                .map(|(id, n)| NodeDump {
                    id: *id,
                    labels: n.labels.iter().cloned().collect(),
                    props: n.props.iter().map(|(k, v)| (k.clone(), v.clone())).collect(),
                })
                .collect(),
            edges: self
                .edges
                .iter()
                .map(|(id, e)| EdgeDump {
                    id: *id,
                    src: e.src,
                    ty: e.ty.clone(),
                    dst: e.dst,
                    props: e.props.iter().map(|(k, v)| (k.clone(), v.clone())).collect(),
                })
                .collect(),
        }
    }

    pub fn dead_nodes(&self) -> Vec<u64> {
        self.ever_nodes.iter().copied().filter(|i| !self.nodes.contains_key(i)).collect()
    }
    pub fn dead_edges(&self) -> Vec<u64> {
        self.ever_edges.iter().copied().filter(|i| !self.edges.contains_key(i)).collect()
    }

    /// Applies a concrete (id-resolved) operation. Total: operations on absent entities are no-ops, exactly as
    /// the store treats them (properties of an absent entity are not observable).
    pub fn apply(&mut self, c: &COp) {
        match c {
            COp::CreateNode { id, labels, props } => {
                let mut n = MNode::default();
                if let Some(h) = self.hidden_node_props.remove(id) {
                    n.props = h;
                }
                for l in labels {
                    n.labels.insert(l.clone());
                }
                for (k, v) in props {
                    n.props.insert(k.clone(), v.clone());
                }
                self.nodes.insert(*id, n);
                self.ever_nodes.insert(*id);
            }
            COp::DeleteNode { id } => {
                if self.nodes.remove(id).is_some() {
                    self.hidden_node_props.remove(id);
                }
            }
            COp::CreateEdge { id, src, dst, ty, props } => {
                let mut e = MEdge { src: *src, dst: *dst, ty: ty.clone(), props: BTreeMap::new() };
                if let Some(h) = self.hidden_edge_props.remove(id) {
                    e.props = h;
                }
                for (k, v) in props {
                    e.props.insert(k.clone(), v.clone());
                }
                self.edges.insert(*id, e);
                self.ever_edges.insert(*id);
            }
            COp::DeleteEdge { id } => {
                if self.edges.remove(id).is_some() {
                    self.hidden_edge_props.remove(id);
                }
            }
            COp::SetNodeProp { id, key, val } => {
                if let Some(n) = self.nodes.get_mut(id) {
                    n.props.insert(key.clone(), val.clone());
                } else {
                    self.hidden_node_props.entry(*id).or_default().insert(key.clone(), val.clone());
                }
            }
            COp::SetEdgeProp { id, key, val } => {
                if let Some(e) = self.edges.get_mut(id) {
                    e.props.insert(key.clone(), val.clone());
                } else {
                    self.hidden_edge_props.entry(*id).or_default().insert(key.clone(), val.clone());
                }
            }
            COp::RemoveNodeProp { id, key } => {
                if let Some(n) = self.nodes.get_mut(id) {
                    n.props.remove(key);
                } else if let Some(h) = self.hidden_node_props.get_mut(id) {
                    h.remove(key);
                }
            }
            COp::RemoveEdgeProp { id, key } => {
                if let Some(e) = self.edges.get_mut(id) {
                    e.props.remove(key);
                } else if let Some(h) = self.hidden_edge_props.get_mut(id) {
                    h.remove(key);
                }
            }
            COp::AddLabel { id, label } => {
                if let Some(n) = self.nodes.get_mut(id) {
                    n.labels.insert(label.clone());
                }
            }
            COp::RemoveLabel { id, label } => {
                if let Some(n) = self.nodes.get_mut(id) {
                    n.labels.remove(label);
                }
            }
        }
    }
}

/// Concrete operation: ids resolved, values canonicalised.
#[derive(Debug, Clone, PartialEq, Eq, Serialize, Deserialize)]
pub enum COp {
    CreateNode { id: u64, labels: Vec<String>, props: Vec<(String, String)> },
    DeleteNode { id: u64 },
    CreateEdge { id: u64, src: u64, dst: u64, ty: String, props: Vec<(String, String)> },
    DeleteEdge { id: u64 },
    SetNodeProp { id: u64, key: String, val: String },
    SetEdgeProp { id: u64, key: String, val: String },
    RemoveNodeProp { id: u64, key: String },
    RemoveEdgeProp { id: u64, key: String },
    AddLabel { id: u64, label: String },
    RemoveLabel { id: u64, label: String },
}

// ------------------------------------------------------------------------------------------------
// Histories
// ------------------------------------------------------------------------------------------------

pub const LABELS: [&str; 3] = ["A", "B", "C"];
pub const KEYS: [&str; 4] = ["x", "y", "s", "w"];
pub const TYPES: [&str; 2] = ["R", "S"];

/// Target selector: index into the live ids (or, with `dead`, into the ids that were deleted).
#[derive(Debug, Clone, Copy, PartialEq, Eq, Serialize, Deserialize)]
pub struct T {
    pub i: u16,
    pub dead: bool,
}

#[derive(Debug, Clone, PartialEq, Serialize, Deserialize)]
pub enum Op {
    CreateNode { labels: Vec<u8> },
    CreateNodeProps { labels: Vec<u8>, props: Vec<(u8, V)> },
    BatchCreate { label: u8, key: u8, vectors: Vec<Vec<u32>> },
    DeleteNode { t: T },
    CreateEdge { s: T, d: T, ty: u8 },
    CreateEdgeProps { s: T, d: T, ty: u8, props: Vec<(u8, V)> },
    DeleteEdge { t: T },
    SetNodeProp { t: T, k: u8, v: V },
    SetEdgeProp { t: T, k: u8, v: V },
    RemoveNodeProp { t: T, k: u8 },
    RemoveEdgeProp { t: T, k: u8 },
    AddLabel { t: T, l: u8 },
    RemoveLabel { t: T, l: u8 },
    /// `db.wal_checkpoint()`
    Checkpoint,
    /// `db.wal().sync()` (a durable point for C06; irrelevant for C05)
    Sync,
}

/// Mutating statements (GQL through `session.execute`, Cypher through `execute_cypher`). Integer payloads only:
/// the statement forms are kept to ones whose in-memory effect is unambiguous.
#[derive(Debug, Clone, PartialEq, Eq, Serialize, Deserialize)]
pub enum Stmt {
    Insert { l: u8, k: u8, v: i32, cypher: bool },
    SetByLabel { l: u8, k: u8, v: i32 },
    Merge { l: u8, k: u8, v: i32 },
    DetachDeleteByLabel { l: u8 },
}

#[derive(Debug, Clone, Copy, PartialEq, Eq, Serialize, Deserialize)]
pub enum Mode {
    /// `GrafeoDB::open(path)` (default durability)
    Default,
    Sync,
    Batch { max_delay_ms: u64, max_records: u64 },
    Adaptive { target_interval_ms: u64 },
    NoSync,
}

#[derive(Debug, Clone, Copy, PartialEq, Eq, Serialize, Deserialize)]
pub enum End {
    /// `db.close()` then drop
    Close,
    /// drop only (Drop calls close)
    Drop,
    /// close twice (idempotence) then drop
    CloseTwice,
}

#[derive(Debug, Clone, PartialEq, Serialize, Deserialize)]
pub struct SessionSpec {
    pub mode: Mode,
    pub ops: Vec<Op>,
    /// statements issued after the direct-API ops, right before the close
    pub stmts: Vec<Stmt>,
    pub end: End,
    /// the other `Config` settings of this session (sub-check `reopen_config`); `None` = the defaults
    #[serde(default)]
    pub knobs: Option<Knobs>,
}

/// Settings of `grafeo_engine::Config` besides the durability mode. None of them may change what a persistent
/// database holds after a reopen; every session of a history may use different ones.
#[derive(Debug, Clone, Copy, PartialEq, Eq, Serialize, Deserialize)]
pub struct Knobs {
    /// `wal_flush_interval_ms` (must be > 0: `Config::validate`)
    pub flush_interval_ms: u32,
    /// `memory_limit` in KiB (0 = unset)
    pub memory_limit_kib: u32,
    pub threads: u8,
    pub backward_edges: bool,
    pub schema_constraints: bool,
    pub factorized: bool,
    pub adaptive: bool,
    pub query_logging: bool,
    /// spill directory: 0 = default (`<db>/spill`), 1 = a directory next to the database
    pub spill: u8,
}

#[derive(Debug, Clone, PartialEq, Serialize, Deserialize)]
pub struct History {
    pub sessions: Vec<SessionSpec>,
}

fn target() -> impl Strategy<Value = T> {
    (any::<u16>(), prop::bool::weighted(0.1)).prop_map(|(i, dead)| T { i, dead })
}

fn labels_strategy() -> impl Strategy<Value = Vec<u8>> {
    proptest::collection::vec(0u8..3, 0..=3)
}

fn props_strategy() -> impl Strategy<Value = Vec<(u8, V)>> {
    proptest::collection::vec((0u8..4, value_strategy()), 0..=3)
}

pub fn op_strategy(with_checkpoint: bool) -> impl Strategy<Value = Op> {
    // without checkpoints the Checkpoint slot yields a Sync instead
    let cp = if with_checkpoint { Op::Checkpoint } else { Op::Sync };
    prop_oneof![
        3 => labels_strategy().prop_map(|labels| Op::CreateNode { labels }),
        4 => (labels_strategy(), props_strategy()).prop_map(|(labels, props)| Op::CreateNodeProps { labels, props }),
        1 => (0u8..3, 0u8..4, proptest::collection::vec(proptest::collection::vec(f32_bits(), 0..4), 0..3))
            .prop_map(|(label, key, vectors)| Op::BatchCreate { label, key, vectors }),
        2 => target().prop_map(|t| Op::DeleteNode { t }),
        3 => (target(), target(), 0u8..2).prop_map(|(s, d, ty)| Op::CreateEdge { s, d, ty }),
        3 => (target(), target(), 0u8..2, props_strategy()).prop_map(|(s, d, ty, props)| Op::CreateEdgeProps { s, d, ty, props }),
        2 => target().prop_map(|t| Op::DeleteEdge { t }),
        5 => (target(), 0u8..4, value_strategy()).prop_map(|(t, k, v)| Op::SetNodeProp { t, k, v }),
        4 => (target(), 0u8..4, value_strategy()).prop_map(|(t, k, v)| Op::SetEdgeProp { t, k, v }),
        2 => (target(), 0u8..4).prop_map(|(t, k)| Op::RemoveNodeProp { t, k }),
        2 => (target(), 0u8..4).prop_map(|(t, k)| Op::RemoveEdgeProp { t, k }),
        2 => (target(), 0u8..3).prop_map(|(t, l)| Op::AddLabel { t, l }),
        2 => (target(), 0u8..3).prop_map(|(t, l)| Op::RemoveLabel { t, l }),
        2 => Just(cp),
        1 => Just(Op::Sync),
    ]
}

fn stmt_strategy() -> impl Strategy<Value = Stmt> {
    prop_oneof![
        3 => (0u8..3, 0u8..4, -5i32..50, any::<bool>()).prop_map(|(l, k, v, cypher)| Stmt::Insert { l, k, v, cypher }),
        2 => (0u8..3, 0u8..4, -5i32..50).prop_map(|(l, k, v)| Stmt::SetByLabel { l, k, v }),
        1 => (0u8..3, 0u8..4, -5i32..50).prop_map(|(l, k, v)| Stmt::Merge { l, k, v }),
        1 => (0u8..3).prop_map(|l| Stmt::DetachDeleteByLabel { l }),
    ]
}

pub fn mode_strategy() -> impl Strategy<Value = Mode> {
    prop_oneof![
        2 => Just(Mode::Default),
        2 => Just(Mode::Sync),
        1 => Just(Mode::Batch { max_delay_ms: 100, max_records: 1000 }),
        1 => (1u64..6).prop_map(|n| Mode::Batch { max_delay_ms: 3_600_000, max_records: n }),
        1 => Just(Mode::Batch { max_delay_ms: 0, max_records: 1 }),
        2 => (1u64..200).prop_map(|t| Mode::Adaptive { target_interval_ms: t }),
        2 => Just(Mode::NoSync),
    ]
}

fn end_strategy() -> impl Strategy<Value = End> {
    prop_oneof![3 => Just(End::Close), 2 => Just(End::Drop), 1 => Just(End::CloseTwice)]
}

/// `stmt_share`: probability that a session ends with a statement block (statements are not logged on the
/// unchanged tree: known finding; the rest of the histories form the strict region).
pub fn session_strategy(max_ops: usize, stmt_share: f64, with_checkpoint: bool) -> impl Strategy<Value = SessionSpec> {
    (
        mode_strategy(),
        proptest::collection::vec(op_strategy(with_checkpoint), 0..=max_ops),
        prop::bool::weighted(stmt_share),
        proptest::collection::vec(stmt_strategy(), 1..=3),
        end_strategy(),
    )
        .prop_map(|(mode, ops, with_stmts, stmts, end)| SessionSpec {
            mode,
            ops,
            stmts: if with_stmts { stmts } else { Vec::new() },
            end,
            knobs: None,
        })
}

fn knobs_strategy() -> impl Strategy<Value = Knobs> {
    (
        prop_oneof![Just(1u32), 1u32..50, Just(100u32), 1000u32..100_000, Just(u32::MAX)],
        prop_oneof![3 => Just(0u32), 1 => Just(1u32), 2 => 64u32..4096, 2 => 65_536u32..4_000_000],
        prop_oneof![Just(1u8), 1u8..=16, Just(255u8)],
        any::<bool>(),
        any::<bool>(),
        any::<bool>(),
        any::<bool>(),
        any::<bool>(),
        0u8..2,
    )
        .prop_map(|(flush_interval_ms, memory_limit_kib, threads, backward_edges, schema_constraints, factorized, adaptive, query_logging, spill)| Knobs {
            flush_interval_ms,
            memory_limit_kib,
            threads,
            backward_edges,
            schema_constraints,
            factorized,
            adaptive,
            query_logging,
            spill,
        })
}

/// Histories in which every session is opened with its own generated `Config` (durability mode and all other settings).
pub fn config_history_strategy(max_sessions: usize, max_ops: usize) -> impl Strategy<Value = History> {
    proptest::collection::vec((session_strategy(max_ops, 0.0, true), knobs_strategy()), 2..=max_sessions)
        .prop_map(|v| History { sessions: v.into_iter().map(|(s, k)| SessionSpec { knobs: Some(k), ..s }).collect() })
}

pub fn history_strategy(max_sessions: usize, max_ops: usize, stmt_share: f64) -> impl Strategy<Value = History> {
    proptest::collection::vec(session_strategy(max_ops, stmt_share, true), 1..=max_sessions)
        .prop_map(|sessions| History { sessions })
}

// ------------------------------------------------------------------------------------------------
// Executing operations against the real database and the model
// ------------------------------------------------------------------------------------------------

pub fn config_for(path: &Path, mode: Mode) -> Config {
    let c = Config::persistent(path);
    match mode {
        Mode::Default => c,
        Mode::Sync => c.with_wal_durability(DurabilityMode::Sync),
        Mode::Batch { max_delay_ms, max_records } => {
            c.with_wal_durability(DurabilityMode::Batch { max_delay_ms, max_records })
        }
        Mode::Adaptive { target_interval_ms } => c.with_wal_durability(DurabilityMode::Adaptive { target_interval_ms }),
        Mode::NoSync => c.with_wal_durability(DurabilityMode::NoSync),
    }
}

/// Opens the database (panic → failure, `Err` → failure `c05/open-error`).
pub fn open_db(path: &Path, mode: Mode) -> Result<GrafeoDB, Failure> {
    let r = guard("open", || match mode {
        Mode::Default => GrafeoDB::open(path),
        m => GrafeoDB::with_config(config_for(path, m)),
    })?;
    match r {
        Ok(db) => Ok(db),
        Err(e) => fail("c05/open-error", format!("open({mode:?}) failed: {e}")),
    }
}

/// The configuration of a session: durability mode plus, when present, the other settings.
pub fn config_for_session(path: &Path, s: &SessionSpec) -> Config {
    let mut c = config_for(path, s.mode);
    if let Some(k) = &s.knobs {
        c.wal_flush_interval_ms = u64::from(k.flush_interval_ms.max(1));
        if k.memory_limit_kib > 0 {
            c = c.with_memory_limit(k.memory_limit_kib as usize * 1024);
        }
        c = c.with_threads(usize::from(k.threads.max(1)));
        if !k.backward_edges {
            c = c.without_backward_edges();
        }
        if k.schema_constraints {
            c = c.with_schema_constraints();
        }
        if !k.factorized {
            c = c.without_factorized_execution();
        }
        if !k.adaptive {
            c = c.without_adaptive();
        }
        c.query_logging = k.query_logging;
        if k.spill == 1 {
            c = c.with_spill_path(path.with_extension("spill"));
        }
    }
    c
}

fn open_session(path: &Path, s: &SessionSpec) -> Result<GrafeoDB, Failure> {
    if s.knobs.is_none() {
        return open_db(path, s.mode);
    }
    match guard("open", || GrafeoDB::with_config(config_for_session(path, s)))? {
        Ok(db) => Ok(db),
        Err(e) => fail("c05/open-error", format!("with_config({:?}, {:?}) failed: {e}", s.mode, s.knobs)),
    }
}

fn pick_node(m: &Model, t: T) -> Option<u64> {
    let dead = m.dead_nodes();
    if t.dead && !dead.is_empty() {
        return Some(dead[pick(t.i, dead.len())]);
    }
    if m.nodes.is_empty() {
        return dead.first().copied();
    }
    m.nodes.keys().nth(pick(t.i, m.nodes.len())).copied()
}

fn pick_edge(m: &Model, t: T) -> Option<u64> {
    let dead = m.dead_edges();
    if t.dead && !dead.is_empty() {
        return Some(dead[pick(t.i, dead.len())]);
    }
    if m.edges.is_empty() {
        return dead.first().copied();
    }
    m.edges.keys().nth(pick(t.i, m.edges.len())).copied()
}

fn label_strs(l: &[u8]) -> Vec<&'static str> {
    l.iter().map(|i| LABELS[*i as usize % 3]).collect()
}

/// What happened, for non-triviality accounting.
#[derive(Debug, Default, Clone, Copy)]
pub struct Effects {
    pub writes: u32,
    pub deletes: u32,
    pub overwrites: u32,
    pub removes: u32,
    pub checkpoints: u32,
    pub writes_after_checkpoint: u32,
}

/// Executes one op on the database and on every model in `models` (index 0 = the strict model, which also
/// resolves targets and judges return values). Returns the concrete ops performed.
pub fn apply_op(db: &GrafeoDB, models: &mut [&mut Model], op: &Op, fx: &mut Effects) -> Result<Vec<COp>, Failure> {
    let mut cops = Vec::new();
    let bad_ret = |what: String| -> Result<Vec<COp>, Failure> { fail("c05/return-value", what) };
    let m0: &Model = &*models[0];
    match op {
        Op::CreateNode { labels } => {
            let ls = label_strs(labels);
            let id = guard("create_node", || db.create_node(&ls))?.as_u64();
            check_new_node(m0, id)?;
            cops.push(COp::CreateNode { id, labels: ls.iter().map(|s| (*s).to_string()).collect(), props: vec![] });
        }
        Op::CreateNodeProps { labels, props } => {
            let ls = label_strs(labels);
            let pv: Vec<(PropertyKey, Value)> =
                props.iter().map(|(k, v)| (PropertyKey::new(KEYS[*k as usize % 4]), to_value(v))).collect();
            let id = guard("create_node_with_props", || db.create_node_with_props(&ls, pv.clone()))?.as_u64();
            check_new_node(m0, id)?;
            cops.push(COp::CreateNode {
                id,
                labels: ls.iter().map(|s| (*s).to_string()).collect(),
                props: pv.iter().map(|(k, v)| (k.as_str().to_string(), canon(v))).collect(),
            });
        }
        Op::BatchCreate { label, key, vectors } => {
            let vecs: Vec<Vec<f32>> = vectors.iter().map(|v| v.iter().map(|b| f32::from_bits(*b)).collect()).collect();
            let l = LABELS[*label as usize % 3];
            let k = KEYS[*key as usize % 4];
            let ids = guard("batch_create_nodes", || db.batch_create_nodes(l, k, vecs.clone()))?;
            if ids.len() != vecs.len() {
                return bad_ret(format!("batch_create_nodes returned {} ids for {} vectors", ids.len(), vecs.len()));
            }
            let mut seen = BTreeSet::new();
            for (id, v) in ids.iter().zip(vecs.iter()) {
                let id = id.as_u64();
                check_new_node(m0, id)?;
                if !seen.insert(id) {
                    return fail("c05/id-collision", format!("batch_create_nodes handed out node id {id} twice"));
                }
                cops.push(COp::CreateNode {
                    id,
                    labels: vec![l.to_string()],
                    props: vec![(k.to_string(), canon(&Value::from(v.as_slice())))],
                });
            }
        }
        Op::DeleteNode { t } => {
            if let Some(id) = pick_node(m0, *t) {
                let r = guard("delete_node", || db.delete_node(NodeId::new(id)))?;
                let want = m0.nodes.contains_key(&id);
                if r != want {
                    return bad_ret(format!("delete_node({id}) returned {r}, node live in model: {want}"));
                }
                if r {
                    fx.deletes += 1;
                }
                cops.push(COp::DeleteNode { id });
            }
        }
        Op::CreateEdge { s, d, ty } => {
            if let (Some(src), Some(dst)) = (pick_node(m0, *s), pick_node(m0, *d)) {
                let tyv = TYPES[*ty as usize % 2];
                let id = guard("create_edge", || db.create_edge(NodeId::new(src), NodeId::new(dst), tyv))?.as_u64();
                check_new_edge(m0, id)?;
                cops.push(COp::CreateEdge { id, src, dst, ty: tyv.to_string(), props: vec![] });
            }
        }
        Op::CreateEdgeProps { s, d, ty, props } => {
            if let (Some(src), Some(dst)) = (pick_node(m0, *s), pick_node(m0, *d)) {
                let tyv = TYPES[*ty as usize % 2];
                let pv: Vec<(PropertyKey, Value)> =
                    props.iter().map(|(k, v)| (PropertyKey::new(KEYS[*k as usize % 4]), to_value(v))).collect();
                let id = guard("create_edge_with_props", || {
                    db.create_edge_with_props(NodeId::new(src), NodeId::new(dst), tyv, pv.clone())
                })?
                .as_u64();
                check_new_edge(m0, id)?;
                cops.push(COp::CreateEdge {
                    id,
                    src,
                    dst,
                    ty: tyv.to_string(),
                    props: pv.iter().map(|(k, v)| (k.as_str().to_string(), canon(v))).collect(),
                });
            }
        }
        Op::DeleteEdge { t } => {
            if let Some(id) = pick_edge(m0, *t) {
                let r = guard("delete_edge", || db.delete_edge(EdgeId::new(id)))?;
                let want = m0.edges.contains_key(&id);
                if r != want {
                    return bad_ret(format!("delete_edge({id}) returned {r}, edge live in model: {want}"));
                }
                if r {
                    fx.deletes += 1;
                }
                cops.push(COp::DeleteEdge { id });
            }
        }
        Op::SetNodeProp { t, k, v } => {
            if let Some(id) = pick_node(m0, *t) {
                let key = KEYS[*k as usize % 4];
                let val = to_value(v);
                if m0.nodes.get(&id).is_some_and(|n| n.props.contains_key(key)) {
                    fx.overwrites += 1;
                }
                guard("set_node_property", || db.set_node_property(NodeId::new(id), key, val.clone()))?;
                cops.push(COp::SetNodeProp { id, key: key.to_string(), val: canon(&val) });
            }
        }
        Op::SetEdgeProp { t, k, v } => {
            if let Some(id) = pick_edge(m0, *t) {
                let key = KEYS[*k as usize % 4];
                let val = to_value(v);
                if m0.edges.get(&id).is_some_and(|n| n.props.contains_key(key)) {
                    fx.overwrites += 1;
                }
                guard("set_edge_property", || db.set_edge_property(EdgeId::new(id), key, val.clone()))?;
                cops.push(COp::SetEdgeProp { id, key: key.to_string(), val: canon(&val) });
            }
        }
        Op::RemoveNodeProp { t, k } => {
            if let Some(id) = pick_node(m0, *t) {
                let key = KEYS[*k as usize % 4];
                let r = guard("remove_node_property", || db.remove_node_property(NodeId::new(id), key))?;
                let want = m0.nodes.get(&id).is_some_and(|n| n.props.contains_key(key));
                // a deleted node's properties are unobservable; the return value is only specified for live nodes
                if m0.nodes.contains_key(&id) && r != want {
                    return bad_ret(format!("remove_node_property({id},{key}) returned {r}, model has it: {want}"));
                }
                if want {
                    fx.removes += 1;
                }
                cops.push(COp::RemoveNodeProp { id, key: key.to_string() });
            }
        }
        Op::RemoveEdgeProp { t, k } => {
            if let Some(id) = pick_edge(m0, *t) {
                let key = KEYS[*k as usize % 4];
                let r = guard("remove_edge_property", || db.remove_edge_property(EdgeId::new(id), key))?;
                let want = m0.edges.get(&id).is_some_and(|n| n.props.contains_key(key));
                if m0.edges.contains_key(&id) && r != want {
                    return bad_ret(format!("remove_edge_property({id},{key}) returned {r}, model has it: {want}"));
                }
                if want {
                    fx.removes += 1;
                }
                cops.push(COp::RemoveEdgeProp { id, key: key.to_string() });
            }
        }
        Op::AddLabel { t, l } => {
            if let Some(id) = pick_node(m0, *t) {
                let label = LABELS[*l as usize % 3];
                let r = guard("add_node_label", || db.add_node_label(NodeId::new(id), label))?;
                let want = m0.nodes.get(&id).is_some_and(|n| !n.labels.contains(label));
                if r != want {
                    return bad_ret(format!("add_node_label({id},{label}) returned {r}, model expects {want}"));
                }
                cops.push(COp::AddLabel { id, label: label.to_string() });
            }
        }
        Op::RemoveLabel { t, l } => {
            if let Some(id) = pick_node(m0, *t) {
                let label = LABELS[*l as usize % 3];
                let r = guard("remove_node_label", || db.remove_node_label(NodeId::new(id), label))?;
                let want = m0.nodes.get(&id).is_some_and(|n| n.labels.contains(label));
                if r != want {
                    return bad_ret(format!("remove_node_label({id},{label}) returned {r}, model expects {want}"));
                }
                if r {
                    fx.deletes += 1;
                }
                cops.push(COp::RemoveLabel { id, label: label.to_string() });
            }
        }
        Op::Checkpoint => {
            match guard("wal_checkpoint", || db.wal_checkpoint())? {
                Ok(()) => {}
                Err(e) => return fail("c05/checkpoint-error", format!("wal_checkpoint failed: {e}")),
            }
            fx.checkpoints += 1;
        }
        Op::Sync => {
            if let Some(w) = db.wal() {
                match guard("wal.sync", || w.sync())? {
                    Ok(()) => {}
                    Err(e) => return fail("c05/sync-error", format!("wal().sync() failed: {e}")),
                }
            }
        }
    }
    if !cops.is_empty() {
        fx.writes += 1;
        if fx.checkpoints > 0 {
            fx.writes_after_checkpoint += 1;
        }
    }
    for m in models.iter_mut() {
        for c in &cops {
            m.apply(c);
        }
    }
    Ok(cops)
}

fn check_new_node(m: &Model, id: u64) -> Result<(), Failure> {
    if m.nodes.contains_key(&id) {
        return fail("c05/id-collision", format!("create handed out node id {id}, which is a live node"));
    }
    Ok(())
}

fn check_new_edge(m: &Model, id: u64) -> Result<(), Failure> {
    if m.edges.contains_key(&id) {
        return fail("c05/id-collision", format!("create handed out edge id {id}, which is a live edge"));
    }
    Ok(())
}

pub fn stmt_text(s: &Stmt) -> (String, bool) {
    match s {
        Stmt::Insert { l, k, v, cypher } => {
            let (l, k) = (LABELS[*l as usize % 3], KEYS[*k as usize % 4]);
            if *cypher { (format!("CREATE (:{l} {{{k}: {v}}})"), true) } else { (format!("INSERT (:{l} {{{k}: {v}}})"), false) }
        }
        Stmt::SetByLabel { l, k, v } => {
            (format!("MATCH (n:{}) SET n.{} = {v}", LABELS[*l as usize % 3], KEYS[*k as usize % 4]), false)
        }
        Stmt::Merge { l, k, v } => (format!("MERGE (n:{} {{{}: {v}}})", LABELS[*l as usize % 3], KEYS[*k as usize % 4]), false),
        Stmt::DetachDeleteByLabel { l } => (format!("MATCH (n:{}) DETACH DELETE n", LABELS[*l as usize % 3]), false),
    }
}

/// Executes a statement. The model is *resynchronised from the live database* afterwards (the in-memory
/// semantics of statements belong to C08/C01, not to this property): what C05 demands is only that the state the
/// database shows before the close is the state it shows after the reopen.
pub fn apply_stmt(db: &GrafeoDB, m: &mut Model, s: &Stmt) -> Result<bool, Failure> {
    let (text, cypher) = stmt_text(s);
    let before = guard("dump", || dump_db(db))?;
    let r = guard("execute", || if cypher { db.execute_cypher(&text).map(|_| ()) } else { db.execute(&text).map(|_| ()) })?;
    if r.is_err() {
        // a refused statement must not change anything we rely on; resync anyway
    }
    let after = guard("dump", || dump_db(db))?;
    let changed = after != before;
    let ever_n = m.ever_nodes.clone();
    let ever_e = m.ever_edges.clone();
    let (hn, he) = (std::mem::take(&mut m.hidden_node_props), std::mem::take(&mut m.hidden_edge_props));
    *m = Model::from_dump(&after);
    m.ever_nodes.extend(ever_n);
    m.ever_edges.extend(ever_e);
    m.hidden_node_props = hn.into_iter().filter(|(id, _)| !m.nodes.contains_key(id)).collect();
    m.hidden_edge_props = he.into_iter().filter(|(id, _)| !m.edges.contains_key(id)).collect();
    Ok(changed)
}

// ------------------------------------------------------------------------------------------------
// Sub-check `reopen`
// ------------------------------------------------------------------------------------------------

fn close_db(db: GrafeoDB, end: End) -> Result<(), Failure> {
    match end {
        End::Drop => {}
        End::Close | End::CloseTwice => {
            let n = if end == End::CloseTwice { 2 } else { 1 };
            for _ in 0..n {
                if let Err(e) = guard("close", || db.close())? {
                    return fail("c05/close-error", format!("close failed: {e}"));
                }
            }
        }
    }
    guard("drop", move || drop(db))
}

/// Chooses the signature for a reopened state that differs from the strict model: a known defect's signature only
/// when the dump equals exactly what that defect alone predicts.
fn classify_reopen(dump: &Dump, strict: &Model, no_stmt: &Model, stmts_changed: bool, ctx: &str) -> Failure {
    let want = strict.dump();
    if stmts_changed && *dump == no_stmt.dump() {
        return Failure {
            signature: "c05/statements-not-logged".into(),
            what: format!("{ctx}: the reopened database lacks exactly the effects of the mutating statements: {}", diff_dumps(dump, &want)),
        };
    }
    Failure { signature: "c05/reopen-mismatch".into(), what: format!("{ctx}: {}", diff_dumps(dump, &want)) }
}

pub fn check_history(h: &History) -> CaseResult {
    let dir = scratch_dir();
    let path = dir.path().join("db");
    let mut m = Model::default();
    let mut fx = Effects::default();
    let mut nontrivial_reopen = false;
    let mut any_stmt = false;
    let mut mid_checkpoint = false;
    let mut mutated_before = false; // delete/overwrite happened before some reopen
    let mut checkpoint_then_writes = false;
    // model of what the log holds if statements are not logged
    let mut no_stmt = m.clone();
    let mut stmts_changed = false;
    for (si, s) in h.sessions.iter().enumerate() {
        let db = open_session(&path, s)?;
        let d = guard("dump", || dump_db(&db))?;
        if si > 0 {
            if d != m.dump() {
                return Err(classify_reopen(&d, &m, &no_stmt, stmts_changed, &format!("reopen #{si}")));
            }
            if mutated_before {
                nontrivial_reopen = true;
            }
            if fx.writes > 0 {
                // the close before this open was a checkpoint; writes in this session come after it
                fx.checkpoints += 1;
            }
        }
        no_stmt = m.clone();
        stmts_changed = false;
        let cp_before = fx.checkpoints;
        for op in &s.ops {
            let mut models: [&mut Model; 2] = {
                let (a, b) = (&mut m, &mut no_stmt);
                [a, b]
            };
            apply_op(&db, &mut models, op, &mut fx)?;
            if matches!(op, Op::Checkpoint) && fx.checkpoints > cp_before {
                mid_checkpoint = true;
            }
        }
        for st in &s.stmts {
            any_stmt = true;
            if apply_stmt(&db, &mut m, st)? {
                stmts_changed = true;
                fx.writes += 1;
            }
        }
        if fx.deletes + fx.overwrites + fx.removes > 0 {
            mutated_before = true;
        }
        if fx.writes_after_checkpoint > 0 {
            checkpoint_then_writes = true;
        }
        let live = guard("dump", || dump_db(&db))?;
        if live != m.dump() {
            return fail("c05/live-vs-model", format!("session {si}: before close: {}", diff_dumps(&live, &m.dump())));
        }
        close_db(db, s.end)?;
    }
    // final reopen, then hand out fresh ids
    let last_mode = h.sessions.last().map_or(Mode::Default, |s| s.mode);
    let db = open_db(&path, last_mode)?;
    let d = guard("dump", || dump_db(&db))?;
    if d != m.dump() {
        return Err(classify_reopen(&d, &m, &no_stmt, stmts_changed, "final reopen"));
    }
    if mutated_before {
        nontrivial_reopen = true;
    }
    {
        let mut models: [&mut Model; 1] = [&mut m];
        apply_op(&db, &mut models, &Op::CreateNode { labels: vec![0] }, &mut fx)?;
        apply_op(&db, &mut models, &Op::CreateEdge { s: T { i: 0, dead: false }, d: T { i: 65535, dead: false }, ty: 0 }, &mut fx)?;
    }
    let live = guard("dump", || dump_db(&db))?;
    if live != m.dump() {
        return fail("c05/live-vs-model", format!("after final reopen: {}", diff_dumps(&live, &m.dump())));
    }
    close_db(db, End::Close)?;
    let db = open_db(&path, Mode::Default)?;
    let d = guard("dump", || dump_db(&db))?;
    if d != m.dump() {
        return Err(classify_reopen(&d, &m, &m, false, "reopen after post-recovery writes"));
    }
    // A saved copy is a persistent database too: it must reopen to the same state and hand out fresh ids.
    // (`save` logs the entities in enumeration order, not in id order, so this also drives recovery with a log whose
    // create records are not ascending.) Only when the engine's own dump agrees with the model (no open finding met).
    let path2 = dir.path().join("saved");
    match guard("save", || db.save(&path2))? {
        Ok(()) => {}
        Err(e) => return fail("c05/save-error", format!("{e}")),
    }
    close_db(db, End::Drop)?;
    {
        let db2 = open_db(&path2, Mode::Default)?;
        let d2 = guard("dump", || dump_db(&db2))?;
        if d2 != m.dump() {
            return fail("c05/saved-copy-reopen-mismatch", format!("saved copy reopened: {}", diff_dumps(&d2, &m.dump())));
        }
        let mut m2 = m.clone();
        {
            let mut models: [&mut Model; 1] = [&mut m2];
            for _ in 0..2 {
                apply_op(&db2, &mut models, &Op::CreateNode { labels: vec![1] }, &mut fx)?;
            }
            apply_op(&db2, &mut models, &Op::CreateEdge { s: T { i: 0, dead: false }, d: T { i: 65535, dead: false }, ty: 1 }, &mut fx)?;
        }
        let live2 = guard("dump", || dump_db(&db2))?;
        if live2 != m2.dump() {
            return fail("c05/live-vs-model", format!("saved copy after new writes: {}", diff_dumps(&live2, &m2.dump())));
        }
        close_db(db2, End::Close)?;
        let db3 = open_db(&path2, Mode::Default)?;
        let d3 = guard("dump", || dump_db(&db3))?;
        if d3 != m2.dump() {
            return fail("c05/saved-copy-reopen-mismatch", format!("saved copy, second reopen: {}", diff_dumps(&d3, &m2.dump())));
        }
        close_db(db3, End::Drop)?;
    }

    let class = if any_stmt {
        "with-statements"
    } else if h.sessions.iter().any(|s| s.knobs.is_some()) {
        "direct/generated-config"
    } else if mid_checkpoint {
        "direct/mid-session-checkpoint"
    } else if h.sessions.len() > 1 {
        "direct/multi-cycle"
    } else {
        "direct/one-cycle"
    };
    ok(nontrivial_reopen && checkpoint_then_writes, class, hash_dbg(h))
}

// ------------------------------------------------------------------------------------------------
// Sub-check `wal_manager`
// ------------------------------------------------------------------------------------------------

#[derive(Debug, Clone, PartialEq, Serialize, Deserialize)]
pub enum RecSpec {
    CreateNode { id: u8, labels: Vec<u8> },
    DeleteNode { id: u8 },
    CreateEdge { id: u8, src: u8, dst: u8, ty: u8 },
    DeleteEdge { id: u8 },
    SetNodeProp { id: u8, k: u8, v: V },
    SetEdgeProp { id: u8, k: u8, v: V },
    AddLabel { id: u8, l: u8 },
    RemoveLabel { id: u8, l: u8 },
}

pub fn to_record(r: &RecSpec) -> WalRecord {
    match r {
        RecSpec::CreateNode { id, labels } => WalRecord::CreateNode {
            id: NodeId::new(u64::from(*id)),
            labels: label_strs(labels).iter().map(|s| (*s).to_string()).collect(),
        },
        RecSpec::DeleteNode { id } => WalRecord::DeleteNode { id: NodeId::new(u64::from(*id)) },
        RecSpec::CreateEdge { id, src, dst, ty } => WalRecord::CreateEdge {
            id: EdgeId::new(u64::from(*id)),
            src: NodeId::new(u64::from(*src)),
            dst: NodeId::new(u64::from(*dst)),
            edge_type: TYPES[*ty as usize % 2].to_string(),
        },
        RecSpec::DeleteEdge { id } => WalRecord::DeleteEdge { id: EdgeId::new(u64::from(*id)) },
        RecSpec::SetNodeProp { id, k, v } => WalRecord::SetNodeProperty {
            id: NodeId::new(u64::from(*id)),
            key: KEYS[*k as usize % 4].to_string(),
            value: to_value(v),
        },
        RecSpec::SetEdgeProp { id, k, v } => WalRecord::SetEdgeProperty {
            id: EdgeId::new(u64::from(*id)),
            key: KEYS[*k as usize % 4].to_string(),
            value: to_value(v),
        },
        RecSpec::AddLabel { id, l } => {
            WalRecord::AddNodeLabel { id: NodeId::new(u64::from(*id)), label: LABELS[*l as usize % 3].to_string() }
        }
        RecSpec::RemoveLabel { id, l } => {
            WalRecord::RemoveNodeLabel { id: NodeId::new(u64::from(*id)), label: LABELS[*l as usize % 3].to_string() }
        }
    }
}

/// Canonical text of a data record (None for transaction-control records).
pub fn record_text(r: &WalRecord) -> Option<String> {
    Some(match r {
        WalRecord::CreateNode { id, labels } => format!("CN {} {labels:?}", id.as_u64()),
        WalRecord::DeleteNode { id } => format!("DN {}", id.as_u64()),
        WalRecord::CreateEdge { id, src, dst, edge_type } => {
            format!("CE {} {} {} {edge_type}", id.as_u64(), src.as_u64(), dst.as_u64())
        }
        WalRecord::DeleteEdge { id } => format!("DE {}", id.as_u64()),
        WalRecord::SetNodeProperty { id, key, value } => format!("SN {} {key} {}", id.as_u64(), canon(value)),
        WalRecord::SetEdgeProperty { id, key, value } => format!("SE {} {key} {}", id.as_u64(), canon(value)),
        WalRecord::AddNodeLabel { id, label } => format!("AL {} {label}", id.as_u64()),
        WalRecord::RemoveNodeLabel { id, label } => format!("RL {} {label}", id.as_u64()),
        WalRecord::TxCommit { .. } | WalRecord::TxAbort { .. } | WalRecord::Checkpoint { .. } => return None,
        #[allow(unreachable_patterns)]
        other => format!("{other:?}"),
    })
}

#[derive(Debug, Clone, PartialEq, Serialize, Deserialize)]
pub enum WStep {
    Log(RecSpec),
    /// what `GrafeoDB::wal_checkpoint` does: commit marker, checkpoint, sync
    Checkpoint,
    /// `WalManager::rotate()`
    Rotate,
    /// what `GrafeoDB::close` + reopen does: commit marker, checkpoint, sync, drop the manager, recover, reopen
    Reopen,
}

#[derive(Debug, Clone, Copy, PartialEq, Eq, Serialize, Deserialize)]
pub enum WMode {
    Sync,
    Batch { max_records: u64 },
    Adaptive,
    NoSync,
}

#[derive(Debug, Clone, PartialEq, Serialize, Deserialize)]
pub struct WalCase {
    pub max_log_size: u64,
    pub mode: WMode,
    pub steps: Vec<WStep>,
}

fn rec_strategy() -> impl Strategy<Value = RecSpec> {
    prop_oneof![
        3 => (0u8..8, labels_strategy()).prop_map(|(id, labels)| RecSpec::CreateNode { id, labels }),
        1 => (0u8..8).prop_map(|id| RecSpec::DeleteNode { id }),
        2 => (0u8..8, 0u8..8, 0u8..8, 0u8..2).prop_map(|(id, src, dst, ty)| RecSpec::CreateEdge { id, src, dst, ty }),
        1 => (0u8..8).prop_map(|id| RecSpec::DeleteEdge { id }),
        4 => (0u8..8, 0u8..4, value_strategy()).prop_map(|(id, k, v)| RecSpec::SetNodeProp { id, k, v }),
        2 => (0u8..8, 0u8..4, value_strategy()).prop_map(|(id, k, v)| RecSpec::SetEdgeProp { id, k, v }),
        1 => (0u8..8, 0u8..3).prop_map(|(id, l)| RecSpec::AddLabel { id, l }),
        1 => (0u8..8, 0u8..3).prop_map(|(id, l)| RecSpec::RemoveLabel { id, l }),
    ]
}

pub fn wal_case_strategy(max_steps: usize) -> impl Strategy<Value = WalCase> {
    let size = prop_oneof![
        // half of the cases never rotate by size (strict region); the others rotate at 64 B … 4 KiB
        5 => Just(64u64 * 1024 * 1024),
        1 => Just(64u64),
        2 => 64u64..512,
        2 => 512u64..4096,
    ];
    let mode = prop_oneof![
        Just(WMode::Sync),
        (1u64..5).prop_map(|n| WMode::Batch { max_records: n }),
        Just(WMode::Adaptive),
        Just(WMode::NoSync)
    ];
    let step = prop_oneof![
        12 => rec_strategy().prop_map(WStep::Log),
        2 => Just(WStep::Checkpoint),
        1 => Just(WStep::Rotate),
        2 => Just(WStep::Reopen),
    ];
    (size, mode, proptest::collection::vec(step, 1..=max_steps)).prop_map(|(max_log_size, mode, mut steps)| {
        if max_log_size >= 64 * 1024 * 1024 {
            // strict half: no rotation at all (explicit rotate() only in the rotating half)
            steps.retain(|s| *s != WStep::Rotate);
            if steps.is_empty() {
                steps.push(WStep::Checkpoint);
            }
        }
        WalCase { max_log_size, mode, steps }
    })
}

fn wal_config(c: &WalCase) -> WalConfig {
    WalConfig {
        durability: match c.mode {
            WMode::Sync => WalDurability::Sync,
            WMode::Batch { max_records } => WalDurability::Batch { max_delay_ms: 3_600_000, max_records },
            WMode::Adaptive => WalDurability::Adaptive { target_interval_ms: 50 },
            WMode::NoSync => WalDurability::NoSync,
        },
        max_log_size: c.max_log_size,
        ..WalConfig::default()
    }
}

/// Independent reader of the on-disk log files: (sequence, data-record texts) per file, in sequence order.
pub fn read_log_files(dir: &Path) -> Vec<(u64, Vec<String>)> {
    let mut files: Vec<(u64, std::path::PathBuf)> = Vec::new();
    if let Ok(rd) = std::fs::read_dir(dir) {
        for e in rd.flatten() {
            let name = e.file_name().to_string_lossy().to_string();
            if let Some(seq) = name.strip_prefix("wal_").and_then(|s| s.strip_suffix(".log")).and_then(|s| s.parse::<u64>().ok()) {
                files.push((seq, e.path()));
            }
        }
    }
    files.sort();
    files
        .into_iter()
        .map(|(seq, p)| {
            let bytes = std::fs::read(&p).unwrap_or_default();
            (seq, parse_log(&bytes).into_iter().filter_map(|(_, _, r)| record_text(&r)).collect())
        })
        .collect()
}

/// Parses a log image: (start offset, end offset, record) of every record up to the first invalid one.
pub fn parse_log(bytes: &[u8]) -> Vec<(usize, usize, WalRecord)> {
    let mut out = Vec::new();
    let mut pos = 0usize;
    while pos + 4 <= bytes.len() {
        let len = u32::from_le_bytes([bytes[pos], bytes[pos + 1], bytes[pos + 2], bytes[pos + 3]]) as usize;
        let Some(end) = pos.checked_add(8).and_then(|x| x.checked_add(len)) else { break };
        if end > bytes.len() {
            break;
        }
        let data = &bytes[pos + 4..pos + 4 + len];
        let crc = u32::from_le_bytes([bytes[end - 4], bytes[end - 3], bytes[end - 2], bytes[end - 1]]);
        if crc32fast::hash(data) != crc {
            break;
        }
        let Ok((rec, _)) = bincode::serde::decode_from_slice::<WalRecord, _>(data, bincode::config::standard()) else { break };
        out.push((pos, end, rec));
        pos = end;
    }
    out
}

fn wal_err<T>(ctx: &str, r: Result<grafeo_common::utils::error::Result<T>, Failure>) -> Result<T, Failure> {
    match r? {
        Ok(v) => Ok(v),
        Err(e) => fail(format!("c05/wal/{ctx}-error"), format!("{ctx} failed: {e}")),
    }
}

pub fn check_wal_case(c: &WalCase) -> CaseResult {
    let dir = scratch_dir();
    let wdir = dir.path().join("wal");
    let cfg = wal_config(c);
    let mut wal = Some(wal_err("open", guard("WalManager::with_config", || WalManager::with_config(&wdir, cfg.clone())))?);
    let mut expected: Vec<String> = Vec::new();
    let tx = TxId::new(1);
    let mut reopens = 0u32;
    let mut checkpoints_mid = 0u32;
    let mut logged_after_cp = false;
    let mut rotated = false;
    let mut steps = c.steps.clone();
    steps.push(WStep::Reopen);
    for st in &steps {
        let w = wal.as_ref().unwrap();
        match st {
            WStep::Log(r) => {
                let rec = to_record(r);
                wal_err("log", guard("log", || w.log(&rec)))?;
                expected.push(record_text(&rec).unwrap());
                if checkpoints_mid + reopens > 0 {
                    logged_after_cp = true;
                }
            }
            WStep::Checkpoint => {
                wal_err("log", guard("log", || w.log(&WalRecord::TxCommit { tx_id: tx })))?;
                wal_err("checkpoint", guard("checkpoint", || w.checkpoint(tx, EpochId::new(0))))?;
                wal_err("sync", guard("sync", || w.sync()))?;
                checkpoints_mid += 1;
            }
            WStep::Rotate => {
                wal_err("rotate", guard("rotate", || w.rotate()))?;
            }
            WStep::Reopen => {
                wal_err("log", guard("log", || w.log(&WalRecord::TxCommit { tx_id: tx })))?;
                wal_err("checkpoint", guard("checkpoint", || w.checkpoint(tx, EpochId::new(0))))?;
                wal_err("sync", guard("sync", || w.sync()))?;
                let old = wal.take();
                guard("drop", move || drop(old))?;
                let got: Vec<String> = wal_err("recover", guard("recover", || WalRecovery::new(&wdir).recover()))?
                    .iter()
                    .filter_map(record_text)
                    .collect();
                let files = read_log_files(&wdir);
                if files.len() > 1 {
                    rotated = true;
                }
                if got != expected {
                    // Known defect: checkpoint.meta names the *current* file and recovery skips every older file,
                    // although nothing but the log holds their records. Predicted answer: exactly the records of
                    // the files with sequence >= the checkpoint's sequence.
                    let meta_seq = WalRecovery::new(&wdir).checkpoint().map(|m| m.log_sequence);
                    if let Some(ms) = meta_seq {
                        let all: Vec<String> = files.iter().flat_map(|(_, r)| r.iter().cloned()).collect();
                        let kept: Vec<String> =
                            files.iter().filter(|(s, _)| *s >= ms).flat_map(|(_, r)| r.iter().cloned()).collect();
                        if all == expected && got == kept && ms > 0 && kept.len() < all.len() {
                            return fail(
                                "c05/rotation-checkpoint-skips-older-files",
                                format!(
                                    "after rotation to wal_{ms:08}.log and a checkpoint, recovery returned {} of {} logged records: \
                                     everything in files before sequence {ms} is skipped although no other copy exists",
                                    got.len(),
                                    expected.len()
                                ),
                            );
                        }
                    }
                    let first = got.iter().zip(expected.iter()).position(|(a, b)| a != b).unwrap_or(got.len().min(expected.len()));
                    return fail(
                        "c05/wal/recovered-records-mismatch",
                        format!(
                            "recovered {} records, logged {}; first difference at #{first}: got {:?} want {:?}",
                            got.len(),
                            expected.len(),
                            got.get(first),
                            expected.get(first)
                        ),
                    );
                }
                reopens += 1;
                wal = Some(wal_err("open", guard("WalManager::with_config", || WalManager::with_config(&wdir, cfg.clone())))?);
            }
        }
    }
    let old = wal.take();
    guard("drop", move || drop(old))?;
    let class = if rotated { "rotated" } else if checkpoints_mid > 0 { "single-file/mid-checkpoint" } else { "single-file" };
    ok(logged_after_cp && expected.len() >= 2, class, hash_dbg(c))
}

// ------------------------------------------------------------------------------------------------
// Sub-check `rotation_64mib`
// ------------------------------------------------------------------------------------------------

#[derive(Debug, Clone, PartialEq, Serialize, Deserialize)]
pub struct BigCase {
    /// number of 1 MiB property writes before the close (rotation happens after 64 MiB)
    pub writes: u32,
    /// take an explicit checkpoint after this many writes (0 = none)
    pub checkpoint_after: u32,
    pub mode: Mode,
}

pub fn check_big(c: &BigCase) -> CaseResult {
    let dir = scratch_dir();
    let path = dir.path().join("db");
    let db = open_db(&path, c.mode)?;
    let mut m = Model::default();
    let mut fx = Effects::default();
    let mut models: [&mut Model; 1] = [&mut m];
    apply_op(&db, &mut models, &Op::CreateNodeProps { labels: vec![0], props: vec![(0, V::Int(1))] }, &mut fx)?;
    let wal_dir = path.join("wal");
    let mut first_after_rotation: Option<u32> = None;
    let mut max_seq = 0u64;
    for i in 0..c.writes {
        let payload = vec![(i % 251) as u8; 1 << 20];
        apply_op(
            &db,
            &mut models,
            &Op::CreateNodeProps { labels: vec![1], props: vec![(1, V::Int(i64::from(i))), (2, V::Bytes(payload))] },
            &mut fx,
        )?;
        let seq = max_log_seq(&wal_dir);
        if seq > max_seq {
            max_seq = seq;
            first_after_rotation = Some(i + 1);
        }
        if c.checkpoint_after == i + 1 {
            apply_op(&db, &mut models, &Op::Checkpoint, &mut fx)?;
        }
    }
    close_db(db, End::Close)?;
    let db = open_db(&path, c.mode)?;
    let d = guard("dump", || dump_db(&db))?;
    close_db(db, End::Drop)?;
    let want = m.dump();
    if d != want {
        if let Some(k) = first_after_rotation {
            // predicted by the rotation+checkpoint defect: only nodes created after the rotation survive
            let kept: Vec<NodeDump> = want.nodes.iter().filter(|n| n.id > u64::from(k)).cloned().collect();
            if d.edges.is_empty() && d.nodes == kept && kept.len() < want.nodes.len() {
                return fail(
                    "c05/rotation-checkpoint-skips-older-files",
                    format!(
                        "after writing {} MiB (log rotated to wal_00000001.log) and close, the reopened database holds {} of {} nodes: \
                         everything logged in wal_00000000.log is skipped by recovery",
                        c.writes,
                        d.nodes.len(),
                        want.nodes.len()
                    ),
                );
            }
        }
        return fail("c05/reopen-mismatch", format!("64 MiB case: {}", truncate_diff(&d, &want)));
    }
    ok(first_after_rotation.is_some(), if first_after_rotation.is_some() { "rotated" } else { "no-rotation" }, hash_dbg(c))
}

fn max_log_seq(dir: &Path) -> u64 {
    let mut m = 0;
    if let Ok(rd) = std::fs::read_dir(dir) {
        for e in rd.flatten() {
            let name = e.file_name().to_string_lossy().to_string();
            if let Some(seq) = name.strip_prefix("wal_").and_then(|s| s.strip_suffix(".log")).and_then(|s| s.parse::<u64>().ok()) {
                m = m.max(seq);
            }
        }
    }
    m
}

fn truncate_diff(d: &Dump, want: &Dump) -> String {
    // payloads are 1 MiB; report ids only
    let g: Vec<u64> = d.nodes.iter().map(|n| n.id).collect();
    let w: Vec<u64> = want.nodes.iter().map(|n| n.id).collect();
    format!("node ids got {g:?} want {w:?}")
}

// ------------------------------------------------------------------------------------------------

pub fn run(r: &mut Run) {
    r.level = "exploration";
    r.rule = "reopen: histories of 1-5 open/close cycles (every durability mode, close/drop/double close) of direct-API ops \
              (create/delete node+edge, set/remove property with every Value variant incl. NaN payloads, nested lists/maps, \
              Bytes, Timestamp, Vector, empty string; add/remove label; batch_create_nodes; wal_checkpoint; wal().sync(); \
              10% of targets are deleted ids), 5% of sessions (about 13% of histories) end with a block of mutating GQL/Cypher \
              statements (known finding region; the rest is the strict region). Non-trivial = a reopen after >= 1 delete / property \
              overwrite / removal AND >= 1 checkpoint (explicit or close) followed by more writes. wal_manager: half of \
              the cases never rotate (strict), half rotate at 64 B..4 KiB (known-finding region); non-trivial = records \
              logged after a checkpoint or reopen. reopen_config: the reopen histories (2-5 sessions, no statements) with every session \
              opened under its own generated Config (wal_flush_interval_ms 1..u32::MAX, memory_limit unset / 1 KiB .. 4 GiB, threads 1..255, \
              backward_edges, schema_constraints, factorized_execution, adaptive, query_logging, spill_path) besides the durability mode. \
              Distinct by hash of the case."
        .into();
    r.assumptions.push("delete_node does not cascade to edges (LpgStore::delete_node note; DETACH is explicit)".into());
    r.assumptions.push("labels of a deleted or absent node are unobservable (ops are no-ops); properties are keyed by id in the store: a property written to an absent id stays hidden until an entity with that id is created, and a delete clears it (modelled the same way)".into());
    r.assumptions.push(
        "statements: the model is resynchronised from the live database after each statement (their in-memory semantics \
         belong to C08); only 'state before close == state after reopen' is demanded"
            .into(),
    );
    r.assumptions.push("id clause: a freshly handed-out id must not equal the id of an existing (live) node/edge; reuse of the id of a deleted entity is not demanded against (the statement says 'existing ones')".into());
    r.assumptions.push("wal_manager drives WalManager the way GrafeoDB does: TxCommit before every checkpoint, checkpoint epoch 0".into());
    let _ = Findings::load; // (findings are applied by the driver from the signature)

    let thorough = r.is_thorough();
    let (max_sessions, max_ops) = if thorough { (5, 60) } else { (5, 16) };
    r.subcheck("reopen", r.cases(1500, 40_000), move || history_strategy(max_sessions, max_ops, 0.05), check_history);

    // every other `Config` setting, a different one per session
    r.subcheck("reopen_config", r.cases(400, 10_000), move || config_history_strategy(max_sessions, max_ops), check_history);

    let max_steps = if thorough { 120 } else { 40 };
    r.subcheck("wal_manager", r.cases(4000, 150_000), move || wal_case_strategy(max_steps), check_wal_case);

    let mut big = vec![BigCase { writes: 70, checkpoint_after: 0, mode: Mode::Default }];
    if thorough {
        big.push(BigCase { writes: 70, checkpoint_after: 30, mode: Mode::Sync });
        big.push(BigCase { writes: 140, checkpoint_after: 100, mode: Mode::NoSync });
        big.push(BigCase { writes: 60, checkpoint_after: 0, mode: Mode::Default });
    }
    r.enumerate("rotation_64mib", big, false, check_big);

    // AsyncWalManager and AdaptiveFlusher (walx.rs)
    crate::props::walx::run_c05(r);
}
