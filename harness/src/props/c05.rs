//! C05 — not built yet.

use crate::driver::Run;

pub fn run(r: &mut Run) {
    r.inconclusive("C05: check not built yet");
}
