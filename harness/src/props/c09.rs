//! C09 — not built yet.

use crate::driver::Run;

pub fn run(r: &mut Run) {
    r.inconclusive("C09: check not built yet");
}
