//! C13 — SPARQL answers equal evaluation over the stored triple set.
//!
//! (a) `store`: `RdfStore` histories against a `BTreeSet` of triples, every access path after every step;
//! (b) `sparql`: generated SPARQL queries / updates against a small algebra evaluator over the same set;
//! (c) `ring`: `TripleRing` built from the set answers every pattern shape like the set.

pub mod ring;
pub mod sparql;
pub mod store;
pub mod terms;

use crate::driver::Run;

pub fn run(r: &mut Run) {
    r.level = "exploration";
    r.rule = "store: histories of 1..=40 (thorough 120) insert/remove/clear/tx-insert/tx-remove/commit/rollback over a 6x3x16 term universe \
              (60% of histories over a 12-triple sub-universe so duplicates and removals of present triples are frequent), object index on/off, \
              every access path compared after every step; non-trivial = a present triple was removed (directly or by a committed transaction) \
              and every index was consulted afterwards. \
              sparql: 0..=14 (thorough 24) triples with typed columns (p0 -> resources, p1 -> strings, p2 -> integers; 25% of the data sets carry \
              ~25% objects with colliding lexical forms) x one SELECT / COUNT query: required part = star / chain / free-form of 1..=3 patterns, \
              0..=2 OPTIONALs, FILTER trees, UNION (2/3 with a second branch binding the same variables, 1/3 independent = known-finding region, \
              kept free of solution modifiers), DISTINCT / ORDER BY / LIMIT / OFFSET, COUNT [DISTINCT] with and without GROUP BY; \
              non-trivial = >= 2 triple patterns share a variable and the reference answer is non-empty. \
              update: 0..=6 triples, then 1..=4 INSERT DATA / DELETE DATA statements, store (full terms) and SELECT compared after each; \
              non-trivial = the statements change the set. \
              ring: triple lists of 0..=300 (thorough 1500) with duplicates, lengths biased to 63/64/65/127/128/129; non-trivial = >= 3 distinct \
              triples sharing terms. distinct = hash of the whole case"
        .into();
    r.assumptions.push(
        "SPARQL result rows expose only the lexical form of a term (IRI string, _:id, literal value) as a String value; \
         expected and observed solutions are compared on that lexical form, so IRI / plain / typed / language-tagged terms with equal \
         lexical forms are indistinguishable in results (after an update the store itself is compared on full terms)"
            .into(),
    );
    r.assumptions.push(
        "FILTER comparisons are only judged where SPARQL 1.1 defines the outcome without implementation latitude (numeric/numeric, \
         string/string, IRI identity, literal-vs-IRI (in)equality, unbound => error, 3-valued && || !); cases that evaluate another kind \
         of comparison are classed 'murky' and not judged"
            .into(),
    );
    r.assumptions.push("language tags are generated in lower case only (the store compares them case-sensitively)".into());
    r.assumptions.push("an Err from execute_sparql is not a wrong answer: it is classed (err:<kind>) and not judged".into());

    let max_ops = if r.is_thorough() { 120 } else { 40 };
    r.subcheck("store", r.cases(3_000, 60_000), move || store::strategy(max_ops), store::check);

    sparql::run(r);

    let max_triples = if r.is_thorough() { 1500 } else { 300 };
    r.subcheck("ring", r.cases(1_500, 20_000), move || ring::strategy(max_triples), ring::check);
}
