//! Sub-check (a): `RdfStore` histories against a `BTreeSet` of triples.

use std::collections::{BTreeMap, BTreeSet};
use std::sync::Arc;

use grafeo_common::types::TxId;
use grafeo_core::graph::rdf::{RdfStore, RdfStoreConfig, Term, Triple};
use proptest::prelude::*;
use serde::{Deserialize, Serialize};

use super::terms::*;
use crate::driver::{CaseResult, Failure, fail, guard, hash_of, ok};

/// A triple as three pool indices (subject_pool / predicate_pool / object_pool).
#[derive(Debug, Clone, Copy, PartialEq, Eq, Hash, Serialize, Deserialize)]
pub struct Ti {
    pub s: u8,
    pub p: u8,
    pub o: u8,
}

#[derive(Debug, Clone, PartialEq, Eq, Hash, Serialize, Deserialize)]
pub enum Op {
    Insert(Ti),
    Remove(Ti),
    Clear,
    TxInsert(u8, Ti),
    TxRemove(u8, Ti),
    Commit(u8),
    Rollback(u8),
}

#[derive(Debug, Clone, PartialEq, Eq, Hash, Serialize, Deserialize)]
pub struct StoreCase {
    pub index_objects: bool,
    pub ops: Vec<Op>,
}

fn ti(narrow: bool) -> impl Strategy<Value = Ti> {
    let (ns, np, no) = (subject_pool().len() as u8, predicate_pool().len() as u8, object_pool().len() as u8);
    if narrow {
        // 2 x 2 x 3 = 12 triples: duplicates, removals of present triples and re-inserts are frequent
        (0u8..2, 0u8..2, prop_oneof![Just(0u8), Just(6u8), Just(7u8)]).prop_map(|(s, p, o)| Ti { s, p, o }).boxed()
    } else {
        (0u8..ns, 0u8..np, 0u8..no).prop_map(|(s, p, o)| Ti { s, p, o }).boxed()
    }
}

fn op(narrow: bool, tx_share: u32) -> impl Strategy<Value = Op> {
    prop_oneof![
        10 => ti(narrow).prop_map(Op::Insert),
        7 => ti(narrow).prop_map(Op::Remove),
        1 => Just(Op::Clear),
        tx_share * 3 => (0u8..3, ti(narrow)).prop_map(|(t, x)| Op::TxInsert(t, x)),
        tx_share * 3 => (0u8..3, ti(narrow)).prop_map(|(t, x)| Op::TxRemove(t, x)),
        tx_share => (0u8..3).prop_map(Op::Commit),
        tx_share => (0u8..3).prop_map(Op::Rollback),
    ]
}

pub fn strategy(max_ops: usize) -> impl Strategy<Value = StoreCase> {
    (any::<bool>(), prop_oneof![3 => Just(true), 2 => Just(false)], prop_oneof![1 => Just(0u32), 3 => Just(1u32), 1 => Just(3u32)])
        .prop_flat_map(move |(index_objects, narrow, tx_share)| {
            proptest::collection::vec(op(narrow, tx_share), 1..=max_ops)
                .prop_map(move |ops| StoreCase { index_objects, ops })
        })
}

struct Pools {
    s: Vec<T>,
    p: Vec<T>,
    o: Vec<T>,
}

impl Pools {
    fn new() -> Self {
        Pools { s: subject_pool(), p: predicate_pool(), o: object_pool() }
    }
    fn tr(&self, t: Ti) -> Tr {
        (
            self.s[t.s as usize % self.s.len()].clone(),
            self.p[t.p as usize % self.p.len()].clone(),
            self.o[t.o as usize % self.o.len()].clone(),
        )
    }
}

fn sorted_trs(v: &[Arc<Triple>]) -> Vec<Tr> {
    let mut out: Vec<Tr> = v.iter().map(|t| from_triple(t)).collect();
    out.sort();
    out
}

fn sorted_terms(v: &[Term]) -> Vec<T> {
    let mut out: Vec<T> = v.iter().map(T::from_term).collect();
    out.sort();
    out
}

fn shape_name(s: bool, p: bool, o: bool) -> &'static str {
    match (s, p, o) {
        (false, false, false) => "???",
        (true, false, false) => "s??",
        (false, true, false) => "?p?",
        (false, false, true) => "??o",
        (true, true, false) => "sp?",
        (true, false, true) => "s?o",
        (false, true, true) => "?po",
        (true, true, true) => "spo",
    }
}

/// Program-order view of a transaction: committed set, then the buffered operations one after another.
fn pending_view(model: &BTreeSet<Tr>, ops: &[(bool, Tr)]) -> BTreeSet<Tr> {
    let mut v = model.clone();
    for (ins, t) in ops {
        if *ins {
            v.insert(t.clone());
        } else {
            v.remove(t);
        }
    }
    v
}

/// What `find_with_pending` computed on the pinned tree: committed matches minus *all* pending deletes,
/// plus *every* pending insert (used only to name the failure).
fn pending_view_baseline(model: &BTreeSet<Tr>, ops: &[(bool, Tr)]) -> Vec<Tr> {
    let dels: BTreeSet<&Tr> = ops.iter().filter(|(i, _)| !*i).map(|(_, t)| t).collect();
    let mut v: Vec<Tr> = model.iter().filter(|t| !dels.contains(t)).cloned().collect();
    v.extend(ops.iter().filter(|(i, _)| *i).map(|(_, t)| t.clone()));
    v.sort();
    v
}

struct Ctx<'a> {
    store: &'a RdfStore,
    model: &'a BTreeSet<Tr>,
    pending: &'a BTreeMap<u8, Vec<(bool, Tr)>>,
    step: usize,
    index_objects: bool,
}

impl Ctx<'_> {
    fn at(&self) -> String {
        format!("after step {} (object index {})", self.step, if self.index_objects { "on" } else { "off" })
    }

    /// One pattern through `find`, `find_with_pending(None)` and `find_with_pending(Some(tx))` for every open tx.
    fn check_pattern(&self, s: Option<&T>, p: Option<&T>, o: Option<&T>) -> Result<(), Failure> {
        let pat = pattern(s, p, o);
        let shape = shape_name(s.is_some(), p.is_some(), o.is_some());
        let want: Vec<Tr> = self.model.iter().filter(|t| matches(t, s, p, o)).cloned().collect();
        let got = sorted_trs(&guard("find", || self.store.find(&pat))?);
        if got != want {
            return fail(
                format!("c13/store/find/{shape}"),
                format!("{}: find{} = {:?}, set says {:?}", self.at(), show_pat(s, p, o), show(&got), show(&want)),
            );
        }
        let got = sorted_trs(&guard("find_with_pending", || self.store.find_with_pending(&pat, None))?);
        if got != want {
            return fail(
                format!("c13/store/find_with_pending-none/{shape}"),
                format!("{}: find_with_pending{}(None) = {:?}, set says {:?}", self.at(), show_pat(s, p, o), show(&got), show(&want)),
            );
        }
        for (tx, ops) in self.pending {
            let view = pending_view(self.model, ops);
            let want: Vec<Tr> = view.iter().filter(|t| matches(t, s, p, o)).cloned().collect();
            let got = sorted_trs(&guard("find_with_pending", || self.store.find_with_pending(&pat, Some(txid(*tx))))?);
            if got != want {
                let base: Vec<Tr> = pending_view_baseline(self.model, ops).into_iter().filter(|t| matches(t, s, p, o)).collect();
                let mut dedup = got.clone();
                dedup.dedup();
                let sig = if got == base && dedup == want {
                    "c13/store/pending/insert-returned-twice"
                } else if got == base {
                    "c13/store/pending/not-in-program-order"
                } else {
                    "c13/store/pending/mismatch"
                };
                return fail(
                    sig,
                    format!(
                        "{}: find_with_pending{}(tx {tx}) = {:?}, committed set with tx's buffered ops {:?} applied in order says {:?}",
                        self.at(),
                        show_pat(s, p, o),
                        show(&got),
                        ops.iter().map(|(i, t)| format!("{}{}", if *i { "+" } else { "-" }, show_tr(t))).collect::<Vec<_>>(),
                        show(&want)
                    ),
                );
            }
        }
        Ok(())
    }
}

fn show(v: &[Tr]) -> Vec<String> {
    v.iter().map(show_tr).collect()
}

fn txid(k: u8) -> TxId {
    TxId::new(10 + u64::from(k))
}

pub fn check(case: &StoreCase) -> CaseResult {
    let pools = Pools::new();
    let store = guard("with_config", || {
        RdfStore::with_config(RdfStoreConfig { initial_capacity: 4, index_objects: case.index_objects })
    })?;
    let mut model: BTreeSet<Tr> = BTreeSet::new();
    let mut pending: BTreeMap<u8, Vec<(bool, Tr)>> = BTreeMap::new();
    let mut touched: BTreeSet<Tr> = BTreeSet::new();
    // non-triviality bookkeeping
    let mut removed_present = false;
    let mut dup_insert = false;
    let mut absent_remove = false;
    let mut tx_effective = false;
    let mut used_tx = false;

    for (step, op) in case.ops.iter().enumerate() {
        match op {
            Op::Insert(t) => {
                let tr = pools.tr(*t);
                touched.insert(tr.clone());
                let want = model.insert(tr.clone());
                dup_insert |= !want;
                let got = guard("insert", || store.insert(to_triple(&tr)))?;
                if got != want {
                    return fail("c13/store/insert-return", format!("step {step}: insert({}) returned {got}, set says {want}", show_tr(&tr)));
                }
            }
            Op::Remove(t) => {
                let tr = pools.tr(*t);
                touched.insert(tr.clone());
                let want = model.remove(&tr);
                removed_present |= want;
                absent_remove |= !want;
                let got = guard("remove", || store.remove(&to_triple(&tr)))?;
                if got != want {
                    return fail("c13/store/remove-return", format!("step {step}: remove({}) returned {got}, set says {want}", show_tr(&tr)));
                }
            }
            Op::Clear => {
                model.clear();
                guard("clear", || store.clear())?;
            }
            Op::TxInsert(k, t) => {
                used_tx = true;
                let tr = pools.tr(*t);
                touched.insert(tr.clone());
                pending.entry(*k).or_default().push((true, tr.clone()));
                guard("insert_in_tx", || store.insert_in_tx(txid(*k), to_triple(&tr)))?;
            }
            Op::TxRemove(k, t) => {
                used_tx = true;
                let tr = pools.tr(*t);
                touched.insert(tr.clone());
                pending.entry(*k).or_default().push((false, tr.clone()));
                guard("remove_in_tx", || store.remove_in_tx(txid(*k), to_triple(&tr)))?;
            }
            Op::Commit(k) => {
                let ops = pending.remove(k).unwrap_or_default();
                let before = model.clone();
                for (ins, t) in &ops {
                    if *ins {
                        model.insert(t.clone());
                    } else {
                        removed_present |= model.remove(t);
                    }
                }
                tx_effective |= before != model;
                let got = guard("commit_tx", || store.commit_tx(txid(*k)))?;
                if got != ops.len() {
                    return fail("c13/store/commit-count", format!("step {step}: commit_tx returned {got}, {} operations were buffered", ops.len()));
                }
            }
            Op::Rollback(k) => {
                let ops = pending.remove(k).unwrap_or_default();
                let got = guard("rollback_tx", || store.rollback_tx(txid(*k)))?;
                if got != ops.len() {
                    return fail("c13/store/rollback-count", format!("step {step}: rollback_tx returned {got}, {} operations were buffered", ops.len()));
                }
            }
        }

        // ---- full comparison after every step ----
        let cx = Ctx { store: &store, model: &model, pending: &pending, step, index_objects: case.index_objects };
        let len = guard("len", || store.len())?;
        if len != model.len() {
            return fail("c13/store/len", format!("{}: len() = {len}, set has {}", cx.at(), model.len()));
        }
        if guard("is_empty", || store.is_empty())? != model.is_empty() {
            return fail("c13/store/is_empty", format!("{}: is_empty() disagrees with a set of {}", cx.at(), model.len()));
        }
        let all = sorted_trs(&guard("triples", || store.triples())?);
        if all != model.iter().cloned().collect::<Vec<_>>() {
            return fail("c13/store/triples", format!("{}: triples() = {:?}, set {:?}", cx.at(), show(&all), model.iter().map(show_tr).collect::<Vec<_>>()));
        }
        for k in 0u8..3 {
            let want = pending.get(&k).is_some_and(|v| !v.is_empty());
            if guard("has_pending_ops", || store.has_pending_ops(txid(k)))? != want {
                return fail("c13/store/has_pending_ops", format!("{}: has_pending_ops(tx {k}) != {want}", cx.at()));
            }
        }
        // distinct subjects / predicates / objects and the statistics derived from the same indexes
        let subj: Vec<T> = model.iter().map(|t| t.0.clone()).collect::<BTreeSet<_>>().into_iter().collect();
        let pred: Vec<T> = model.iter().map(|t| t.1.clone()).collect::<BTreeSet<_>>().into_iter().collect();
        let obj: Vec<T> = model.iter().map(|t| t.2.clone()).collect::<BTreeSet<_>>().into_iter().collect();
        let got = sorted_terms(&guard("subjects", || store.subjects())?);
        if got != subj {
            return fail("c13/store/subjects", format!("{}: subjects() = {got:?}, set says {subj:?}", cx.at()));
        }
        let got = sorted_terms(&guard("predicates", || store.predicates())?);
        if got != pred {
            return fail("c13/store/predicates", format!("{}: predicates() = {got:?}, set says {pred:?}", cx.at()));
        }
        let got = sorted_terms(&guard("objects", || store.objects())?);
        if got != obj {
            return fail("c13/store/objects", format!("{}: objects() = {got:?}, set says {obj:?}", cx.at()));
        }
        let st = guard("stats", || store.stats())?;
        let want_obj_count = if case.index_objects { obj.len() } else { 0 }; // documented: 0 if object index disabled
        if st.triple_count != model.len() || st.subject_count != subj.len() || st.predicate_count != pred.len() || st.object_count != want_obj_count {
            return fail(
                "c13/store/stats",
                format!("{}: stats() = {st:?}, set says triples {} subjects {} predicates {} objects {}", cx.at(), model.len(), subj.len(), pred.len(), want_obj_count),
            );
        }
        // single-term lookups for every term of the pools (present or not)
        cx.check_pattern(None, None, None)?;
        for s in &pools.s {
            cx.check_pattern(Some(s), None, None)?;
            let want: Vec<Tr> = model.iter().filter(|t| t.0 == *s).cloned().collect();
            let got = sorted_trs(&guard("triples_with_subject", || store.triples_with_subject(&s.to_term()))?);
            if got != want {
                return fail("c13/store/triples_with_subject", format!("{}: triples_with_subject({}) = {:?}, set says {:?}", cx.at(), s.sparql(), show(&got), show(&want)));
            }
        }
        for p in &pools.p {
            cx.check_pattern(None, Some(p), None)?;
            let want: Vec<Tr> = model.iter().filter(|t| t.1 == *p).cloned().collect();
            let got = sorted_trs(&guard("triples_with_predicate", || store.triples_with_predicate(&p.to_term()))?);
            if got != want {
                return fail("c13/store/triples_with_predicate", format!("{}: triples_with_predicate({}) = {:?}, set says {:?}", cx.at(), p.sparql(), show(&got), show(&want)));
            }
        }
        for o in &pools.o {
            cx.check_pattern(None, None, Some(o))?;
            let want: Vec<Tr> = model.iter().filter(|t| t.2 == *o).cloned().collect();
            let got = sorted_trs(&guard("triples_with_object", || store.triples_with_object(&o.to_term()))?);
            if got != want {
                return fail("c13/store/triples_with_object", format!("{}: triples_with_object({}) = {:?}, set says {:?}", cx.at(), o.sparql(), show(&got), show(&want)));
            }
        }
        // two- and three-term shapes for every triple the history has touched (present, removed, only pending, never inserted)
        for t in &touched {
            cx.check_pattern(Some(&t.0), Some(&t.1), None)?;
            cx.check_pattern(Some(&t.0), None, Some(&t.2))?;
            cx.check_pattern(None, Some(&t.1), Some(&t.2))?;
            cx.check_pattern(Some(&t.0), Some(&t.1), Some(&t.2))?;
            let want = model.contains(t);
            if guard("contains", || store.contains(&to_triple(t)))? != want {
                return fail("c13/store/contains", format!("{}: contains({}) != {want}", cx.at(), show_tr(t)));
            }
        }
    }

    let class = format!(
        "objidx-{}{}{}",
        if case.index_objects { "on" } else { "off" },
        if used_tx { "+tx" } else { "" },
        if removed_present { "+removal" } else { "" }
    );
    let _ = (dup_insert, absent_remove, tx_effective);
    // non-trivial: a present triple was removed (directly or by a committed transaction) — every index is
    // consulted after that step, so the removal is looked up through indexes other than the one that found it.
    ok(removed_present, class, hash_of(case))
}
