//! Sub-check (b): SPARQL queries and updates against a small algebra evaluator over the triple set.
//!
//! The reference evaluates the SPARQL 1.1 algebra (BGP / Join / LeftJoin / Union / Filter / Project /
//! Distinct / OrderBy / Slice / Group+COUNT) over solution multisets of full RDF terms; only the final
//! comparison goes through the lexical form, because that is all the engine's rows expose.

use std::collections::{BTreeMap, BTreeSet};

use grafeo_common::types::Value;
use grafeo_engine::GrafeoDB;
use proptest::prelude::*;
use serde::{Deserialize, Serialize};

use super::terms::*;
use crate::driver::{CaseResult, Failure, Run, fail, guard, hash_of, ok};

// -------------------------------------------------------------------------------------------------
// Query AST
// -------------------------------------------------------------------------------------------------

pub type Var = u8;

#[derive(Debug, Clone, PartialEq, Eq, Hash, Serialize, Deserialize)]
pub enum VT {
    V(Var),
    C(T),
}

#[derive(Debug, Clone, PartialEq, Eq, Hash, Serialize, Deserialize)]
pub struct TP {
    pub s: VT,
    pub p: VT,
    pub o: VT,
}

#[derive(Debug, Clone, Copy, PartialEq, Eq, Hash, Serialize, Deserialize)]
pub enum CmpOp {
    Eq,
    Ne,
    Lt,
    Le,
    Gt,
    Ge,
}

#[derive(Debug, Clone, PartialEq, Eq, Hash, Serialize, Deserialize)]
pub enum Expr {
    Cmp(CmpOp, VT, VT),
    And(Box<Expr>, Box<Expr>),
    Or(Box<Expr>, Box<Expr>),
    Not(Box<Expr>),
    Bound(Var),
}

#[derive(Debug, Clone, PartialEq, Eq, Hash, Serialize, Deserialize)]
pub struct Opt {
    pub bgp: Vec<TP>,
    pub filter: Option<Expr>,
}

/// `{ bgp OPTIONAL {..}* FILTER(..)? }` — OPTIONALs always follow the required patterns.
#[derive(Debug, Clone, PartialEq, Eq, Hash, Serialize, Deserialize)]
pub struct Group {
    pub bgp: Vec<TP>,
    pub optionals: Vec<Opt>,
    pub filter: Option<Expr>,
}

#[derive(Debug, Clone, PartialEq, Eq, Hash, Serialize, Deserialize)]
pub enum Pattern {
    Group(Group),
    Union(Vec<Group>),
}

#[derive(Debug, Clone, PartialEq, Eq, Hash, Serialize, Deserialize)]
pub enum Proj {
    Star,
    Vars(Vec<Var>),
}

#[derive(Debug, Clone, PartialEq, Eq, Hash, Serialize, Deserialize)]
pub enum Query {
    Select { distinct: bool, proj: Proj, pattern: Pattern, order: Vec<(Var, bool)>, limit: Option<u8>, offset: Option<u8> },
    /// `SELECT [?g] (COUNT([DISTINCT] ?arg | *) AS ?c) WHERE {..} [GROUP BY ?g]`
    Count { pattern: Pattern, group_by: Option<Var>, arg: Option<Var>, distinct: bool },
}

#[derive(Debug, Clone, PartialEq, Eq, Hash, Serialize, Deserialize)]
pub struct SparqlCase {
    pub data: Vec<Tr>,
    pub via_session: bool,
    pub query: Query,
}

#[derive(Debug, Clone, PartialEq, Eq, Hash, Serialize, Deserialize)]
pub enum Update {
    InsertData(Vec<Tr>),
    DeleteData(Vec<Tr>),
    /// `[DELETE {..}] [INSERT {..}] WHERE { ?s <p> ?o }` with variable templates; `shape`: 0 reverse the edge
    /// (DELETE ?s p ?o / INSERT ?o p ?s), 1 move to predicate `p2`, 2 delete only, 3 copy to `p2` (insert only)
    Modify { p: u8, p2: u8, shape: u8 },
}

#[derive(Debug, Clone, PartialEq, Eq, Hash, Serialize, Deserialize)]
pub struct UpdateCase {
    pub data: Vec<Tr>,
    pub via_session: bool,
    pub updates: Vec<Update>,
}

// -------------------------------------------------------------------------------------------------
// Rendering
// -------------------------------------------------------------------------------------------------

fn var(v: Var) -> String {
    format!("?v{v}")
}

fn vt(x: &VT) -> String {
    match x {
        VT::V(v) => var(*v),
        VT::C(t) => t.sparql(),
    }
}

fn render_bgp(b: &[TP]) -> String {
    b.iter().map(|t| format!("{} {} {} .", vt(&t.s), vt(&t.p), vt(&t.o))).collect::<Vec<_>>().join(" ")
}

fn render_expr(e: &Expr) -> String {
    match e {
        Expr::Cmp(op, a, b) => {
            let o = match op {
                CmpOp::Eq => "=",
                CmpOp::Ne => "!=",
                CmpOp::Lt => "<",
                CmpOp::Le => "<=",
                CmpOp::Gt => ">",
                CmpOp::Ge => ">=",
            };
            format!("({} {o} {})", vt(a), vt(b))
        }
        Expr::And(a, b) => format!("({} && {})", render_expr(a), render_expr(b)),
        Expr::Or(a, b) => format!("({} || {})", render_expr(a), render_expr(b)),
        Expr::Not(a) => format!("(!{})", render_expr(a)),
        Expr::Bound(v) => format!("bound({})", var(*v)),
    }
}

fn render_group_body(g: &Group) -> String {
    let mut s = render_bgp(&g.bgp);
    for o in &g.optionals {
        s.push_str(" OPTIONAL { ");
        s.push_str(&render_bgp(&o.bgp));
        if let Some(f) = &o.filter {
            s.push_str(&format!(" FILTER({})", render_expr(f)));
        }
        s.push_str(" }");
    }
    if let Some(f) = &g.filter {
        s.push_str(&format!(" FILTER({})", render_expr(f)));
    }
    s
}

fn render_pattern(p: &Pattern) -> String {
    match p {
        Pattern::Group(g) => format!("{{ {} }}", render_group_body(g)),
        Pattern::Union(gs) => {
            format!("{{ {} }}", gs.iter().map(|g| format!("{{ {} }}", render_group_body(g))).collect::<Vec<_>>().join(" UNION "))
        }
    }
}

pub fn render(q: &Query) -> String {
    match q {
        Query::Select { distinct, proj, pattern, order, limit, offset } => {
            let mut s = String::from("SELECT ");
            if *distinct {
                s.push_str("DISTINCT ");
            }
            match proj {
                Proj::Star => s.push('*'),
                Proj::Vars(vs) => s.push_str(&vs.iter().map(|v| var(*v)).collect::<Vec<_>>().join(" ")),
            }
            s.push_str(" WHERE ");
            s.push_str(&render_pattern(pattern));
            if !order.is_empty() {
                s.push_str(" ORDER BY");
                for (v, desc) in order {
                    if *desc {
                        s.push_str(&format!(" DESC({})", var(*v)));
                    } else {
                        s.push_str(&format!(" {}", var(*v)));
                    }
                }
            }
            if let Some(l) = limit {
                s.push_str(&format!(" LIMIT {l}"));
            }
            if let Some(o) = offset {
                s.push_str(&format!(" OFFSET {o}"));
            }
            s
        }
        Query::Count { pattern, group_by, arg, distinct } => {
            let a = match arg {
                None => "*".to_string(),
                Some(v) => var(*v),
            };
            let d = if *distinct { "DISTINCT " } else { "" };
            let mut s = String::from("SELECT ");
            if let Some(g) = group_by {
                s.push_str(&format!("{} ", var(*g)));
            }
            s.push_str(&format!("(COUNT({d}{a}) AS ?c) WHERE {}", render_pattern(pattern)));
            if let Some(g) = group_by {
                s.push_str(&format!(" GROUP BY {}", var(*g)));
            }
            s
        }
    }
}

pub fn render_update(u: &Update) -> String {
    let (kw, ts) = match u {
        Update::InsertData(ts) => ("INSERT DATA", ts),
        Update::DeleteData(ts) => ("DELETE DATA", ts),
        Update::Modify { p, p2, shape } => {
            let (p, p2) = (q_pred(*p).sparql(), q_pred(*p2).sparql());
            let del = format!("DELETE {{ ?s {p} ?o }}");
            let wh = format!("WHERE {{ ?s {p} ?o }}");
            return match shape % 4 {
                0 => format!("{del} INSERT {{ ?o {p} ?s }} {wh}"),
                1 => format!("{del} INSERT {{ ?s {p2} ?o }} {wh}"),
                2 => format!("{del} {wh}"),
                _ => format!("INSERT {{ ?s {p2} ?o }} {wh}"),
            };
        }
    };
    format!("{kw} {{ {} }}", ts.iter().map(|t| format!("{} .", show_tr(t))).collect::<Vec<_>>().join(" "))
}

// -------------------------------------------------------------------------------------------------
// Reference evaluator
// -------------------------------------------------------------------------------------------------

pub type Sol = BTreeMap<Var, T>;

/// Outcome of a FILTER expression on one solution.
#[derive(Debug, Clone, Copy, PartialEq, Eq)]
enum B {
    True,
    False,
    /// evaluation error that no extension may replace (unbound variable)
    Error,
    /// SPARQL type error of the operator table: implementations may extend it (17.3.1) — not judged
    Murky,
}

/// The case cannot be judged (a FILTER outcome depends on an operator-table type error).
pub struct Murky;

fn resolve<'a>(x: &'a VT, s: &'a Sol) -> Option<&'a T> {
    match x {
        VT::V(v) => s.get(v),
        VT::C(t) => Some(t),
    }
}

fn cmp_terms(op: CmpOp, a: &T, b: &T, q: Q) -> B {
    use std::cmp::Ordering;
    let by = |o: Ordering| -> B {
        let r = match op {
            CmpOp::Eq => o == Ordering::Equal,
            CmpOp::Ne => o != Ordering::Equal,
            CmpOp::Lt => o == Ordering::Less,
            CmpOp::Le => o != Ordering::Greater,
            CmpOp::Gt => o == Ordering::Greater,
            CmpOp::Ge => o != Ordering::Less,
        };
        if r { B::True } else { B::False }
    };
    if let (Some(x), Some(y)) = (a.as_int(), b.as_int()) {
        return by(x.cmp(&y));
    }
    if let (T::Plain(x), T::Plain(y)) = (a, b) {
        if q.lexical_identity
            && let (Ok(i), Ok(j)) = (x.parse::<f64>(), y.parse::<f64>())
            && let Some(o) = i.partial_cmp(&j)
        {
            return by(o); // the engine cannot tell "10" from 10: strings that look numeric are compared as numbers
        }
        return by(x.as_str().cmp(y.as_str()));
    }
    match op {
        CmpOp::Eq | CmpOp::Ne if q.lexical_identity => by(a.lex().cmp(&b.lex())),
        CmpOp::Eq | CmpOp::Ne => {
            let same = a == b;
            if same {
                return if op == CmpOp::Eq { B::True } else { B::False };
            }
            if a.is_literal() && b.is_literal() {
                B::Murky // RDFterm-equal: both literals, not the same term => type error
            } else if op == CmpOp::Eq {
                B::False
            } else {
                B::True
            }
        }
        _ => B::Murky, // no operator-table entry (IRIs, blank nodes, mixed or unknown literal types)
    }
}

fn eval_expr(e: &Expr, s: &Sol, q: Q) -> B {
    match e {
        Expr::Cmp(op, a, b) => match (resolve(a, s), resolve(b, s)) {
            (Some(x), Some(y)) => cmp_terms(*op, x, y, q),
            _ => B::Error,
        },
        Expr::Bound(v) => {
            if s.contains_key(v) {
                B::True
            } else {
                B::False
            }
        }
        Expr::Not(a) => match eval_expr(a, s, q) {
            B::True => B::False,
            B::False => B::True,
            x => x,
        },
        Expr::And(a, b) => {
            let (x, y) = (eval_expr(a, s, q), eval_expr(b, s, q));
            if x == B::False || y == B::False {
                B::False
            } else if x == B::Murky || y == B::Murky {
                B::Murky
            } else if x == B::Error || y == B::Error {
                B::Error
            } else {
                B::True
            }
        }
        Expr::Or(a, b) => {
            let (x, y) = (eval_expr(a, s, q), eval_expr(b, s, q));
            if x == B::True || y == B::True {
                B::True
            } else if x == B::Murky || y == B::Murky {
                B::Murky
            } else if x == B::Error || y == B::Error {
                B::Error
            } else {
                B::False
            }
        }
    }
}

fn holds(e: &Expr, s: &Sol, q: Q) -> Result<bool, Murky> {
    match eval_expr(e, s, q) {
        B::True => Ok(true),
        B::False | B::Error => Ok(false),
        B::Murky => Err(Murky),
    }
}

fn eval_bgp(data: &BTreeSet<Tr>, bgp: &[TP], q: Q) -> Vec<Sol> {
    let mut sols: Vec<Sol> = vec![Sol::new()];
    for tp in bgp {
        let mut next = Vec::new();
        for s in &sols {
            for t in data {
                let mut m = s.clone();
                let mut okk = true;
                for (x, val) in [(&tp.s, &t.0), (&tp.p, &t.1), (&tp.o, &t.2)] {
                    match x {
                        VT::C(c) => {
                            // constants are matched by the store on full terms (also in the engine)
                            let dropped;
                            let c = if q.annotation_dropped {
                                dropped = annotation_dropped(c);
                                &dropped
                            } else {
                                c
                            };
                            if c != val {
                                okk = false;
                                break;
                            }
                        }
                        VT::V(v) => match m.get(v) {
                            Some(b) => {
                                if !same_term(b, val, q) {
                                    okk = false;
                                    break;
                                }
                            }
                            None => {
                                m.insert(*v, val.clone());
                            }
                        },
                    }
                }
                if okk {
                    next.push(m);
                }
            }
        }
        sols = next;
    }
    sols
}

fn compatible(a: &Sol, b: &Sol, q: Q) -> bool {
    a.iter().all(|(k, v)| b.get(k).is_none_or(|w| same_term(w, v, q)))
}

fn merge(a: &Sol, b: &Sol) -> Sol {
    let mut m = a.clone();
    for (k, v) in b {
        m.insert(*k, v.clone());
    }
    m
}

fn eval_group(data: &BTreeSet<Tr>, g: &Group, q: Q) -> Result<Vec<Sol>, Murky> {
    let mut sols = eval_bgp(data, &g.bgp, q);
    let mut left_cols = Vec::new();
    tp_vars(&g.bgp, &mut left_cols);
    for o in &g.optionals {
        let right = eval_bgp(data, &o.bgp, q);
        let mut right_vars = Vec::new();
        tp_vars(&o.bgp, &mut right_vars);
        let shared: Vec<Var> = right_vars.iter().copied().filter(|v| left_cols.contains(v)).collect();
        tp_vars(&o.bgp, &mut left_cols);
        let mut next = Vec::new();
        for l in &sols {
            let mut any = false;
            for r in &right {
                if q.unbound_incompatible && shared.iter().any(|v| !l.contains_key(v)) {
                    continue;
                }
                if compatible(l, r, q) {
                    let m = merge(l, r);
                    let keep = match &o.filter {
                        Some(f) => holds(f, &m, q)?,
                        None => true,
                    };
                    if keep {
                        any = true;
                        next.push(m);
                    }
                }
            }
            if !any {
                next.push(l.clone());
            }
        }
        sols = next;
    }
    if let Some(f) = &g.filter {
        let mut next = Vec::new();
        for s in sols {
            if holds(f, &s, q)? {
                next.push(s);
            }
        }
        sols = next;
    }
    Ok(sols)
}

/// One deliberately changed rule of the reference, used only to *name* a failure: a mismatch is attributed
/// to a known defect when the engine's answer equals the reference evaluated with exactly that rule changed.
#[derive(Debug, Clone, Copy, Default, PartialEq, Eq)]
pub struct Q {
    /// UNION output takes the column list of the first branch; rows of later branches are placed
    /// positionally (their i-th variable lands under the first branch's i-th variable)
    pub union_positional: bool,
    /// two terms are "the same" when their lexical forms are equal (bindings are lexical Strings in the
    /// engine): joins, OPTIONAL compatibility, = / != outside the numeric/string cases, DISTINCT, GROUP BY
    pub lexical_identity: bool,
    /// OPTIONAL: a variable that both sides list must be bound on the left and equal (an unbound left value is
    /// treated as incompatible instead of compatible)
    pub unbound_incompatible: bool,
    /// literal constants in triple patterns lose their language tag / non-numeric datatype (as in updates)
    pub annotation_dropped: bool,
}

fn same_term(a: &T, b: &T, q: Q) -> bool {
    if q.lexical_identity { a.lex() == b.lex() } else { a == b }
}

pub fn eval_pattern(data: &BTreeSet<Tr>, p: &Pattern, q: Q) -> Result<Vec<Sol>, Murky> {
    match p {
        Pattern::Group(g) => eval_group(data, g, q),
        Pattern::Union(gs) => {
            let mut all = Vec::new();
            let first = group_vars(&gs[0]);
            for g in gs {
                let sols = eval_group(data, g, q)?;
                if q.union_positional {
                    let mine = group_vars(g);
                    for s in sols {
                        let mut m = Sol::new();
                        for (i, v) in mine.iter().enumerate() {
                            if let (Some(t), Some(target)) = (s.get(v), first.get(i)) {
                                m.insert(*target, t.clone());
                            }
                        }
                        all.push(m);
                    }
                } else {
                    all.extend(sols);
                }
            }
            Ok(all)
        }
    }
}

fn tp_vars(b: &[TP], out: &mut Vec<Var>) {
    for t in b {
        for x in [&t.s, &t.p, &t.o] {
            if let VT::V(v) = x
                && !out.contains(v)
            {
                out.push(*v);
            }
        }
    }
}

pub fn group_vars(g: &Group) -> Vec<Var> {
    let mut v = Vec::new();
    tp_vars(&g.bgp, &mut v);
    for o in &g.optionals {
        tp_vars(&o.bgp, &mut v);
    }
    v
}

pub fn pattern_vars(p: &Pattern) -> Vec<Var> {
    pattern_vars_q(p, Q::default())
}

pub fn pattern_vars_q(p: &Pattern, q: Q) -> Vec<Var> {
    match p {
        Pattern::Group(g) => group_vars(g),
        Pattern::Union(gs) if q.union_positional => group_vars(&gs[0]),
        Pattern::Union(gs) => {
            let mut v = Vec::new();
            for g in gs {
                for x in group_vars(g) {
                    if !v.contains(&x) {
                        v.push(x);
                    }
                }
            }
            v
        }
    }
}

/// UNION whose branches do not list the same variables in the same first-occurrence order.
pub fn union_branches_differ(p: &Pattern) -> bool {
    match p {
        Pattern::Group(_) => false,
        Pattern::Union(gs) => gs.iter().any(|g| group_vars(g) != group_vars(&gs[0])),
    }
}

/// Variables every solution of the pattern binds (required patterns of every branch).
fn certain_vars(p: &Pattern) -> Vec<Var> {
    let req = |g: &Group| {
        let mut v = Vec::new();
        tp_vars(&g.bgp, &mut v);
        v
    };
    match p {
        Pattern::Group(g) => req(g),
        Pattern::Union(gs) => {
            let mut v = req(&gs[0]);
            for g in &gs[1..] {
                let r = req(g);
                v.retain(|x| r.contains(x));
            }
            v
        }
    }
}

// -------------------------------------------------------------------------------------------------
// ORDER BY: only what the specification fixes
// -------------------------------------------------------------------------------------------------

/// `Some(ordering)` when SPARQL 15.1 fixes the relative order of the two keys, `None` otherwise.
fn definite_cmp(a: Option<&T>, b: Option<&T>) -> Option<std::cmp::Ordering> {
    use std::cmp::Ordering::*;
    fn rank(t: Option<&T>) -> u8 {
        match t {
            None => 0,
            Some(T::Blank(_)) => 1,
            Some(T::Iri(_)) => 2,
            Some(_) => 3,
        }
    }
    let (ra, rb) = (rank(a), rank(b));
    if ra != rb {
        return Some(ra.cmp(&rb));
    }
    match (a, b) {
        (None, None) => Some(Equal),
        (Some(x), Some(y)) if x == y => Some(Equal),
        (Some(T::Iri(x)), Some(T::Iri(y))) => Some(x.cmp(y)),
        (Some(T::Plain(x)), Some(T::Plain(y))) => Some(x.cmp(y)),
        (Some(x), Some(y)) => match (x.as_int(), y.as_int()) {
            (Some(i), Some(j)) => Some(i.cmp(&j)),
            _ => None,
        },
        _ => None,
    }
}

fn key_cmp(order: &[(Var, bool)], a: &Sol, b: &Sol) -> Option<std::cmp::Ordering> {
    for (v, desc) in order {
        match definite_cmp(a.get(v), b.get(v))? {
            std::cmp::Ordering::Equal => continue,
            o => return Some(if *desc { o.reverse() } else { o }),
        }
    }
    Some(std::cmp::Ordering::Equal)
}

// -------------------------------------------------------------------------------------------------
// Result comparison
// -------------------------------------------------------------------------------------------------

/// A row as the engine exposes it: per column the lexical form, `None` = unbound / NULL.
type LexRow = Vec<Option<String>>;

fn lex_row(s: &Sol, cols: &[Var]) -> LexRow {
    cols.iter().map(|v| s.get(v).map(T::lex)).collect()
}

fn value_lex(v: &Value) -> Option<String> {
    match v {
        Value::Null => None,
        Value::String(s) => Some(s.to_string()),
        Value::Int64(i) => Some(i.to_string()),
        Value::Float64(f) => Some(f.to_string()),
        Value::Bool(b) => Some(b.to_string()),
        other => Some(format!("{other:?}")),
    }
}

fn multiset(rows: &[LexRow]) -> BTreeMap<LexRow, usize> {
    let mut m = BTreeMap::new();
    for r in rows {
        *m.entry(r.clone()).or_insert(0) += 1;
    }
    m
}

fn sub_multiset(small: &[LexRow], big: &[LexRow]) -> bool {
    let b = multiset(big);
    multiset(small).iter().all(|(k, n)| b.get(k).copied().unwrap_or(0) >= *n)
}

fn show_rows(rows: &[LexRow]) -> String {
    let mut v: Vec<String> = rows
        .iter()
        .map(|r| format!("[{}]", r.iter().map(|c| c.clone().unwrap_or_else(|| "-".into())).collect::<Vec<_>>().join(" | ")))
        .collect();
    v.sort();
    crate::driver::truncate(&v.join(" "), 900)
}

fn err_class(e: &str) -> String {
    let e = e.to_lowercase();
    let k = if e.contains("blank") || e.contains("variable '_:") {
        "blank-node"
    } else if e.contains("unsupported") {
        "unsupported"
    } else if e.contains("not found") {
        "variable-not-found"
    } else if e.contains("parse") || e.contains("expected") || e.contains("syntax") {
        "parse"
    } else {
        "other"
    };
    format!("err:{k}")
}

fn load(db: &GrafeoDB, data: &[Tr]) -> Result<BTreeSet<Tr>, Failure> {
    let store = db.rdf_store();
    for t in data {
        guard("insert", || store.insert(to_triple(t)))?;
    }
    Ok(data.iter().cloned().collect())
}

fn exec(db: &GrafeoDB, via_session: bool, q: &str) -> Result<Result<grafeo_engine::database::QueryResult, String>, Failure> {
    guard("execute_sparql", || {
        if via_session {
            let s = db.session();
            s.execute_sparql(q).map_err(|e| e.to_string())
        } else {
            db.execute_sparql(q).map_err(|e| e.to_string())
        }
    })
}

/// Engine rows re-ordered to the expected column list; Err(text) when the column sets differ.
fn engine_rows(res: &grafeo_engine::database::QueryResult, cols: &[String], ordered: bool, ragged_ok: bool) -> Result<Vec<LexRow>, String> {
    if ordered {
        if res.columns != cols {
            return Err(format!("columns {:?}, the query projects {:?}", res.columns, cols));
        }
    } else {
        let mut a = res.columns.clone();
        a.sort();
        let mut b = cols.to_vec();
        b.sort();
        if a != b {
            return Err(format!("columns {:?}, the in-scope variables are {:?}", res.columns, cols));
        }
    }
    let idx: Vec<usize> = cols.iter().map(|c| res.columns.iter().position(|x| x == c).unwrap()).collect();
    let mut out = Vec::with_capacity(res.rows.len());
    for r in &res.rows {
        if r.len() != res.columns.len() && !ragged_ok {
            return Err(format!("a row has {} values for {} columns", r.len(), res.columns.len()));
        }
        // (ragged_ok: rows of a later UNION branch keep their own width; pad / truncate to the column list)
        out.push(idx.iter().map(|i| r.get(*i).and_then(value_lex)).collect());
    }
    Ok(out)
}

/// The order the pinned engine produces: keys compared as plain Strings, unbound greater than everything.
fn lexical_key_cmp(a: &LexRow, b: &LexRow, key_idx: &[(usize, bool)]) -> std::cmp::Ordering {
    use std::cmp::Ordering::*;
    for (i, desc) in key_idx {
        let o = match (&a[*i], &b[*i]) {
            (None, None) => Equal,
            (None, Some(_)) => Greater,
            (Some(_), None) => Less,
            (Some(x), Some(y)) => x.cmp(y),
        };
        let o = if *desc { o.reverse() } else { o };
        if o != Equal {
            return o;
        }
    }
    Equal
}

fn lexically_sorted(rows: &[LexRow], key_idx: &[(usize, bool)]) -> bool {
    rows.windows(2).all(|w| lexical_key_cmp(&w[0], &w[1], key_idx) != std::cmp::Ordering::Greater)
}

/// Two different terms with the same lexical form occur in the data or among the query's constants.
#[allow(dead_code)]
fn has_lexical_collision(case: &SparqlCase) -> bool {
    let mut terms: BTreeSet<T> = case.data.iter().flat_map(|t| [t.0.clone(), t.1.clone(), t.2.clone()]).collect();
    fn expr_consts(e: &Expr, out: &mut BTreeSet<T>) {
        match e {
            Expr::Cmp(_, a, b) => {
                for x in [a, b] {
                    if let VT::C(t) = x {
                        out.insert(t.clone());
                    }
                }
            }
            Expr::And(a, b) | Expr::Or(a, b) => {
                expr_consts(a, out);
                expr_consts(b, out);
            }
            Expr::Not(a) => expr_consts(a, out),
            Expr::Bound(_) => {}
        }
    }
    let pattern = match &case.query {
        Query::Select { pattern, .. } | Query::Count { pattern, .. } => pattern,
    };
    let gs: Vec<&Group> = match pattern {
        Pattern::Group(g) => vec![g],
        Pattern::Union(gs) => gs.iter().collect(),
    };
    for g in gs {
        if let Some(f) = &g.filter {
            expr_consts(f, &mut terms);
        }
        for o in &g.optionals {
            if let Some(f) = &o.filter {
                expr_consts(f, &mut terms);
            }
        }
    }
    let lexs: BTreeSet<String> = terms.iter().map(T::lex).collect();
    lexs.len() < terms.len()
}

fn shares_variable(p: &Pattern) -> bool {
    let g_shares = |g: &Group| {
        let mut all: Vec<&TP> = g.bgp.iter().collect();
        for o in &g.optionals {
            all.extend(o.bgp.iter());
        }
        for i in 0..all.len() {
            for j in i + 1..all.len() {
                let mut a = Vec::new();
                tp_vars(std::slice::from_ref(all[i]), &mut a);
                let mut b = Vec::new();
                tp_vars(std::slice::from_ref(all[j]), &mut b);
                if a.iter().any(|x| b.contains(x)) {
                    return true;
                }
            }
        }
        false
    };
    match p {
        Pattern::Group(g) => g_shares(g),
        Pattern::Union(gs) => gs.iter().any(g_shares),
    }
}

fn pattern_class(p: &Pattern) -> String {
    let (u, gs): (bool, Vec<&Group>) = match p {
        Pattern::Group(g) => (false, vec![g]),
        Pattern::Union(gs) => (true, gs.iter().collect()),
    };
    let mut s = String::from(if shares_variable(p) { "join" } else { "single" });
    if u {
        s.push_str("+union");
    }
    if gs.iter().any(|g| !g.optionals.is_empty()) {
        s.push_str("+opt");
    }
    if gs.iter().any(|g| g.filter.is_some() || g.optionals.iter().any(|o| o.filter.is_some())) {
        s.push_str("+filter");
    }
    s
}

pub fn check_query(case: &SparqlCase) -> CaseResult {
    let db = guard("new_in_memory", GrafeoDB::new_in_memory)?;
    let data = load(&db, &case.data)?;
    let text = render(&case.query);
    let key = hash_of(case);
    let res = match exec(&db, case.via_session, &text)? {
        Ok(r) => r,
        Err(e) => {
            if std::env::var_os("C13_SHOW_ERR").is_some() {
                eprintln!("ERR {e} <= {text}");
            }
            return ok(false, err_class(&e), key);
        }
    };
    // the store must not change under a read
    if db.rdf_store().len() != data.len() {
        return fail("c13/sparql/select-changed-store", format!("{text}: store has {} triples after the query, {} before", db.rdf_store().len(), data.len()));
    }
    let strict = judge(case, &data, &res, &text, key, Q::default());
    if let Err(f) = &strict {
        let pattern = match &case.query {
            Query::Select { pattern, .. } | Query::Count { pattern, .. } => pattern,
        };
        // Attribute the failure to known defects only if the engine's answer is exactly what they predict: the
        // reference is re-evaluated with the corresponding rule(s) changed, smallest explanation first.
        let has_opt = match pattern {
            Pattern::Group(g) => !g.optionals.is_empty(),
            Pattern::Union(gs) => gs.iter().any(|g| !g.optionals.is_empty()),
        };
        let mut quirks: Vec<(&str, fn(&mut Q))> = Vec::new();
        let has_annotated_const = {
            let gs: Vec<&Group> = match pattern {
                Pattern::Group(g) => vec![g],
                Pattern::Union(gs) => gs.iter().collect(),
            };
            gs.iter().any(|g| {
                g.bgp.iter().chain(g.optionals.iter().flat_map(|o| o.bgp.iter())).any(|t| matches!(&t.o, VT::C(c) if annotation_dropped(c) != *c))
            })
        };
        if has_annotated_const {
            quirks.push(("literal-language-or-datatype-dropped", |q| q.annotation_dropped = true));
        }
        quirks.push(("terms-with-equal-lexical-form-conflated", |q| q.lexical_identity = true));
        if has_opt {
            quirks.push(("unbound-shared-variable-incompatible", |q| q.unbound_incompatible = true));
        }
        if union_branches_differ(pattern) {
            quirks.push(("union-branches-bind-different-variables", |q| q.union_positional = true));
        }
        let mut masks: Vec<u32> = (1..(1u32 << quirks.len())).collect();
        masks.sort_by_key(|m| m.count_ones());
        let order_sig = "c13/sparql/order-by-compares-lexical-forms";
        if f.signature != order_sig {
            for m in masks {
                let mut q = Q::default();
                let mut names = Vec::new();
                for (i, (name, set)) in quirks.iter().enumerate() {
                    if m & (1 << i) != 0 {
                        set(&mut q);
                        names.push(*name);
                    }
                }
                match judge(case, &data, &res, &text, key, q) {
                    Ok(_) => return fail(format!("c13/sparql/{}", names.join("+")), f.what.clone()),
                    Err(e) if e.signature == order_sig => {
                        return fail(format!("c13/sparql/{}+order-by-compares-lexical-forms", names.join("+")), f.what.clone());
                    }
                    Err(_) => {}
                }
            }
        }
    }
    strict
}

fn judge(case: &SparqlCase, data: &BTreeSet<Tr>, res: &grafeo_engine::database::QueryResult, text: &str, key: u64, q: Q) -> CaseResult {
    match &case.query {
        Query::Select { distinct, proj, pattern, order, limit, offset } => {
            let Ok(sols) = eval_pattern(data, pattern, q) else { return ok(false, "murky-filter", key) };
            let in_scope = pattern_vars_q(pattern, q);
            let (cols, ordered): (Vec<Var>, bool) = match proj {
                Proj::Star => (in_scope.clone(), false),
                Proj::Vars(vs) => (vs.clone(), true),
            };
            let col_names: Vec<String> = cols.iter().map(|v| format!("v{v}")).collect();
            let got = match engine_rows(res, &col_names, ordered, q.union_positional) {
                Ok(g) => g,
                Err(e) => return fail("c13/sparql/columns", format!("{text}: {e}")),
            };
            // full (unsliced) expected answer: project, then DISTINCT on terms
            let mut full: Vec<Sol> = sols.iter().map(|s| s.iter().filter(|(k, _)| cols.contains(k)).map(|(k, v)| (*k, v.clone())).collect()).collect();
            // ORDER BY is evaluated before projection: keep the unprojected solutions alongside
            let mut pairs: Vec<(Sol, Sol)> = sols.iter().cloned().zip(full.drain(..)).collect();
            if *distinct {
                let mut seen = BTreeSet::new();
                let mut seen_lex = BTreeSet::new();
                pairs.retain(|(_, p)| if q.lexical_identity { seen_lex.insert(lex_row(p, &cols)) } else { seen.insert(p.clone()) });
            }
            let full_rows: Vec<LexRow> = pairs.iter().map(|(_, p)| lex_row(p, &cols)).collect();
            let off = offset.map_or(0, usize::from);
            let want_n = {
                let rest = full_rows.len().saturating_sub(off);
                limit.map_or(rest, |l| rest.min(usize::from(l)))
            };
            let sliced = limit.is_some() || offset.is_some();
            let detail = |what: &str| {
                format!(
                    "{text} over {{ {} }}: {what}; engine {} rows {}; reference {} rows (before LIMIT/OFFSET) {}",
                    data.iter().map(show_tr).collect::<Vec<_>>().join(" . "),
                    got.len(),
                    show_rows(&got),
                    full_rows.len(),
                    show_rows(&full_rows)
                )
            };
            if !sliced {
                if multiset(&got) != multiset(&full_rows) {
                    // name the failure as narrowly as the wrong answer allows
                    if *distinct {
                        let undistinct: Vec<LexRow> = sols.iter().map(|s| lex_row(s, &cols)).collect();
                        if multiset(&got) == multiset(&undistinct) {
                            return fail("c13/sparql/distinct-ignored", detail("DISTINCT had no effect"));
                        }
                    }
                    return fail("c13/sparql/rows-mismatch", detail("solution multisets differ"));
                }
            } else {
                if got.len() != want_n {
                    return fail("c13/sparql/slice-count", detail(&format!("expected {want_n} rows after LIMIT/OFFSET")));
                }
                if !sub_multiset(&got, &full_rows) {
                    return fail("c13/sparql/slice-rows", detail("rows are not a sub-multiset of the unsliced answer"));
                }
            }
            if !order.is_empty() {
                // DISTINCT + ORDER BY on a projected-away variable has no fixed order: only judge keys that survive projection
                let judge = !*distinct || order.iter().all(|(v, _)| cols.contains(v));
                if judge && order.iter().all(|(v, _)| cols.contains(v)) {
                    // engine rows carry the keys: adjacent rows must not be in a definitely wrong order
                    let key_idx: Vec<(usize, bool)> = order.iter().map(|(v, d)| (cols.iter().position(|c| c == v).unwrap(), *d)).collect();
                    // map lexical keys back to terms through the expected solutions (lexical forms may collide: then skip)
                    let mut lex_to_term: BTreeMap<(usize, Option<String>), BTreeSet<Option<T>>> = BTreeMap::new();
                    for (_, p) in &pairs {
                        for (i, _) in &key_idx {
                            let t = p.get(&cols[*i]).cloned();
                            lex_to_term.entry((*i, t.as_ref().map(T::lex))).or_default().insert(t);
                        }
                    }
                    let term_of = |i: usize, l: &Option<String>| -> Option<Option<T>> {
                        let s = lex_to_term.get(&(i, l.clone()))?;
                        if s.len() == 1 { s.iter().next().cloned() } else { None }
                    };
                    for w in got.windows(2) {
                        let mut verdict = Some(std::cmp::Ordering::Equal);
                        for (i, desc) in &key_idx {
                            let (Some(a), Some(b)) = (term_of(*i, &w[0][*i]), term_of(*i, &w[1][*i])) else {
                                verdict = None;
                                break;
                            };
                            match definite_cmp(a.as_ref(), b.as_ref()) {
                                None => {
                                    verdict = None;
                                    break;
                                }
                                Some(std::cmp::Ordering::Equal) => continue,
                                Some(o) => {
                                    verdict = Some(if *desc { o.reverse() } else { o });
                                    break;
                                }
                            }
                        }
                        if verdict == Some(std::cmp::Ordering::Greater) {
                            let sig = if lexically_sorted(&got, &key_idx) { "c13/sparql/order-by-compares-lexical-forms" } else { "c13/sparql/order-wrong" };
                            return fail(sig, detail(&format!("rows {:?} then {:?} violate ORDER BY", w[0], w[1])));
                        }
                    }
                    // with a slice and a total order on the keys, the key sequence itself is fixed
                    if sliced {
                        let mut sorted: Vec<&(Sol, Sol)> = pairs.iter().collect();
                        let total = sorted.iter().all(|a| sorted.iter().all(|b| key_cmp(order, &a.0, &b.0).is_some()));
                        if total {
                            sorted.sort_by(|a, b| key_cmp(order, &a.0, &b.0).unwrap());
                            let want_keys: Vec<LexRow> =
                                sorted.iter().skip(off).take(want_n).map(|(_, p)| key_idx.iter().map(|(i, _)| p.get(&cols[*i]).map(T::lex)).collect()).collect();
                            let got_keys: Vec<LexRow> = got.iter().map(|r| key_idx.iter().map(|(i, _)| r[*i].clone()).collect()).collect();
                            if want_keys != got_keys {
                                // the pinned engine sorts the lexical Strings (unbound last): if the slice is what that order yields, name it
                                let mut lexs: Vec<LexRow> = pairs.iter().map(|(_, p)| lex_row(p, &cols)).collect();
                                lexs.sort_by(|a, b| lexical_key_cmp(a, b, &key_idx));
                                let alt: Vec<LexRow> = lexs.iter().skip(off).take(want_n).map(|r| key_idx.iter().map(|(i, _)| r[*i].clone()).collect()).collect();
                                let sig = if alt == got_keys { "c13/sparql/order-by-compares-lexical-forms" } else { "c13/sparql/slice-order" };
                                return fail(sig, detail(&format!("ORDER BY keys of the slice are {got_keys:?}, expected {want_keys:?}")));
                            }
                        }
                    }
                }
            }
            let nontrivial = shares_variable(pattern) && !full_rows.is_empty();
            // class: pattern shape, then at most one solution modifier label (the most specific present)
            let mut class = format!("select:{}", pattern_class(pattern));
            if *distinct {
                class.push_str("+distinct");
            } else if !order.is_empty() && sliced {
                class.push_str("+order+slice");
            } else if !order.is_empty() {
                class.push_str("+order");
            } else if sliced {
                class.push_str("+slice");
            }
            if full_rows.is_empty() {
                class.push_str("/empty");
            }
            ok(nontrivial, class, key)
        }
        Query::Count { pattern, group_by, arg, distinct } => {
            let Ok(sols) = eval_pattern(data, pattern, q) else { return ok(false, "murky-filter", key) };
            let count_of = |group: &[&Sol]| -> usize {
                match arg {
                    None => {
                        if *distinct {
                            group.iter().map(|s| (*s).clone()).collect::<BTreeSet<Sol>>().len()
                        } else {
                            group.len()
                        }
                    }
                    Some(v) => {
                        let vals: Vec<&T> = group.iter().filter_map(|s| s.get(v)).collect();
                        if *distinct && q.lexical_identity {
                            vals.into_iter().map(T::lex).collect::<BTreeSet<_>>().len()
                        } else if *distinct {
                            vals.into_iter().collect::<BTreeSet<_>>().len()
                        } else {
                            vals.len()
                        }
                    }
                }
            };
            let (col_names, want): (Vec<String>, Vec<LexRow>) = match group_by {
                None => {
                    let all: Vec<&Sol> = sols.iter().collect();
                    (vec!["c".to_string()], vec![vec![Some(count_of(&all).to_string())]])
                }
                Some(g) => {
                    // group key: the term (strict) or its lexical form (lexical-identity reading)
                    let mut groups: BTreeMap<(Option<String>, Option<T>), Vec<&Sol>> = BTreeMap::new();
                    for s in &sols {
                        let t = s.get(g).cloned();
                        let k = (t.as_ref().map(T::lex), if q.lexical_identity { None } else { t });
                        groups.entry(k).or_default().push(s);
                    }
                    (
                        vec![format!("v{g}"), "c".to_string()],
                        groups.iter().map(|(k, grp)| vec![k.0.clone(), Some(count_of(grp).to_string())]).collect(),
                    )
                }
            };
            let got = match engine_rows(res, &col_names, true, q.union_positional) {
                Ok(g) => g,
                Err(e) => return fail("c13/sparql/count-columns", format!("{text}: {e}")),
            };
            if multiset(&got) != multiset(&want) {
                let sig = if sols.is_empty() && group_by.is_none() && got.is_empty() {
                    "c13/sparql/count-empty-no-row"
                } else {
                    "c13/sparql/count-mismatch"
                };
                return fail(
                    sig,
                    format!(
                        "{text} over {{ {} }}: engine {} reference {}",
                        data.iter().map(show_tr).collect::<Vec<_>>().join(" . "),
                        show_rows(&got),
                        show_rows(&want)
                    ),
                );
            }
            let nontrivial = shares_variable(pattern) && !sols.is_empty();
            let class = format!(
                "count{}{}:{}{}",
                if group_by.is_some() { "+group" } else { "" },
                if *distinct { "+distinct" } else { "" },
                pattern_class(pattern),
                if sols.is_empty() { "/empty" } else { "" }
            );
            ok(nontrivial, class, key)
        }
    }
}

// -------------------------------------------------------------------------------------------------
// Updates
// -------------------------------------------------------------------------------------------------

/// What the pinned translator does to a literal in INSERT DATA / DELETE DATA: the language tag and any
/// datatype other than integer / double / boolean are dropped (`TripleComponent::Literal(Value)`).
fn annotation_dropped(t: &T) -> T {
    match t {
        T::Lang(v, _) => T::Plain(v.clone()),
        T::Typed(v, d) if d != XSD_INTEGER && d != XSD_BOOLEAN => T::Plain(v.clone()),
        x => x.clone(),
    }
}

pub fn check_update(case: &UpdateCase) -> CaseResult {
    let db = guard("new_in_memory", GrafeoDB::new_in_memory)?;
    let mut model = load(&db, &case.data)?;
    let mut lossy = model.clone(); // the model under the "annotations dropped" reading, to name that failure
    let key = hash_of(case);
    let mut changed = false;
    let mut has_annot = false;
    for (i, u) in case.updates.iter().enumerate() {
        let text = render_update(u);
        if let Update::Modify { p, .. } = u {
            // variable bindings travel through the engine as lexical strings (known findings: language tag / datatype
            // dropped, numeric-looking plain strings read as numbers): templates are only judged when every matched
            // object survives that trip unchanged (IRIs, purely alphabetic plain strings)
            let pp = q_pred(*p);
            let risky = model
                .iter()
                .filter(|t| t.1 == pp)
                .any(|t| !(matches!(&t.2, T::Iri(_)) || matches!(&t.2, T::Plain(x) if !x.is_empty() && x.chars().all(|c| c.is_ascii_alphabetic()))) || !matches!(&t.0, T::Iri(_)));
            if risky {
                continue;
            }
        }
        match exec(&db, case.via_session, &text)? {
            Ok(_) => {}
            Err(e) => return ok(false, err_class(&e), key),
        }
        let before = model.clone();
        match u {
            Update::InsertData(ts) => {
                for t in ts {
                    model.insert(t.clone());
                    lossy.insert((t.0.clone(), t.1.clone(), annotation_dropped(&t.2)));
                    has_annot |= annotation_dropped(&t.2) != t.2;
                }
            }
            Update::DeleteData(ts) => {
                for t in ts {
                    model.remove(t);
                    lossy.remove(&(t.0.clone(), t.1.clone(), annotation_dropped(&t.2)));
                    has_annot |= annotation_dropped(&t.2) != t.2;
                }
            }
            Update::Modify { p, p2, shape } => {
                // SPARQL 1.1 Update 3.1.3: the WHERE clause is evaluated once; all deletions (instantiated for every
                // solution) happen before all insertions; an instantiation that is not a legal triple is skipped
                let (pp, pp2) = (q_pred(*p), q_pred(*p2));
                let sols: Vec<Tr> = model.iter().filter(|t| t.1 == pp).cloned().collect();
                let (mut dels, mut ins): (Vec<Tr>, Vec<Tr>) = (Vec::new(), Vec::new());
                for (s0, _, o0) in &sols {
                    match shape % 4 {
                        0 => {
                            dels.push((s0.clone(), pp.clone(), o0.clone()));
                            if !o0.is_literal() {
                                ins.push((o0.clone(), pp.clone(), s0.clone()));
                            }
                        }
                        1 => {
                            dels.push((s0.clone(), pp.clone(), o0.clone()));
                            ins.push((s0.clone(), pp2.clone(), o0.clone()));
                        }
                        2 => dels.push((s0.clone(), pp.clone(), o0.clone())),
                        _ => ins.push((s0.clone(), pp2.clone(), o0.clone())),
                    }
                }
                for t in &dels {
                    model.remove(t);
                    lossy.remove(&(t.0.clone(), t.1.clone(), annotation_dropped(&t.2)));
                }
                for t in ins {
                    lossy.insert((t.0.clone(), t.1.clone(), annotation_dropped(&t.2)));
                    model.insert(t);
                }
            }
        }
        changed |= before != model;
        // the store itself, on full terms
        let mut got: Vec<Tr> = guard("triples", || db.rdf_store().triples())?.iter().map(|t| from_triple(t)).collect();
        got.sort();
        let want: Vec<Tr> = model.iter().cloned().collect();
        if got != want {
            let sig = if has_annot && got == lossy.iter().cloned().collect::<Vec<_>>() {
                "c13/update/literal-language-or-datatype-dropped"
            } else {
                "c13/update/store-mismatch"
            };
            return fail(
                sig,
                format!(
                    "after update {i} `{text}` on {{ {} }}: store holds {:?}, expected {:?}",
                    case.data.iter().map(show_tr).collect::<Vec<_>>().join(" . "),
                    got.iter().map(show_tr).collect::<Vec<_>>(),
                    want.iter().map(show_tr).collect::<Vec<_>>()
                ),
            );
        }
        // and what a SELECT sees afterwards
        let q = "SELECT ?s ?p ?o WHERE { ?s ?p ?o }";
        match exec(&db, case.via_session, q)? {
            Err(e) => return fail("c13/update/select-err", format!("{q} after `{text}`: {e}")),
            Ok(res) => {
                let got = match engine_rows(&res, &["s".to_string(), "p".to_string(), "o".to_string()], true, false) {
                    Ok(g) => g,
                    Err(e) => return fail("c13/update/select-columns", format!("{q}: {e}")),
                };
                let want: Vec<LexRow> = model.iter().map(|t| vec![Some(t.0.lex()), Some(t.1.lex()), Some(t.2.lex())]).collect();
                if multiset(&got) != multiset(&want) {
                    return fail("c13/update/select-mismatch", format!("{q} after `{text}`: engine {} expected {}", show_rows(&got), show_rows(&want)));
                }
            }
        }
        // the same through the other access paths: every predicate bound (predicate index), and for each triple the
        // statement names, subject + object bound (subject index + re-filter)
        let mut probes: Vec<(String, Vec<String>, Vec<LexRow>)> = Vec::new();
        for pi in 0u8..3 {
            let p = q_pred(pi);
            probes.push((
                format!("SELECT ?s ?o WHERE {{ ?s {} ?o }}", p.sparql()),
                vec!["s".into(), "o".into()],
                model.iter().filter(|t| t.1 == p).map(|t| vec![Some(t.0.lex()), Some(t.2.lex())]).collect(),
            ));
        }
        let no_triples: Vec<Tr> = Vec::new();
        let ts = match u {
            Update::InsertData(ts) | Update::DeleteData(ts) => ts,
            Update::Modify { .. } => &no_triples,
        };
        for t in ts {
            // constants with a language tag / other datatype and blank nodes cannot be written faithfully in a pattern here
            if annotation_dropped(&t.2) != t.2 || matches!(t.0, T::Blank(_)) || matches!(t.2, T::Blank(_)) {
                continue;
            }
            probes.push((
                format!("SELECT ?p WHERE {{ {} ?p {} }}", t.0.sparql(), t.2.sparql()),
                vec!["p".into()],
                model.iter().filter(|m| m.0 == t.0 && m.2 == t.2).map(|m| vec![Some(m.1.lex())]).collect(),
            ));
        }
        for (q, cols, want) in probes {
            match exec(&db, case.via_session, &q)? {
                Err(e) => return fail("c13/update/select-err", format!("{q} after `{text}`: {e}")),
                Ok(res) => {
                    let got = match engine_rows(&res, &cols, true, false) {
                        Ok(g) => g,
                        Err(e) => return fail("c13/update/select-columns", format!("{q}: {e}")),
                    };
                    if multiset(&got) != multiset(&want) {
                        return fail("c13/update/bound-pattern-mismatch", format!("{q} after `{text}`: engine {} expected {}", show_rows(&got), show_rows(&want)));
                    }
                }
            }
        }
    }
    let class = format!("updates-{}{}", case.updates.len().min(3), if has_annot { "+annotated-literal" } else { "" });
    ok(changed, class, key)
}

// -------------------------------------------------------------------------------------------------
// Generators
// -------------------------------------------------------------------------------------------------

const STRS: [&str; 5] = ["ann", "bob", "cy", "10", "9"];
const INTS: [i64; 6] = [1, 2, 3, 9, 10, 12];

fn q_subject(i: u8, blanks: bool) -> T {
    match i {
        5 if blanks => T::Blank("b0".into()),
        6 if blanks => T::Blank("b1".into()),
        _ => T::Iri(format!("http://e/s{}", i % 4)),
    }
}

fn q_pred(i: u8) -> T {
    T::Iri(format!("http://e/p{}", i % 3))
}

/// Object for predicate `p`: p0 -> resources, p1 -> plain strings, p2 -> integers ("typed columns");
/// `noise` picks from the colliding pool instead.
fn q_object(p: u8, i: u8, blanks: bool, noise: bool) -> T {
    if noise {
        let pool = [
            T::lang("ann", "en"),
            T::plain("1"),
            T::plain("http://e/s1"),
            T::typed("2020-01-01", XSD_DATE),
            T::int(2),
            T::plain("bob"),
            T::iri("http://e/s2"),
            T::lang("hola", "es"),
        ];
        return pool[i as usize % pool.len()].clone();
    }
    match p % 3 {
        0 => q_subject(i % 7, blanks),
        1 => T::plain(STRS[i as usize % STRS.len()]),
        _ => T::int(INTS[i as usize % INTS.len()]),
    }
}

/// Data: `blanks` allows blank nodes, `noisy` lets ~25% of the objects break the typed-column discipline.
fn data_strategy(max: usize) -> impl Strategy<Value = Vec<Tr>> {
    (any::<bool>(), prop_oneof![3 => Just(false), 1 => Just(true)]).prop_flat_map(move |(blanks, noisy)| {
        let n = prop_oneof![1 => 0usize..3, 5 => 3usize..=max];
        n.prop_flat_map(|n| proptest::collection::vec((0u8..7, 0u8..3, 0u8..8, 0u8..4), n)).prop_map(move |v| {
            v.into_iter()
                .map(|(s, p, o, n)| (q_subject(s, blanks), q_pred(p), q_object(p, o, blanks, noisy && n == 0)))
                .collect()
        })
    })
}

/// One triple pattern. Variables inside one pattern are distinct by construction (subject from ?v0..?v3, object
/// a different one of ?v0..?v3, predicate variable ?v4 or a third one); `repeat` (rare, see `query_strategy`)
/// deliberately re-uses the subject variable in the object position.
fn tp_strategy() -> impl Strategy<Value = TP> {
    (0u8..4, 0u8..3, 0u8..20, 0u8..14, 0u8..8, 0u8..20, 0u8..8).prop_map(|(sv, ok, skind, pkind, pi, okind, oi)| {
        let s = if skind < 16 { VT::V(sv) } else { VT::C(q_subject(oi % 4, false)) };
        let ov = (sv + 1 + ok) % 4; // != sv
        let p = if pkind < 12 {
            VT::C(q_pred(pi))
        } else if pkind == 12 {
            VT::V(4)
        } else {
            // a variable shared with other patterns, distinct from this pattern's subject and object variables
            VT::V((0u8..4).find(|v| *v != sv && *v != ov).unwrap())
        };
        let o = match (okind, &p) {
            (0..=11, _) => VT::V(ov),
            (12..=17, VT::C(T::Iri(pn))) => {
                let pn = pn.as_bytes()[pn.len() - 1] - b'0';
                VT::C(q_object(pn, oi, false, false))
            }
            (18, _) => VT::C(q_object(0, oi, false, true)),
            _ => VT::C(q_object(oi % 3, oi, false, false)),
        };
        TP { s, p, o }
    })
}

fn const_operand() -> impl Strategy<Value = VT> {
    prop_oneof![
        4 => (0usize..INTS.len()).prop_map(|i| VT::C(T::int(INTS[i]))),
        3 => (0usize..STRS.len()).prop_map(|i| VT::C(T::plain(STRS[i]))),
        2 => (0u8..5).prop_map(|i| VT::C(q_subject(i, false))),
    ]
}

fn cmp_op() -> impl Strategy<Value = CmpOp> {
    prop_oneof![
        2 => Just(CmpOp::Eq),
        1 => Just(CmpOp::Ne),
        1 => Just(CmpOp::Lt),
        1 => Just(CmpOp::Le),
        1 => Just(CmpOp::Gt),
        1 => Just(CmpOp::Ge),
    ]
}

/// FILTER expressions over the given variables (plus, rarely, one that is not in scope).
fn expr_strategy(vars: Vec<Var>) -> impl Strategy<Value = Expr> {
    let vs = vars.clone();
    let pick = move || {
        let vs = vs.clone();
        (any::<u16>(), 0u8..20).prop_map(move |(i, stray)| if stray == 0 || vs.is_empty() { 7 } else { vs[crate::driver::pick(i, vs.len())] })
    };
    let atom = prop_oneof![
        6 => (cmp_op(), pick(), const_operand()).prop_map(|(op, v, c)| Expr::Cmp(op, VT::V(v), c)),
        1 => (cmp_op(), pick(), const_operand()).prop_map(|(op, v, c)| Expr::Cmp(op, c, VT::V(v))),
        2 => (cmp_op(), pick(), pick()).prop_map(|(op, a, b)| Expr::Cmp(op, VT::V(a), VT::V(b))),
        2 => pick().prop_map(Expr::Bound),
    ];
    atom.prop_recursive(2, 6, 2, |inner| {
        prop_oneof![
            2 => (inner.clone(), inner.clone()).prop_map(|(a, b)| Expr::And(Box::new(a), Box::new(b))),
            2 => (inner.clone(), inner.clone()).prop_map(|(a, b)| Expr::Or(Box::new(a), Box::new(b))),
            1 => inner.prop_map(|a| Expr::Not(Box::new(a))),
        ]
    })
}

/// Object constant that can occur under predicate `pi` (typed columns), or a variable.
fn obj_for(pi: u8, okind: u8, oi: u8, v: Var) -> VT {
    if okind < 14 { VT::V(v) } else { VT::C(q_object(pi, oi, false, false)) }
}

/// Required part of a group: star (shared subject), chain (object of one pattern is the subject of the next,
/// through the resource-valued predicate p0) or free-form patterns.
fn bgp_strategy() -> impl Strategy<Value = Vec<TP>> {
    let star = (proptest::collection::vec((0u8..3, 0u8..20, 0u8..8), 1..=3), 0u8..10, 0u8..4).prop_map(|(ps, sk, si)| {
        let subj = if sk == 0 { VT::C(q_subject(si, false)) } else { VT::V(0) };
        ps.into_iter()
            .enumerate()
            .map(|(i, (pi, okind, oi))| TP { s: subj.clone(), p: VT::C(q_pred(pi)), o: obj_for(pi, okind, oi, i as u8 + 1) })
            .collect::<Vec<_>>()
    });
    let chain = (2usize..=3, 0u8..3, 0u8..20, 0u8..8, 0u8..10, 0u8..4).prop_map(|(n, last_p, okind, oi, sk, si)| {
        let mut v = Vec::new();
        for i in 0..n {
            let s = if i == 0 && sk == 0 { VT::C(q_subject(si, false)) } else { VT::V(i as u8) };
            if i + 1 < n {
                v.push(TP { s, p: VT::C(q_pred(0)), o: VT::V(i as u8 + 1) });
            } else {
                v.push(TP { s, p: VT::C(q_pred(last_p)), o: obj_for(last_p, okind, oi, i as u8 + 1) });
            }
        }
        v
    });
    prop_oneof![4 => star, 3 => chain, 3 => proptest::collection::vec(tp_strategy(), 1..=3)]
}

#[derive(Debug, Clone)]
struct OptSeed {
    template: bool,
    shared: u16,
    pi: u8,
    okind: u8,
    oi: u8,
    free: Vec<TP>,
    want_filter: bool,
}

fn opt_seed() -> impl Strategy<Value = OptSeed> {
    (0u8..10, any::<u16>(), 0u8..3, 0u8..20, 0u8..8, proptest::collection::vec(tp_strategy(), 1..=2), 0u8..10).prop_map(
        |(t, shared, pi, okind, oi, free, f)| OptSeed { template: t < 7, shared, pi, okind, oi, free, want_filter: f < 3 },
    )
}

fn group_strategy() -> impl Strategy<Value = Group> {
    let nopt = prop_oneof![5 => Just(0usize), 3 => Just(1usize), 1 => Just(2usize)];
    (bgp_strategy(), nopt.prop_flat_map(|n| proptest::collection::vec(opt_seed(), n)), 0u8..10).prop_flat_map(|(bgp, seeds, want_filter)| {
        // OPTIONAL { ?shared <p> ?new } for a variable of the required part (template) or free-form patterns
        let mut used = Vec::new();
        tp_vars(&bgp, &mut used);
        let mut obgps: Vec<(Vec<TP>, bool)> = Vec::new();
        for sd in &seeds {
            if sd.template && !used.is_empty() {
                let shared = used[crate::driver::pick(sd.shared, used.len())];
                let fresh = (0u8..6).find(|v| !used.contains(v)).unwrap_or(5);
                used.push(fresh);
                obgps.push((vec![TP { s: VT::V(shared), p: VT::C(q_pred(sd.pi)), o: obj_for(sd.pi, sd.okind, sd.oi, fresh) }], sd.want_filter));
            } else {
                tp_vars(&sd.free, &mut used);
                obgps.push((sd.free.clone(), sd.want_filter));
            }
        }
        let filter = if want_filter < 4 { expr_strategy(used.clone()).prop_map(Some).boxed() } else { Just(None).boxed() };
        // filters inside OPTIONAL only mention variables of the OPTIONAL's own patterns
        let ofilters: Vec<BoxedStrategy<Option<Expr>>> = obgps
            .iter()
            .map(|(o, want)| {
                let mut v = Vec::new();
                tp_vars(o, &mut v);
                if *want && !v.is_empty() { expr_strategy(v).prop_map(Some).boxed() } else { Just(None).boxed() }
            })
            .collect();
        (filter, ofilters).prop_map(move |(filter, ofs)| Group {
            bgp: bgp.clone(),
            optionals: obgps.iter().cloned().zip(ofs).map(|((bgp, _), filter)| Opt { bgp, filter }).collect(),
            filter,
        })
    })
}

/// The same group with other constants: predicates rotated by `k`, constant objects re-drawn for the new
/// predicate, filters dropped. Variables stay where they are, so both groups bind the same variables in the
/// same order.
fn variant(g: &Group, k: u8) -> Group {
    let tp = |t: &TP| -> TP {
        match &t.p {
            VT::C(T::Iri(pn)) => {
                let old = pn.as_bytes()[pn.len() - 1] - b'0';
                let np = (old + k) % 3;
                let o = match &t.o {
                    VT::V(v) => VT::V(*v),
                    VT::C(_) => VT::C(q_object(np, k, false, false)),
                };
                TP { s: t.s.clone(), p: VT::C(q_pred(np)), o }
            }
            _ => t.clone(),
        }
    };
    Group {
        bgp: g.bgp.iter().map(tp).collect(),
        optionals: g.optionals.iter().map(|o| Opt { bgp: o.bgp.iter().map(tp).collect(), filter: None }).collect(),
        filter: None,
    }
}

/// UNION: 70% with a second branch that binds the same variables in the same order (`variant`), 30% with an
/// independent second branch (on the pinned tree that region is the known finding
/// `union-branches-bind-different-variables`).
fn pattern_strategy() -> impl Strategy<Value = Pattern> {
    prop_oneof![
        10 => group_strategy().prop_map(Pattern::Group),
        2 => (group_strategy(), 0u8..3).prop_map(|(g, k)| { let v = variant(&g, k); Pattern::Union(vec![g, v]) }),
        1 => proptest::collection::vec(group_strategy(), 2..=2).prop_map(Pattern::Union),
    ]
}

fn query_strategy() -> impl Strategy<Value = Query> {
    pattern_strategy().prop_flat_map(|pattern| {
        let vars = pattern_vars(&pattern);
        let certain = certain_vars(&pattern);
        let nv = vars.len().max(1);
        let vars2 = vars.clone();
        let select = (
            prop_oneof![3 => Just(false), 1 => Just(true)],
            prop_oneof![1 => Just(None), 2 => proptest::collection::vec(any::<u16>(), 1..=nv).prop_map(Some)],
            proptest::collection::vec((any::<u16>(), any::<bool>()), 0..=2),
            prop_oneof![3 => Just(false), 1 => Just(true)],
            prop_oneof![3 => Just(None), 1 => (0u8..6).prop_map(Some)],
            prop_oneof![4 => Just(None), 1 => (0u8..4).prop_map(Some)],
        )
            .prop_map({
                let pattern = pattern.clone();
                let vars = vars.clone();
                move |(distinct, proj, order, want_order, limit, offset)| {
                    let proj = match proj {
                        Some(ix) if !vars.is_empty() => {
                            let mut vs: Vec<Var> = Vec::new();
                            for i in ix {
                                let v = vars[crate::driver::pick(i, vars.len())];
                                if !vs.contains(&v) {
                                    vs.push(v);
                                }
                            }
                            Proj::Vars(vs)
                        }
                        _ => Proj::Star,
                    };
                    let mut ord: Vec<(Var, bool)> = Vec::new();
                    if want_order && !vars.is_empty() {
                        for (i, d) in order {
                            let v = vars[crate::driver::pick(i, vars.len())];
                            if !ord.iter().any(|(x, _)| *x == v) {
                                ord.push((v, d));
                            }
                        }
                    }
                    if union_branches_differ(&pattern) {
                        // known-finding region: keep the query plain so that the predicted wrong answer is exact
                        return Query::Select { distinct: false, proj, pattern: pattern.clone(), order: Vec::new(), limit: None, offset: None };
                    }
                    Query::Select { distinct, proj, pattern: pattern.clone(), order: ord, limit, offset }
                }
            });
        let count = (any::<u16>(), any::<u16>(), 0u8..3, prop_oneof![3 => Just(false), 1 => Just(true)], any::<bool>()).prop_map({
            let pattern = pattern.clone();
            move |(gi, ai, kind, distinct, star)| {
                // GROUP BY only on variables every solution binds (grouping on unbound is legal but rarely meant)
                let group_by = if kind == 0 || certain.is_empty() { None } else { Some(certain[crate::driver::pick(gi, certain.len())]) };
                let arg = if star || vars2.is_empty() { None } else { Some(vars2[crate::driver::pick(ai, vars2.len())]) };
                // COUNT(DISTINCT *) is not in the core grammar
                let distinct = distinct && arg.is_some();
                Query::Count { pattern: pattern.clone(), group_by, arg, distinct }
            }
        });
        prop_oneof![4 => select.boxed(), 1 => count.boxed()]
    })
}

pub fn case_strategy(max_data: usize) -> impl Strategy<Value = SparqlCase> {
    (data_strategy(max_data), any::<bool>(), query_strategy()).prop_map(|(data, via_session, query)| SparqlCase { data, via_session, query })
}

fn update_triple() -> impl Strategy<Value = Tr> {
    (0u8..7, 0u8..3, 0u8..8, 0u8..12).prop_map(|(s, p, o, k)| {
        // blank nodes in INSERT DATA are legal SPARQL; the engine rejects them (classed, not judged): keep them rare
        let blanks = k == 0;
        (q_subject(s, blanks), q_pred(p), q_object(p, o, blanks, k == 1 || k == 2))
    })
}

pub fn update_strategy() -> impl Strategy<Value = UpdateCase> {
    let upd = prop_oneof![
        3 => proptest::collection::vec(update_triple(), 1..=3).prop_map(Update::InsertData),
        2 => proptest::collection::vec(update_triple(), 1..=3).prop_map(Update::DeleteData),
        3 => (prop_oneof![3 => Just(0u8), 1 => 0u8..3], 0u8..3, 0u8..4).prop_map(|(p, p2, shape)| Update::Modify { p, p2, shape }),
    ];
    (proptest::collection::vec(update_triple(), 0..=6), any::<bool>(), proptest::collection::vec(upd, 1..=4), any::<u16>()).prop_map(
        |(data, via_session, mut updates, aim)| {
            // aim a share of the DELETE DATA statements at triples that exist
            if !data.is_empty() {
                for (k, u) in updates.iter_mut().enumerate() {
                    if let Update::DeleteData(ts) = u
                        && (aim as usize + k) % 2 == 0
                    {
                        ts[0] = data[crate::driver::pick(aim, data.len())].clone();
                    }
                }
            }
            UpdateCase { data, via_session, updates }
        },
    )
}

pub fn run(r: &mut Run) {
    let max_data = if r.is_thorough() { 24 } else { 14 };
    r.subcheck("sparql", r.cases(40_000, 1_500_000), move || case_strategy(max_data), check_query);
    r.subcheck("update", r.cases(40_000, 1_000_000), update_strategy, check_update);
}
