//! Harness-side RDF term model (ordered, serialisable) and conversion to grafeo terms.

use grafeo_core::graph::rdf::{Term, Triple, TriplePattern};
use serde::{Deserialize, Serialize};

pub const XSD_INTEGER: &str = "http://www.w3.org/2001/XMLSchema#integer";
pub const XSD_STRING: &str = "http://www.w3.org/2001/XMLSchema#string";
pub const XSD_DATE: &str = "http://www.w3.org/2001/XMLSchema#date";
pub const XSD_BOOLEAN: &str = "http://www.w3.org/2001/XMLSchema#boolean";

/// An RDF term as the harness sees it. `Typed(v, xsd:string)` is never constructed (it is the same term
/// as `Plain(v)` both in RDF 1.1 and in grafeo's `Literal`); use [`T::typed`].
#[derive(Debug, Clone, PartialEq, Eq, PartialOrd, Ord, Hash, Serialize, Deserialize)]
pub enum T {
    Iri(String),
    Blank(String),
    Plain(String),
    Lang(String, String),
    Typed(String, String),
}

impl T {
    pub fn iri(s: &str) -> T {
        T::Iri(s.to_string())
    }
    pub fn plain(s: &str) -> T {
        T::Plain(s.to_string())
    }
    pub fn int(i: i64) -> T {
        T::Typed(i.to_string(), XSD_INTEGER.to_string())
    }
    pub fn typed(v: &str, dt: &str) -> T {
        if dt == XSD_STRING { T::Plain(v.to_string()) } else { T::Typed(v.to_string(), dt.to_string()) }
    }
    pub fn lang(v: &str, l: &str) -> T {
        T::Lang(v.to_string(), l.to_string())
    }

    pub fn to_term(&self) -> Term {
        match self {
            T::Iri(s) => Term::iri(s.as_str()),
            T::Blank(s) => Term::blank(s.as_str()),
            T::Plain(s) => Term::literal(s.as_str()),
            T::Lang(v, l) => Term::lang_literal(v.as_str(), l.as_str()),
            T::Typed(v, d) => Term::typed_literal(v.as_str(), d.as_str()),
        }
    }

    pub fn from_term(t: &Term) -> T {
        match t {
            Term::Iri(i) => T::Iri(i.as_str().to_string()),
            Term::BlankNode(b) => T::Blank(b.id().to_string()),
            Term::Literal(l) => {
                if let Some(lang) = l.language() {
                    T::Lang(l.value().to_string(), lang.to_string())
                } else {
                    T::typed(l.value(), l.datatype())
                }
            }
        }
    }

    /// The lexical form the SPARQL result rows expose (`planner_rdf::term_to_string`): IRI string,
    /// `_:id`, literal lexical value (datatype and language tag are not exposed).
    pub fn lex(&self) -> String {
        match self {
            T::Iri(s) => s.clone(),
            T::Blank(s) => format!("_:{s}"),
            T::Plain(v) | T::Lang(v, _) | T::Typed(v, _) => v.clone(),
        }
    }

    pub fn is_literal(&self) -> bool {
        matches!(self, T::Plain(_) | T::Lang(..) | T::Typed(..))
    }

    pub fn as_int(&self) -> Option<i64> {
        match self {
            T::Typed(v, d) if d == XSD_INTEGER => v.parse().ok(),
            _ => None,
        }
    }

    /// SPARQL / Turtle surface syntax.
    pub fn sparql(&self) -> String {
        fn esc(s: &str) -> String {
            let mut o = String::new();
            for c in s.chars() {
                match c {
                    '"' => o.push_str("\\\""),
                    '\\' => o.push_str("\\\\"),
                    '\n' => o.push_str("\\n"),
                    '\r' => o.push_str("\\r"),
                    '\t' => o.push_str("\\t"),
                    c => o.push(c),
                }
            }
            o
        }
        match self {
            T::Iri(s) => format!("<{s}>"),
            T::Blank(s) => format!("_:{s}"),
            T::Plain(v) => format!("\"{}\"", esc(v)),
            T::Lang(v, l) => format!("\"{}\"@{l}", esc(v)),
            T::Typed(v, d) => {
                if d == XSD_INTEGER && v.parse::<i64>().map(|i| i >= 0 && i.to_string() == *v).unwrap_or(false) {
                    v.clone() // bare integer syntax
                } else {
                    format!("\"{}\"^^<{d}>", esc(v))
                }
            }
        }
    }
}

/// A triple of harness terms (ordered: subject, predicate, object).
pub type Tr = (T, T, T);

pub fn to_triple(t: &Tr) -> Triple {
    Triple::new(t.0.to_term(), t.1.to_term(), t.2.to_term())
}

pub fn from_triple(t: &Triple) -> Tr {
    (T::from_term(t.subject()), T::from_term(t.predicate()), T::from_term(t.object()))
}

pub fn pattern(s: Option<&T>, p: Option<&T>, o: Option<&T>) -> TriplePattern {
    TriplePattern { subject: s.map(T::to_term), predicate: p.map(T::to_term), object: o.map(T::to_term) }
}

pub fn matches(t: &Tr, s: Option<&T>, p: Option<&T>, o: Option<&T>) -> bool {
    s.is_none_or(|x| *x == t.0) && p.is_none_or(|x| *x == t.1) && o.is_none_or(|x| *x == t.2)
}

pub fn show_tr(t: &Tr) -> String {
    format!("{} {} {}", t.0.sparql(), t.1.sparql(), t.2.sparql())
}

pub fn show_pat(s: Option<&T>, p: Option<&T>, o: Option<&T>) -> String {
    let f = |x: Option<&T>| x.map_or("?".to_string(), T::sparql);
    format!("({} {} {})", f(s), f(p), f(o))
}

// ---------------------------------------------------------------------------------------------
// The small term universe used by the store-history and SPARQL sub-checks. Indices (u8) into these
// pools are what cases carry, so shrinking moves towards index 0.
// ---------------------------------------------------------------------------------------------

/// Subjects: IRIs and blank nodes.
pub fn subject_pool() -> Vec<T> {
    vec![
        T::iri("http://e/s0"),
        T::iri("http://e/s1"),
        T::iri("http://e/s2"),
        T::Blank("b0".into()),
        T::iri("http://e/s3"),
        T::Blank("b1".into()),
    ]
}

pub fn predicate_pool() -> Vec<T> {
    vec![T::iri("http://e/p0"), T::iri("http://e/p1"), T::iri("http://e/p2")]
}

/// Objects: the subject pool (so that a term occurs both as subject and object), plain / language-tagged /
/// typed literals with colliding lexical forms, and a plain literal whose text is an IRI of the pool.
pub fn object_pool() -> Vec<T> {
    let mut v = subject_pool();
    v.extend([
        T::plain("a"),
        T::lang("a", "en"),
        T::lang("a", "de"),
        T::int(1),
        T::plain("1"),
        T::typed("1", XSD_BOOLEAN),
        T::plain("http://e/s0"),
        T::plain(""),
        T::typed("2020-01-01", XSD_DATE),
        T::plain("b0"),
    ]);
    v
}
