//! Sub-check (c): `TripleRing` (ring-index) built from a triple list answers every pattern shape like the set.

use std::collections::BTreeSet;

use grafeo_core::graph::rdf::Triple;
use grafeo_core::index::ring::{RingIterator, TripleRing};
use proptest::prelude::*;
use serde::{Deserialize, Serialize};

use super::terms::*;
use crate::driver::{CaseResult, Failure, fail, guard, hash_of, ok};

#[derive(Debug, Clone, PartialEq, Eq, Hash, Serialize, Deserialize)]
pub struct RingCase {
    /// pool sizes (subjects, predicates, objects)
    pub ns: u8,
    pub np: u8,
    pub no: u8,
    /// triples as pool indices (taken modulo the pool sizes), duplicates allowed
    pub triples: Vec<(u8, u8, u8)>,
}

pub fn strategy(max_triples: usize) -> impl Strategy<Value = RingCase> {
    let len = prop_oneof![
        1 => Just(0usize),
        1 => Just(1usize),
        6 => 2usize..40,
        2 => prop_oneof![Just(63usize), Just(64), Just(65), Just(127), Just(128), Just(129)],
        2 => 40usize..=max_triples.max(41),
        // long lists: several 512-bit superblocks per wavelet-tree level, dense levels
        1 => 600usize..=1200,
    ];
    (1u8..=40, 1u8..=6, 1u8..=60, len).prop_flat_map(|(ns, np, no, n)| {
        proptest::collection::vec((0u8..ns, 0u8..np, 0u8..no), n).prop_map(move |triples| RingCase { ns, np, no, triples })
    })
}

pub fn subj(i: u8) -> T {
    if i % 5 == 4 { T::Blank(format!("b{i}")) } else { T::Iri(format!("http://e/s{i}")) }
}
pub fn pred(i: u8) -> T {
    T::Iri(format!("http://e/p{i}"))
}
pub fn obj(j: u8) -> T {
    match j % 4 {
        0 => subj(j / 4),
        1 => T::Plain(format!("v{j}")),
        2 => T::Lang(format!("v{}", j - 1), "en".into()), // same lexical form as the plain literal before it
        _ => T::int(i64::from(j)),
    }
}

fn sorted(v: Vec<Triple>) -> Vec<Tr> {
    let mut out: Vec<Tr> = v.iter().map(from_triple).collect();
    out.sort();
    out
}

pub fn check(case: &RingCase) -> CaseResult {
    let list: Vec<Tr> = case.triples.iter().map(|(s, p, o)| (subj(*s % case.ns), pred(*p % case.np), obj(*o % case.no))).collect();
    let set: BTreeSet<Tr> = list.iter().cloned().collect();
    let ring = guard("from_triples", || TripleRing::from_triples(list.iter().map(to_triple)))?;

    let n = guard("len", || ring.len())?;
    if n != set.len() {
        return fail("c13/ring/len", format!("len() = {n}, set has {} (list of {} with duplicates)", set.len(), list.len()));
    }
    if guard("is_empty", || ring.is_empty())? != set.is_empty() {
        return fail("c13/ring/is_empty", "is_empty() disagrees with the set".to_string());
    }
    let terms: BTreeSet<&T> = set.iter().flat_map(|t| [&t.0, &t.1, &t.2]).collect();
    // the dictionary is filled before de-duplication, from the same terms
    let nt = guard("num_terms", || ring.num_terms())?;
    if nt != terms.len() {
        return fail("c13/ring/num_terms", format!("num_terms() = {nt}, the set has {} distinct terms", terms.len()));
    }
    // positional access: every position is a triple of the set, each exactly once; permutations are bijections
    let mut seen = Vec::with_capacity(n);
    for i in 0..n {
        match guard("get_spo", || ring.get_spo(i))? {
            Some(t) => seen.push(t),
            None => return fail("c13/ring/get_spo", format!("get_spo({i}) is None with len {n}")),
        }
        for name in ["pos", "osp"] {
            let fwd = if name == "pos" { guard("spo_to_pos", || ring.spo_to_pos(i))? } else { guard("spo_to_osp", || ring.spo_to_osp(i))? };
            let Some(j) = fwd else { return fail(format!("c13/ring/perm-{name}"), format!("spo_to_{name}({i}) is None with len {n}")) };
            if j >= n {
                return fail(format!("c13/ring/perm-{name}"), format!("spo_to_{name}({i}) = {j} >= len {n}"));
            }
            let back = if name == "pos" { guard("pos_to_spo", || ring.pos_to_spo(j))? } else { guard("osp_to_spo", || ring.osp_to_spo(j))? };
            if back != Some(i) {
                return fail(format!("c13/ring/perm-{name}"), format!("{name}_to_spo(spo_to_{name}({i}) = {j}) = {back:?}"));
            }
        }
    }
    if guard("get_spo", || ring.get_spo(n))?.is_some() {
        return fail("c13/ring/get_spo", format!("get_spo(len = {n}) is Some"));
    }
    if sorted(seen) != set.iter().cloned().collect::<Vec<_>>() {
        return fail("c13/ring/get_spo", "positions 0..len do not enumerate the set exactly once".to_string());
    }

    let check = |s: Option<&T>, p: Option<&T>, o: Option<&T>| -> Result<(), Failure> {
        let pat = pattern(s, p, o);
        let want: Vec<Tr> = set.iter().filter(|t| matches(t, s, p, o)).cloned().collect();
        let got = sorted(guard("find", || ring.find(&pat).collect::<Vec<_>>())?);
        if got != want {
            return fail("c13/ring/find", format!("ring.find{} = {} triples, set says {}: {:?} vs {:?}", show_pat(s, p, o), got.len(), want.len(), got, want));
        }
        let c = guard("count", || ring.count(&pat))?;
        if c != want.len() {
            return fail("c13/ring/count", format!("ring.count{} = {c}, set says {}", show_pat(s, p, o), want.len()));
        }
        Ok(())
    };
    check(None, None, None)?;
    let all = sorted(guard("RingIterator::all", || RingIterator::all(&ring).collect::<Vec<_>>())?);
    if all != set.iter().cloned().collect::<Vec<_>>() {
        return fail("c13/ring/iter-all", format!("RingIterator::all yields {} triples, set has {}", all.len(), set.len()));
    }
    // single-term shapes for every pool term (present or absent) + the single-term iterators
    for i in 0..case.ns {
        let s = subj(i);
        check(Some(&s), None, None)?;
        let want: Vec<Tr> = set.iter().filter(|t| t.0 == s).cloned().collect();
        let st = s.to_term();
        let got = sorted(guard("RingIterator::with_subject", || RingIterator::with_subject(&ring, &st).collect::<Vec<_>>())?);
        if got != want {
            return fail("c13/ring/iter-subject", format!("RingIterator::with_subject({}) = {got:?}, set says {want:?}", s.sparql()));
        }
    }
    for i in 0..case.np {
        let p = pred(i);
        check(None, Some(&p), None)?;
        let want: Vec<Tr> = set.iter().filter(|t| t.1 == p).cloned().collect();
        let pt = p.to_term();
        let got = sorted(guard("RingIterator::with_predicate", || RingIterator::with_predicate(&ring, &pt).collect::<Vec<_>>())?);
        if got != want {
            return fail("c13/ring/iter-predicate", format!("RingIterator::with_predicate({}) = {got:?}, set says {want:?}", p.sparql()));
        }
    }
    for j in 0..case.no {
        let o = obj(j);
        check(None, None, Some(&o))?;
        let want: Vec<Tr> = set.iter().filter(|t| t.2 == o).cloned().collect();
        let ot = o.to_term();
        let got = sorted(guard("RingIterator::with_object", || RingIterator::with_object(&ring, &ot).collect::<Vec<_>>())?);
        if got != want {
            return fail("c13/ring/iter-object", format!("RingIterator::with_object({}) = {got:?}, set says {want:?}", o.sparql()));
        }
    }
    // a term of the wrong position (an object-only literal as subject) and an unknown term
    let unknown = T::iri("http://e/unknown");
    check(Some(&unknown), None, None)?;
    check(None, None, Some(&unknown))?;
    check(Some(&unknown), Some(&pred(0)), Some(&obj(1)))?;
    // two- and three-term shapes: from the triples of the list (bounded) and from crossed pairs (mostly absent)
    let sample: Vec<&Tr> = list.iter().take(48).collect();
    for (k, t) in sample.iter().enumerate() {
        check(Some(&t.0), Some(&t.1), None)?;
        check(Some(&t.0), None, Some(&t.2))?;
        check(None, Some(&t.1), Some(&t.2))?;
        check(Some(&t.0), Some(&t.1), Some(&t.2))?;
        let u = sample[(k + 1) % sample.len()];
        check(Some(&t.0), Some(&u.1), Some(&u.2))?;
        check(Some(&t.0), None, Some(&u.2))?;
        check(None, Some(&t.1), Some(&u.2))?;
    }

    let dup = list.len() > set.len();
    let shared = terms.len() < 3 * set.len();
    let class = match (set.len(), dup) {
        (0, _) => "empty",
        (1, _) => "single",
        (2..=63, false) => "small",
        (2..=63, true) => "small+dups",
        (_, false) => "crosses-64",
        (_, true) => "crosses-64+dups",
    };
    ok(set.len() >= 3 && shared, class, hash_of(case))
}
